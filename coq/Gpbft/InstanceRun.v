(* executable trace checker for the Layer-N correspondence (C07/C03/C06) *)
From Coq Require Import ZArith List Bool.
From F3 Require Import GoInt QuorumGen Instance.
Import ListNotations.
Open Scope Z_scope.

(* observation after one event: (round, phase code, outputs oldest-first, decision?, internal error?) *)
Inductive oobs :=
| XBroadcast (round ph : Z) (v : chain) (j : option (Z * Z * chain)) (ticket : bool)
| XRebroadcast (round ph : Z)
| XAlarm (t : Z).
Record obs := mkObs { o_round : Z; o_phase : Z; o_outs : list oobs; o_decision : option (chain * list Z); o_err : bool }.

Definition jsum (j : just) : Z * Z * chain := (j_round j, phase_code (j_phase j), j_value j).
Definition jsum_eqb (a b : Z * Z * chain) : bool :=
  let '(a1, a2, a3) := a in let '(b1, b2, b3) := b in (a1 =? b1) && (a2 =? b2) && chain_eqb a3 b3.
Definition ojsum_eqb (a b : option (Z * Z * chain)) : bool :=
  match a, b with Some x, Some y => jsum_eqb x y | None, None => true | _, _ => false end.
Fixpoint zl_eqb (a b : list Z) : bool :=
  match a, b with [], [] => true | x :: a', y :: b' => (x =? y) && zl_eqb a' b' | _, _ => false end.

Definition out_matches (o : out) (x : oobs) : bool :=
  match o, x with
  | OBroadcast r p v j t, XBroadcast r' p' v' j' t' =>
      (r =? r') && (phase_code p =? p') && chain_eqb v v' && ojsum_eqb (option_map jsum j) j' && Bool.eqb t t'
  | ORebroadcast r p, XRebroadcast r' p' => (r =? r') && (phase_code p =? p')
  | OAlarm t, XAlarm t' => t =? t'
  | _, _ => false
  end.
Fixpoint outs_match (a : list out) (b : list oobs) : bool :=
  match a, b with [], [] => true | x :: a', y :: b' => out_matches x y && outs_match a' b' | _, _ => false end.

Definition obs_matches (i : inst) (x : obs) : bool :=
  (i_round i =? o_round x) && (phase_code (i_phase i) =? o_phase x) && outs_match (rev (i_out i)) (o_outs x) &&
  Bool.eqb (match i_err i with Some _ => true | None => false end) (o_err x) &&
  match i_term i, o_decision x with
  | Some j, Some (v, signers) => chain_eqb (j_value j) v && zl_eqb (j_signers j) signers && (j_round j =? 0) && (phase_code (j_phase j) =? 5)
  | None, None => true
  | _, _ => false
  end.

(* returns the index of the first event whose observation differs, or -1 *)
Fixpoint run_trace (c : config) (i : inst) (tr : list (event * obs)) (idx : Z) : Z :=
  match tr with
  | [] => -1
  | (e, x) :: rest =>
      let i' := step c (clear_out i) e in
      if obs_matches i' x then (if o_err x then -1 else run_trace c i' rest (idx + 1)) else idx
  end.
(* the committee the implementation ran with is a power table: non-negative scaled powers, ScaledTotal their sum, < 2^62
   (the hypothesis committee_wf of the no-panic theorems, checked on every trace) *)
Definition cfg_wfb (c : config) : bool :=
  forallb (fun p => 0 <=? p) (c_powers c) && (c_total c =? fold_right Z.add 0 (c_powers c)) &&
  (0 <? c_total c) && (c_total c <? 4611686018427387904).
(* what a validated message guarantees about its justification (gpbft/validator.go: the justification of a CONVERGE or
   PREPARE of round r is from round r-1, that of a COMMIT for a value from round r, DECIDE carries round 0, CONVERGE
   never carries bottom) -- the hypothesis of the no-internal-error theorem, checked on every delivered message *)
Definition wfmb (m : msg) : bool :=
  match m_phase m with
  | QUALITY => true
  | CONVERGE => negb (is_zero (m_value m)) && match m_just m with Some j => j_round j =? m_round m - 1 | None => false end
  | PREPARE => match m_just m with Some j => j_round j =? m_round m - 1 | None => true end
  | COMMIT => is_zero (m_value m) || match m_just m with Some j => j_round j =? m_round m | None => false end
  | DECIDE => m_round m =? 0
  | _ => false
  end.
(* events after the start: deliveries of validated messages and alarms *)
Definition ev_okb (e : event) : bool := match e with EvStart _ => false | EvDeliver _ m _ => wfmb m | EvAlarm _ _ => true end.
Definition trace_shape_ok (tr : list (event * obs)) : bool :=
  match tr with (EvStart _, _) :: rest => forallb (fun p => ev_okb (fst p)) rest | _ => false end.
Definition trace_ok (c : config) (input : chain) (tr : list (event * obs)) : bool :=
  cfg_wfb c && trace_shape_ok tr && (run_trace c (new_instance input 0) tr 0 =? -1).

(* ---------- beginInstance with queued messages (participant.go: Start, then ReceiveMany of the drained queue) ----------
   ReceiveMany = receiveOne for every message in the given order (an internal error aborts), then ONE postReceive over the
   distinct rounds whose state changed, in descending order: the first round that warrants a skip is skipped to. *)
Fixpoint receive_all (c : config) (i : inst) (ms : list (msg * option chain)) (rounds : list Z) : inst * list Z :=
  match ms with
  | [] => (i, rounds)
  | (m, sway) :: rest =>
      let '(i1, changed) := receive_one c i m sway in
      match i_err i1 with
      | Some _ => (i1, rounds)
      | None => receive_all c i1 rest (if changed && negb (existsb (Z.eqb (m_round m)) rounds) then m_round m :: rounds else rounds)
      end
  end.
Fixpoint insert_desc (x : Z) (l : list Z) : list Z :=
  match l with [] => [x] | y :: r => if y <? x then x :: l else y :: insert_desc x r end.
Fixpoint post_receive_first (c : config) (i : inst) (rounds_desc : list Z) : inst :=
  match rounds_desc with
  | [] => i
  | r :: rest => let i' := post_receive c i r in
                 if (i_round i' =? i_round i) && (match i_err i' with None => true | Some _ => false end) then post_receive_first c i rest else i'
  end.
Definition receive_many (c : config) (i : inst) (ms : list (msg * option chain)) : inst :=
  if phase_eqb (i_phase i) TERMINATED then i else
  let '(i1, rounds) := receive_all c i ms [] in
  match i_err i1 with
  | Some _ => i1
  | None => post_receive_first c i1 (fold_right insert_desc [] rounds)
  end.
Definition start_with_queue (c : config) (i : inst) (now : Z) (ms : list (msg * option chain)) : inst :=
  receive_many c (step c (clear_out i) (EvStart now)) ms.
(* the queue as messageQueue.Drain returns it: ordered by round (rounds are unsigned) *)
Fixpoint rounds_sortedb (lo : Z) (ms : list (msg * option chain)) : bool :=
  match ms with [] => true | (m, _) :: rest => (lo <=? m_round m) && rounds_sortedb (m_round m) rest end.
(* trace whose first observation covers Start + ReceiveMany of the queued messages *)
Definition traceq_ok (c : config) (input : chain) (now : Z) (queued : list (msg * option chain)) (first : obs) (tr : list (event * obs)) : bool :=
  cfg_wfb c && forallb (fun p => wfmb (fst p)) queued && rounds_sortedb 0 queued && forallb (fun p => ev_okb (fst p)) tr &&
  let i1 := start_with_queue c (new_instance input 0) now queued in
  obs_matches i1 first && (o_err first || (run_trace c i1 tr 1 =? -1)).

(* debugging aid: index of the first differing event together with what the model produced there *)
Fixpoint run_trace_dbg (c : config) (i : inst) (tr : list (event * obs)) (idx : Z)
  : option (Z * (Z * Z * list out * option ierr * option just) * obs) :=
  match tr with
  | [] => None
  | (e, x) :: rest =>
      let i' := step c (clear_out i) e in
      if obs_matches i' x then (if o_err x then None else run_trace_dbg c i' rest (idx + 1))
      else Some (idx, (i_round i', phase_code (i_phase i'), rev (i_out i'), i_err i', i_term i'), x)
  end.
Definition trace_dbg (c : config) (input : chain) (tr : list (event * obs)) := run_trace_dbg c (new_instance input 0) tr 0.
