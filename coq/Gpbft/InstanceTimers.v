(* Layer N, timers and progress (C06, node level).  What a single participant guarantees towards termination:
   no dead phase (once the phase timeout has elapsed and a strong quorum of the step's votes is in, the step is left),
   and what tryRebroadcast does with the single alarm slot -- including the REFUTATION of "an alarm is always pending"
   on a concrete reachable state (the same trace is replayed on the real participant by the C06 harness). *)
From Coq Require Import ZArith List Bool Lia.
From F3 Require Import GoInt QuorumGen Instance InstanceOrder InstanceVotes.
Import ListNotations.
Open Scope Z_scope.

Section Cfg.
Variable c : config.

(* ---------- no dead phase ---------- *)
Theorem quality_progress i :
  phase_timeout_elapsed i = true -> i_phase (try_quality c i) = PREPARE.
Proof.
  intros H. pose proof (try_quality_spec c i) as S. cbv zeta in S. rewrite H, orb_true_r in S. apply S.
Qed.

Theorem converge_progress i w :
  phase_timeout_elapsed i = true ->
  c_find_best (r_conv (get_round i (i_round i))) (fun _ => true) = Some w -> is_candidate i (cv_chain w) = true ->
  i_phase (try_converge c i) = PREPARE.
Proof. intros H1 H2 H3. apply (try_converge_adopts_best c i w H1 H2 H3). Qed.

Lemma phase_begin_commit i : i_phase (begin_commit c i) = COMMIT.
Proof.
  assert (H : snd (pkey (begin_commit c i)) = 4) by (rewrite pkey_begin_commit; reflexivity).
  apply phase_code_inj. exact H.
Qed.

Theorem prepare_progress i :
  phase_timeout_elapsed i = true -> q_from_strong c (r_prep (get_round i (i_round i))) = true ->
  i_phase (try_prepare c i) = COMMIT.
Proof.
  intros H1 H2. unfold try_prepare. cbv zeta. rewrite H1, H2. cbn [andb].
  rewrite !orb_true_r. apply phase_begin_commit.
Qed.

(* COMMIT: with the timeout elapsed and COMMITs from a strong quorum the participant decides, moves to the next round,
   or hits one of the internal errors (excluded separately) -- it never just stays *)
Lemma fail_err x e : i_err x = None -> i_err (fail x e) <> None.
Proof. intros H. cbn. rewrite H. discriminate. Qed.

Lemma begin_converge_result i j :
  i_err i = None -> let i' := begin_converge c i j in
  i_err i' <> None \/ (i_round i' = i_round i /\ i_phase i' = CONVERGE).
Proof. intros He. cbv zeta. unfold begin_converge. destruct (negb _); [left; apply fail_err; exact He|right; split; reflexivity]. Qed.

Lemma begin_next_round_result i :
  i_err i = None -> let i' := begin_next_round c i in
  i_err i' <> None \/ (i_round i' = i_round i + 1 /\ i_phase i' = CONVERGE).
Proof.
  intros He. cbv zeta. unfold begin_next_round.
  set (i1 := set_progress i (i_round i + 1) (i_phase i)).
  assert (He1 : i_err i1 = None) by exact He.
  repeat match goal with
         | |- context [match ?x with _ => _ end] => destruct x
         end;
  first [ left; apply fail_err; exact He1 | apply (begin_converge_result i1 _ He1) ].
Qed.

Lemma begin_decide_result i round :
  i_err i = None -> let i' := begin_decide c i round in i_err i' <> None \/ i_phase i' = DECIDE.
Proof.
  intros He. cbv zeta. unfold begin_decide. destruct (q_find_sq_for c _ _); [left; apply fail_err; exact He|left; apply fail_err; exact He|right; reflexivity].
Qed.

Theorem commit_progress i sway :
  i_phase i = COMMIT -> i_err i = None ->
  phase_timeout_elapsed i = true -> q_from_strong c (r_comm (get_round i (i_round i))) = true ->
  let i' := try_commit c i (i_round i) sway in
  i_err i' <> None \/ i_phase i' = DECIDE \/ (i_round i' = i_round i + 1 /\ i_phase i' = CONVERGE).
Proof.
  intros Hp He Ht Hq. cbv zeta. unfold try_commit. rewrite Ht, Hq, Hp, Z.eqb_refl. cbn [andb negb orb].
  replace (phase_eqb COMMIT COMMIT) with true by reflexivity. cbn [negb orb].
  assert (G : forall x, i_err x = None -> i_round x = i_round i ->
            i_err (begin_next_round c x) <> None \/ i_phase (begin_next_round c x) = DECIDE \/
            (i_round (begin_next_round c x) = i_round i + 1 /\ i_phase (begin_next_round c x) = CONVERGE)).
  { intros x Hx Hr. destruct (begin_next_round_result x Hx) as [H|[H1 H2]]; [left; exact H|right; right; split; [rewrite H1, Hr; reflexivity|exact H2]]. }
  destruct (q_find_sq_value (r_comm (get_round i (i_round i)))) as [| |[|x v]].
  - match goal with |- context [if ?b then begin_next_round c i else _] => destruct b end; [apply G; [exact He|reflexivity]|].
    match goal with |- context [begin_next_round c ?y] => set (i1 := y) end.
    assert (H1 : i_err i1 = None /\ i_round i1 = i_round i).
    { unfold i1. destruct (match sway with Some _ => _ | None => _ end) as [v|]; [|split; [exact He|reflexivity]].
      cbv zeta. pose proof (same_add_candidate i v) as S. pose proof (same_round _ _ S) as Sr. destruct S as (_ & _ & Se & _).
      destruct (chain_eqb v _); split; cbn; congruence. }
    apply G; apply H1.
  - left. apply fail_err; exact He.
  - apply G; [exact He|reflexivity].
  - destruct (begin_decide_result (set_pv i (i_proposal i) (x :: v)) (i_round i) He) as [H|H]; [left; exact H|right; left; exact H].
Qed.

Theorem decide_progress i v :
  i_err i = None -> q_find_sq_value (i_decision i) = FsvSome v ->
  let i' := try_decide c i in i_err i' <> None \/ i_phase i' = TERMINATED.
Proof.
  intros He Hv. cbv zeta. unfold try_decide. rewrite Hv.
  destruct (q_find_sq_for c _ _); [left; apply fail_err; exact He|left; apply fail_err; exact He|right; reflexivity].
Qed.

(* ---------- the single alarm slot ---------- *)
Definition alarms (l : list out) : list Z := flat_map (fun o => match o with OAlarm t => [t] | _ => [] end) l.

(* what tryRebroadcast leaves behind: an alarm, or a rebroadcast deadline in the future and NO alarm, or (timeout not
   yet elapsed, deadline not before it) nothing at all, relying on the phase alarm *)
Theorem try_rebroadcast_cases i :
  let i' := try_rebroadcast c i in
  (exists t, hd_error (i_out i') = Some (OAlarm t)) \/
  (i' = i /\ exists rt, i_rtimeout i = Some rt /\ i_now i < rt) \/
  (i_out i' = i_out i /\ i_rtimeout i' = None /\ phase_timeout_elapsed i = false) \/
  (i' = i /\ i_rtimeout i = None /\ i_rattempts i <> 0).
Proof.
  cbv zeta. unfold try_rebroadcast. destruct (i_rtimeout i) as [rt|] eqn:Er.
  - destruct (rt <=? i_now i) eqn:El.
    + left. repeat match goal with |- context [if ?b then _ else _] => destruct b end; eexists; reflexivity.
    + right. left. split; [reflexivity|]. exists rt. split; [reflexivity|]. apply Z.leb_gt in El. exact El.
  - destruct (i_rattempts i =? 0) eqn:Ea.
    + set (off := if phase_eqb (i_phase i) DECIDE || (c_rebro_round c <? i_round i) then i_now i else i_ptimeout i).
      destruct (phase_timeout_elapsed (set_timers i (i_ptimeout i) (Some (off + nthZ (c_rebro_after c) 0)) (i_rattempts i))) eqn:Ep; [left; eexists; reflexivity|].
      destruct (off + nthZ (c_rebro_after c) 0 <? _); [left; eexists; reflexivity|]. right. right. left. repeat split. exact Ep.
    + right. right. right. repeat split. apply Z.eqb_neq in Ea. exact Ea.
Qed.

End Cfg.

(* ---------- "an alarm is always pending" is FALSE of the model (and of the code: the C06 harness replays this very
   trace on the real participant) ---------- *)
Definition lw_cfg := mkCfg [10; 30; 30] 70 4 0 2000 [2000; 3000; 4500; 6750] [700; 900; 1100; 1300; 1500].
Definition lw_events : list event :=
  [ EvStart 0;
    EvDeliver 10 (mkM 1 1 PREPARE [1] 0 (Some (mkJ 0 COMMIT [] [1; 2]))) None;
    EvDeliver 11 (mkM 1 1 CONVERGE [1] 5 (Some (mkJ 0 COMMIT [] [1; 2]))) None;      (* skip to round 1 *)
    EvAlarm 3011 None;                                                               (* CONVERGE timeout: PREPARE, alarm 6011 *)
    EvDeliver 4500 (mkM 2 1 CONVERGE [1] 7 (Some (mkJ 0 COMMIT [] [1; 2]))) None;   (* first rebroadcast deadline 5200 *)
    EvAlarm 5200 None;                                                               (* rebroadcast; next deadline 6100 >= 6011: alarm reverted to 6011 *)
    EvAlarm 6011 None ].                                                             (* phase alarm: deadline 6100 not reached -> nothing *)
Example alarm_pending_refuted :
  let f := snd (run_hist lw_cfg (new_instance [1; 2] 0) lw_events) in
  i_phase f = PREPARE /\ i_round f = 1 /\ i_err f = None /\ i_out f = [] /\ i_rtimeout f = Some 6100 /\ i_ptimeout f = 6011 /\ alarms (fst (run_hist lw_cfg (new_instance [1; 2] 0) lw_events)) = [2000; 3011; 6011; 5200; 6011].
Proof. vm_compute. repeat split. Qed.
