(* beginInstance with queued messages (InstanceRun.start_with_queue = Start, then receive_many of the drained queue): the
   instance-level invariants -- and with them "no internal error" -- hold afterwards as well, for every power-table
   committee, every input and every queue of validated messages ordered by round (as messageQueue.Drain returns them). *)
From Coq Require Import ZArith List Bool Lia.
From F3 Require Import GoInt QuorumGen QuorumProofs Instance InstanceRun InstanceOrder InstanceVotes InstanceConverge InstanceDecide InstanceQuorum
  InstanceNoPanic InstanceJust Refine RefineNode RefineNet.
Import ListNotations.
Open Scope Z_scope.

Section Many.
Variable c : config.
Hypothesis Hwf : committee_wf c.
Local Notation Full := (Full c).

Lemma wfmb_decide_round m : wfmb m = true -> m_phase m = DECIDE -> m_round m = 0.
Proof. unfold wfmb. intros H E. rewrite E in H. apply Z.eqb_eq. exact H. Qed.

Lemma Inv_receive_one i m sway : Inv i -> wfmb m = true -> Inv (fst (receive_one c i m sway)).
Proof.
  intros HI Hw. destruct (phase_eqb (i_phase i) TERMINATED) eqn:Ht.
  { unfold receive_one. rewrite Ht. exact HI. }
  apply phase_eqb_false in Ht.
  destruct (phase_eqb (m_phase m) DECIDE) eqn:Hmd.
  - apply phase_eqb_true in Hmd. pose proof (wfmb_decide_round m Hw Hmd) as Hr.
    destruct (receive_one_decide c i m sway Hmd Hr Ht) as (HRc & Hfe & H5 & Hcl & _).
    split; [|split].
    + apply Rc_kle, kle_round in HRc. destruct HI as (H0 & _). cbn in *. lia.
    + intros Hlt. lia.
    + exact Hcl.
  - apply phase_eqb_false in Hmd. exact (Inv_R c i _ HI (R_receive_one c i m sway Hmd)).
Qed.

Lemma Full_receive_one i m sway : Full i -> wfmb m = true -> Full (fst (receive_one c i m sway)).
Proof.
  intros (HI & HP & HA & HJ & He) Hw. destruct (committee_wf_ok c Hwf) as (Ht & Hpow & Hsum).
  assert (Ph : i_phase i <> INITIAL) by apply HP.
  pose proof (Inv_receive_one i m sway HI Hw) as HI'.
  destruct (Good_receive_one c i m sway HP He) as [GP GN].
  destruct (GQ_receive_one c Ht Hpow Hsum i m sway HA He) as [GA GQ].
  destruct (GJ_receive_one c Ht Hpow Hsum i m sway HJ HA He Ph Hw) as [GJ GNJ].
  assert (E' : i_err (fst (receive_one c i m sway)) = None).
  { destruct (i_err (fst (receive_one c i m sway))) as [x|] eqn:Ex; [exfalso|reflexivity].
    destruct x; try (apply (GQ _ Ex); exact I); try (apply (GNJ _ Ex); exact I). apply GN. exact Ex. }
  split; [exact HI'|split; [exact (GP E')|split; [exact GA|split; [exact GJ|exact E']]]].
Qed.

Lemma Full_post_receive i round : Full i -> i_phase i <> TERMINATED -> Full (post_receive c i round).
Proof.
  intros (HI & HP & HA & HJ & He) Hnt. destruct (committee_wf_ok c Hwf) as (Ht & Hpow & Hsum).
  assert (Hlt : phase_code (i_phase i) < 6) by (destruct (i_phase i); cbn; try lia; congruence).
  pose proof (Inv_R c i _ HI (R_post_receive c i round Hlt)) as HI'.
  destruct (Good_post_receive c i round HP He Hnt) as [GP GN].
  destruct (GQ_post_receive c i round HA He) as [GA GQ].
  assert (NJ0 : NJ i) by (intros e Hx; congruence).
  destruct (GJ_post_receive c i round HJ NJ0) as [GJ GNJ].
  assert (E' : i_err (post_receive c i round) = None).
  { destruct (i_err (post_receive c i round)) as [x|] eqn:Ex; [exfalso|reflexivity].
    destruct x; try (apply (GQ _ Ex); exact I); try (apply (GNJ _ Ex); exact I). apply GN. exact Ex. }
  split; [exact HI'|split; [exact (GP E')|split; [exact GA|split; [exact GJ|exact E']]]].
Qed.

Lemma Full_post_receive_first rounds : forall i, Full i -> i_phase i <> TERMINATED -> Full (post_receive_first c i rounds).
Proof.
  induction rounds as [|r rest IH]; intros i HF Hnt; cbn [post_receive_first]; [exact HF|].
  destruct ((i_round (post_receive c i r) =? i_round i) && _); [apply IH; assumption|apply Full_post_receive; assumption].
Qed.

(* a terminated instance whose recorded rounds do not exceed its round is left alone by the final postReceive *)
Lemma post_receive_first_noop rounds : forall i, i_err i = None -> (forall r, In r rounds -> r <= i_round i) -> post_receive_first c i rounds = i.
Proof.
  induction rounds as [|r rest IH]; intros i He Hr; cbn [post_receive_first]; [reflexivity|].
  assert (E : post_receive c i r = i).
  { unfold post_receive. replace (r <=? i_round i) with true by (symmetry; apply Z.leb_le; apply Hr; left; reflexivity). reflexivity. }
  rewrite E, Z.eqb_refl, He. cbn [andb]. apply IH; [exact He|intros x Hx; apply Hr; right; exact Hx].
Qed.

(* ---------- the queue: validated messages with non-negative rounds, ordered by round ---------- *)
Fixpoint rounds_sorted (lo : Z) (ms : list (msg * option chain)) : Prop :=
  match ms with [] => True | (m, _) :: rest => lo <= m_round m /\ rounds_sorted (m_round m) rest end.
Definition queue_ok (ms : list (msg * option chain)) : Prop := Forall (fun p => wfmb (fst p) = true) ms /\ rounds_sorted 0 ms.

(* invariant of the loop: the instance invariants; every recorded round is at most the last round seen; a terminated
   instance has only recorded rounds <= 0 *)
Definition LoopInv (i : inst) (rounds : list Z) (lo : Z) : Prop :=
  Full i /\ (forall r, In r rounds -> r <= lo) /\ (i_phase i = TERMINATED -> forall r, In r rounds -> r <= 0).

Lemma dec_clear_Full i : Full i -> dec_clear i.
Proof. intros (HI & _ & _ & _ & He) Hp. destruct HI as (_ & _ & H3). exact (H3 Hp He). Qed.

Lemma receive_all_inv ms : forall i rounds lo, 0 <= lo -> LoopInv i rounds lo ->
  Forall (fun p => wfmb (fst p) = true) ms -> rounds_sorted lo ms ->
  exists lo', LoopInv (fst (receive_all c i ms rounds)) (snd (receive_all c i ms rounds)) lo'.
Proof.
  induction ms as [|[m sway] rest IH]; intros i rounds lo Hlo HL Hw Hs; cbn [receive_all]; [exists lo; exact HL|].
  inversion Hw as [|? ? Hwm Hwr]; subst. cbn [fst] in Hwm. destruct Hs as (Hle & Hs).
  destruct HL as (HF & Hr & Ht).
  pose proof (Full_receive_one i m sway HF Hwm) as HF1.
  destruct (receive_one c i m sway) as [i1 changed] eqn:Ero. cbn [fst] in HF1.
  assert (E1 : i_err i1 = None) by apply HF1. rewrite E1.
  apply (IH i1 _ (m_round m)); [lia| |exact Hwr|exact Hs].
  split; [exact HF1|]. split.
  - intros r Hin. destruct (changed && negb (existsb (Z.eqb (m_round m)) rounds)); [destruct Hin as [<-|Hin]; [lia|specialize (Hr r Hin); lia]|specialize (Hr r Hin); lia].
  - intros Hterm r Hin.
    destruct (phase_eqb (i_phase i) TERMINATED) eqn:Eti.
    + (* already terminated: the message was ignored *)
      apply phase_eqb_true in Eti. unfold receive_one in Ero. replace (phase_eqb (i_phase i) TERMINATED) with true in Ero by (symmetry; apply phase_eqb_true; exact Eti).
      inversion Ero; subst i1 changed. cbn [andb] in Hin. exact (Ht Eti r Hin).
    + apply phase_eqb_false in Eti.
      destruct (phase_eqb (m_phase m) DECIDE) eqn:Hmd.
      * apply phase_eqb_true in Hmd. pose proof (wfmb_decide_round m Hwm Hmd) as Hr0.
        destruct (changed && negb (existsb (Z.eqb (m_round m)) rounds)); [destruct Hin as [<-|Hin]; [lia|specialize (Hr r Hin); lia]|specialize (Hr r Hin); lia].
      * apply phase_eqb_false in Hmd. exfalso.
        pose proof (nt_receive_one c i m sway Hmd (dec_clear_Full i HF) Eti) as Hnt. rewrite Ero in Hnt. cbn [fst] in Hnt. exact (Hnt Hterm).
Qed.

Lemma insert_desc_In x l y : In y (insert_desc x l) -> y = x \/ In y l.
Proof.
  induction l as [|z r IH]; cbn; [intros [<-|[]]; left; reflexivity|].
  destruct (z <? x); cbn; [intros [<-|H]; [left; reflexivity|right; exact H]|].
  intros [<-|H]; [right; left; reflexivity|destruct (IH H) as [->|H']; [left; reflexivity|right; right; exact H']].
Qed.
Lemma sort_desc_In l y : In y (fold_right insert_desc [] l) -> In y l.
Proof. induction l as [|x r IH]; cbn; [intros []|]. intros H. destruct (insert_desc_In _ _ _ H) as [->|H']; [left; reflexivity|right; exact (IH H')]. Qed.

Theorem Full_receive_many i ms : Full i -> queue_ok ms -> Full (receive_many c i ms).
Proof.
  intros HF (Hw & Hs). unfold receive_many. destruct (phase_eqb (i_phase i) TERMINATED); [exact HF|].
  destruct (receive_all_inv ms i [] 0 (Z.le_refl 0) (conj HF (conj (fun r (H : In r []) => match H with end) (fun _ r (H : In r []) => match H with end))) Hw Hs)
    as (lo' & HF1 & Hr & Ht).
  destruct (receive_all c i ms []) as [i1 rounds]. cbn [fst snd] in *.
  assert (E1 : i_err i1 = None) by apply HF1. rewrite E1.
  destruct (phase_eqb (i_phase i1) TERMINATED) eqn:Et.
  - apply phase_eqb_true in Et. rewrite post_receive_first_noop; [exact HF1|exact E1|].
    intros r Hin. apply sort_desc_In in Hin. specialize (Ht Et r Hin). destruct HF1 as ((H0 & _) & _). lia.
  - apply phase_eqb_false in Et. apply Full_post_receive_first; assumption.
Qed.

Lemma rounds_sortedb_sound ms : forall lo, rounds_sortedb lo ms = true -> rounds_sorted lo ms.
Proof.
  induction ms as [|[m s] rest IH]; intros lo H; cbn in *; [exact I|].
  apply andb_true_iff in H. destruct H as [H1 H2]. split; [apply Z.leb_le; exact H1|apply IH; exact H2].
Qed.
(* what the trace checker evaluates on every queue the real participant drained *)
Lemma queue_okb_sound ms : forallb (fun p => wfmb (fst p)) ms = true -> rounds_sortedb 0 ms = true -> queue_ok ms.
Proof. intros H1 H2. split; [apply Forall_forall; intros p Hp; exact (proj1 (forallb_forall _ _) H1 p Hp)|apply rounds_sortedb_sound; exact H2]. Qed.

(* ---------- the statement ---------- *)
Theorem start_with_queue_no_internal_error input now ms : queue_ok ms ->
  let i := start_with_queue c (new_instance input 0) now ms in
  i_err i = None /\ Inv i /\ PI i /\ AllQ c i /\ JI i.
Proof.
  intros Hq i. assert (HF : Full i).
  { unfold i, start_with_queue. apply Full_receive_many; [|exact Hq]. exact (Full_start c Hwf input now). }
  destruct HF as (A & B & C & D & E). split; [exact E|split; [exact A|split; [exact B|split; [exact C|exact D]]]].
Qed.
End Many.
