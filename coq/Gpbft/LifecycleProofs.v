(* Life cycle of instances inside a participant: between two calls of StartInstanceAt by the host, every instance is
   EXECUTED AT MOST ONCE and its decision is handed over at most once; the instance number never decreases; and after a
   failed hand-over of a decision nothing runs until the host starts an instance again.  With one execution per instance,
   "at most one message per (round, step)" of the instance model (C07) becomes "at most one message per (instance, round,
   step)" of the participant -- what C01's one-vote-per-slot hypothesis about honest participants needs. *)
From Coq Require Import ZArith List Bool Lia.
From F3 Require Import Lifecycle.
Import ListNotations.
Open Scope Z_scope.

Definition is_start (e : lev) : bool := match e with LStartAt _ => true | _ => false end.

(* everything begun or reported lies at or below the current instance; an instance that is running or still to be begun
   has not been begun / reported before *)
Definition LInv (s : lstate) : Prop :=
  NoDup (l_execs s) /\ NoDup (l_reported s) /\
  (forall i, In i (l_execs s) -> i <= l_id s) /\ (forall i, In i (l_reported s) -> In i (l_execs s)) /\
  (l_running s = true -> In (l_id s) (l_execs s) /\ ~ In (l_id s) (l_reported s)) /\
  (l_running s = false -> l_alarm s = true -> ~ In (l_id s) (l_execs s)).

Lemma LInv0 : LInv l0.
Proof. repeat split; try constructor; cbn; intros; try contradiction; try discriminate. Qed.

Ltac linv_split := split; [|split; [|split; [|split; [|split]]]].
Lemma handle_inv s t r a : LInv s -> l_running s = true -> LInv (handle s t r a).
Proof.
  intros (N1 & N2 & B & R & Hr & Hn) Hrun. destruct (Hr Hrun) as (He & Hnr). unfold handle.
  destruct t; [destruct a|]; linv_split; cbn.
  - exact N1.
  - constructor; assumption.
  - intros i Hi. specialize (B i Hi). lia.
  - intros i [<-|Hi]; [exact He|exact (R i Hi)].
  - intros X; discriminate X.
  - intros _ _ Hin. specialize (B _ Hin). lia.
  - exact N1.
  - constructor; assumption.
  - exact B.
  - intros i [<-|Hi]; [exact He|exact (R i Hi)].
  - intros X; discriminate X.
  - intros _ X; discriminate X.
  - exact N1.
  - exact N2.
  - exact B.
  - exact R.
  - intros _. split; assumption.
  - intros X; discriminate X.
Qed.

(* between starts: an event that is not StartInstanceAt keeps the invariant *)
Theorem lstep_inv s e : LInv s -> is_start e = false -> LInv (lstep s e).
Proof.
  intros HI Hs. destruct e as [inst|b t r a|inst t r a]; [discriminate Hs| |]; cbn [lstep].
  - destruct (l_alarm s) eqn:Ea; cbn [negb]; [|exact HI].
    destruct HI as (N1 & N2 & B & R & Hr & Hn).
    destruct (l_running s) eqn:Erun.
    + apply handle_inv; [|reflexivity]. linv_split; cbn; try assumption. intros X; discriminate X.
    + destruct b.
      * specialize (Hn eq_refl Ea). apply handle_inv; [|reflexivity]. linv_split; cbn.
        -- constructor; assumption.
        -- exact N2.
        -- intros i [<-|Hi]; [lia|exact (B i Hi)].
        -- intros i Hi. right. exact (R i Hi).
        -- intros _. split; [left; reflexivity|]. intros Hin. apply Hn. exact (R _ Hin).
        -- intros X; discriminate X.
      * linv_split; cbn; try assumption. intros _ X; discriminate X.
  - destruct (inst <? l_id s); [exact HI|]. destruct (l_running s && (inst =? l_id s)) eqn:E; [|exact HI].
    apply andb_true_iff in E. destruct E as [E _]. apply handle_inv; assumption.
Qed.

Lemma lstep_id_mono s e : is_start e = false -> l_id s <= l_id (lstep s e).
Proof.
  intros Hs. destruct e as [inst|b t r a|inst t r a]; [discriminate Hs| |]; cbn [lstep].
  - destruct (negb (l_alarm s)); [lia|]. destruct (l_running s); [|destruct b]; unfold handle;
      repeat match goal with |- context [if ?x then _ else _] => destruct x end; cbn; lia.
  - destruct (inst <? l_id s); [lia|]. destruct (l_running s && (inst =? l_id s)); [|lia]. unfold handle;
      repeat match goal with |- context [if ?x then _ else _] => destruct x end; cbn; lia.
Qed.

Fixpoint no_start (evs : list lev) : bool := match evs with [] => true | e :: r => negb (is_start e) && no_start r end.

Theorem run_inv evs : forall s, LInv s -> no_start evs = true -> LInv (lrun s evs).
Proof.
  induction evs as [|e evs IH]; intros s H Hn; cbn [lrun fold_left]; [exact H|].
  cbn in Hn. apply andb_true_iff in Hn. destruct Hn as [H1 H2]. apply negb_true_iff in H1.
  apply IH; [apply lstep_inv; assumption|exact H2].
Qed.

(* ---------- the statements ---------- *)
(* StartInstanceAt(i) on a participant that has never run i or anything later (the host starts instances in increasing
   order: F3 resumes from the certificate store) establishes the invariant; from then on, whatever happens: *)
Definition fresh_start (s : lstate) (i : Z) : Prop :=
  NoDup (l_execs s) /\ NoDup (l_reported s) /\ (forall j, In j (l_execs s) -> j < i) /\ (forall j, In j (l_reported s) -> In j (l_execs s)).
Lemma start_inv s i : fresh_start s i -> LInv (lstep s (LStartAt i)).
Proof.
  intros (N1 & N2 & B & R). cbn. linv_split; cbn; try assumption.
  - intros j Hj. specialize (B j Hj). lia.
  - intros X; discriminate X.
  - intros _ _ Hin. specialize (B _ Hin). lia.
Qed.

Theorem one_execution_per_instance s i evs :
  fresh_start s i -> no_start evs = true ->
  let f := lrun (lstep s (LStartAt i)) evs in NoDup (l_execs f) /\ NoDup (l_reported f).
Proof.
  intros Hf Hn f. destruct (run_inv evs _ (start_inv s i Hf) Hn) as (N1 & N2 & _). split; assumption.
Qed.

Theorem instance_number_monotone evs : forall s, no_start evs = true -> l_id s <= l_id (lrun s evs).
Proof.
  induction evs as [|e evs IH]; intros s Hn; cbn [lrun fold_left]; [lia|].
  cbn in Hn. apply andb_true_iff in Hn. destruct Hn as [H1 H2]. apply negb_true_iff in H1.
  pose proof (lstep_id_mono s e H1). specialize (IH (lstep s e) H2). unfold lrun in IH. lia.
Qed.

(* after a failed hand-over (no instance, no alarm) nothing runs and nothing is reported until the host starts again *)
Definition idle (s : lstate) : Prop := l_running s = false /\ l_alarm s = false.
Lemma idle_step s e : idle s -> is_start e = false -> lstep s e = s.
Proof.
  intros (Hr & Ha) Hs. destruct e as [inst|b t r a|inst t r a]; [discriminate Hs| |]; cbn [lstep].
  - rewrite Ha. reflexivity.
  - rewrite Hr. cbn [andb]. destruct (inst <? l_id s); reflexivity.
Qed.
Theorem idle_until_started evs : forall s, idle s -> no_start evs = true -> lrun s evs = s.
Proof.
  induction evs as [|e evs IH]; intros s Hi Hn; cbn [lrun fold_left]; [reflexivity|].
  cbn in Hn. apply andb_true_iff in Hn. destruct Hn as [H1 H2]. apply negb_true_iff in H1.
  rewrite (idle_step s e Hi H1). apply IH; assumption.
Qed.
Theorem failed_handover_is_idle s (r : bool) : l_running s = true ->
  idle (handle s true r false) /\ l_id (handle s true r false) = l_id s.
Proof. intros _. unfold handle, idle. cbn. repeat split. Qed.

(* non-vacuity: instance 3 decides and is accepted, instance 4 decides but the host fails to accept it, alarms and late
   messages for 4 keep coming: 4 is not run again *)
Example lifecycle_example :
  let f := lrun l0 [LStartAt 3; LAlarm true false true true; LDeliver 3 true false true; LAlarm true false true true;
                    LDeliver 4 true false false; LAlarm true false true true; LDeliver 4 true true true; LAlarm true true true true] in
  l_execs f = [4; 3] /\ l_reported f = [4; 3] /\ l_id f = 4 /\ l_running f = false /\ l_alarm f = false.
Proof. repeat split. Qed.
