(* The happy path, step by step, on the instance model (C02 second sentence / C06): whenever the votes a participant has
   received contain a strong quorum for the value it is working on, the participant takes the next protocol step FOR THAT
   VALUE at once -- no timeout is needed:
     QUALITY quorum for its input      => PREPARE input
     PREPARE quorum for its proposal   => COMMIT proposal, justified by that quorum
     COMMIT quorum for a value         => DECIDE that value, justified by that quorum
     DECIDE quorum for a value         => the decision is reported with that value and a strong quorum of signers.
   Together with the delivery assumption of synchrony (every vote of every honest participant reaches every participant
   before its timeout) this is the round-0 happy path; the composition over the network under timing assumptions is not
   proved (monitored on timely runs of real participants). *)
From Coq Require Import ZArith List Bool Lia.
From F3 Require Import GoInt QuorumGen QuorumProofs Instance InstanceRun InstanceOrder InstanceVotes InstanceDecide InstanceQuorum.
Import ListNotations.
Open Scope Z_scope.

Section Cfg.
Variable c : config.
Hypothesis Htotal : 0 < c_total c < two62.
Hypothesis Hpow : forall s, 0 <= power_of c s.
Hypothesis Hsum : forall l, NoDup l -> sum_power c l <= c_total c.

Lemma longest_prefix_full q v : v <> [] -> q_has_sq q v = true -> q_longest_prefix q v = v.
Proof.
  intros Hne Hsq. destruct (q_longest_prefix_spec q v) as (Hp & _ & Hmax & Hl). cbv zeta in *. specialize (Hl Hne).
  set (p := q_longest_prefix q v) in *. destruct Hp as (t & Ht).
  assert (Hlen : length v = (length p + length t)%nat) by (rewrite Ht at 1; apply app_length).
  destruct t as [|x t]; [rewrite app_nil_r in Ht; symmetry; exact Ht|exfalso].
  cbn in Hlen. assert (Hpv : InstanceVotes.is_prefix v v) by (exists []; symmetry; apply app_nil_r).
  rewrite (Hmax v Hpv ltac:(lia) ltac:(lia)) in Hsq. discriminate Hsq.
Qed.

Theorem happy_quality i : i_input i <> [] -> i_proposal i = i_input i -> q_has_sq (i_quality i) (i_input i) = true ->
  exists rest, i_out (try_quality c i) = OBroadcast (i_round i) PREPARE (i_input i) None false :: rest /\
               i_proposal (try_quality c i) = i_input i /\ i_phase (try_quality c i) = PREPARE.
Proof.
  intros Hne Hp Hsq. pose proof (try_quality_spec c i) as S. cbv zeta in S. rewrite Hp, Hsq in S. cbn [orb] in S.
  rewrite (longest_prefix_full _ _ Hne Hsq) in S. destruct S as (A & B & _ & D & _).
  eexists. split; [exact A|split; assumption].
Qed.

Theorem happy_prepare i : QS c (r_prep (get_round i (i_round i))) -> i_proposal i <> [] ->
  q_has_sq (r_prep (get_round i (i_round i))) (i_proposal i) = true ->
  exists sg rest, i_out (try_prepare c i) =
                    OBroadcast (i_round i) COMMIT (i_proposal i) (Some (build_just (i_round i) PREPARE (i_proposal i) sg)) false :: rest /\
                  i_phase (try_prepare c i) = COMMIT.
Proof.
  intros HQ Hne Hsq. unfold try_prepare. cbv zeta. rewrite Hsq. cbn [orb]. cbv iota.
  unfold begin_commit. cbv zeta. cbn [set_pv i_value i_round set_progress alarm_after reset_rebroadcast emit set_timers].
  destruct (i_proposal i) as [|x v] eqn:Ep; [congruence|].
  change (get_round (reset_rebroadcast (alarm_after c (set_progress (set_pv i (x :: v) (x :: v)) (i_round i) COMMIT) false)) (i_round i))
    with (get_round i (i_round i)).
  unfold q_has_sq in Hsq. destruct (sup_find (q_support (r_prep (get_round i (i_round i)))) (x :: v)) as [s|] eqn:Ef; [|discriminate Hsq].
  assert (Hy : exists sg, q_find_sq_for c (r_prep (get_round i (i_round i))) (x :: v) = FsqSome sg) by (eapply find_sq_for_some; eassumption).
  destruct Hy as (sg & ->).
  exists sg. eexists. split; reflexivity.
Qed.

Theorem happy_commit i round sway x v : QS c (r_comm (get_round i round)) ->
  q_find_sq_value (r_comm (get_round i round)) = FsvSome (x :: v) ->
  exists sg rest, i_out (try_commit c i round sway) =
                    OBroadcast 0 DECIDE (x :: v) (Some (build_just round COMMIT (x :: v) sg)) false :: rest /\
                  i_phase (try_commit c i round sway) = DECIDE.
Proof.
  intros HQ Hv. unfold try_commit. rewrite Hv.
  assert (Hx : exists s, sup_find (q_support (r_comm (get_round i round))) (x :: v) = Some s /\ s_sq s = true) by (eapply find_sq_value_support; eassumption).
  destruct Hx as (s & Ef & Es).
  unfold begin_decide. cbv zeta. cbn [set_pv i_value i_round set_progress reset_rebroadcast set_timers].
  change (get_round (reset_rebroadcast (set_progress (set_pv i (i_proposal i) (x :: v)) (i_round i) DECIDE)) round) with (get_round i round).
  assert (Hy : exists sg, q_find_sq_for c (r_comm (get_round i round)) (x :: v) = FsqSome sg) by (eapply find_sq_for_some; eassumption).
  destruct Hy as (sg & ->).
  exists sg. eexists. split; reflexivity.
Qed.

Theorem happy_decide i v : QS c (i_decision i) -> q_find_sq_value (i_decision i) = FsvSome v ->
  exists sg, i_term (try_decide c i) = Some (build_just 0 DECIDE v sg) /\ i_phase (try_decide c i) = TERMINATED.
Proof.
  intros HQ Hv. unfold try_decide. rewrite Hv.
  assert (Hx : exists s, sup_find (q_support (i_decision i)) v = Some s /\ s_sq s = true) by (eapply find_sq_value_support; eassumption).
  destruct Hx as (s & Ef & Es).
  assert (Hy : exists sg, q_find_sq_for c (i_decision i) v = FsqSome sg) by (eapply find_sq_for_some; eassumption).
  destruct Hy as (sg & ->).
  exists sg. split; reflexivity.
Qed.

End Cfg.
