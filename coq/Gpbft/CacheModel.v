(* internal/caching: Set (two generations, "flip" and "flop") and GroupedSet (one Set per group = instance, least recently
   used group evicted, evicted Sets cleared and pooled) -- the cache behind the validator's "already validated" shortcut
   (gpbft/validator.go, C05/C13).  Keys stand for the blake2b digest of (namespace, value); distinct inputs are given
   distinct keys by the harness (a digest collision is outside the model).  No proofs here (CacheModelProofs.v). *)
From Coq Require Import ZArith List Bool.
Import ListNotations.
Open Scope Z_scope.

Definition memZ (x : Z) (l : list Z) : bool := existsb (Z.eqb x) l.

Record cset := mkSet { cs_flip : list Z; cs_flop : list Z }.
Definition cs_empty : cset := mkSet [] [].
Definition cs_contains (s : cset) (k : Z) : bool := memZ k (cs_flip s) || memZ k (cs_flop s).
(* ContainsOrAdd: (new set, was already contained) *)
Definition cs_contains_or_add (maxsz : nat) (s : cset) (k : Z) : cset * bool :=
  if cs_contains s k then (s, true)
  else
    let flip := k :: cs_flip s in
    if (Nat.max 1 maxsz <=? length flip)%nat then (mkSet [] flip, false)   (* clear(flop); swap *)
    else (mkSet flip (cs_flop s), false).

(* groups in recency order: most recently used first *)
Record gset := mkG { g_groups : list (Z * cset) }.
Definition g_empty : gset := mkG [].
Fixpoint g_find (l : list (Z * cset)) (g : Z) : option cset :=
  match l with [] => None | (h, s) :: r => if h =? g then Some s else g_find r g end.
Fixpoint g_remove (l : list (Z * cset)) (g : Z) : list (Z * cset) :=
  match l with [] => [] | (h, s) :: r => if h =? g then r else (h, s) :: g_remove r g end.
Fixpoint g_update (l : list (Z * cset)) (g : Z) (s' : cset) : list (Z * cset) :=
  match l with [] => [] | (h, s) :: r => if h =? g then (h, s') :: r else (h, s) :: g_update r g s' end.

(* Contains: moves the group to the front *)
Definition g_contains (c : gset) (g k : Z) : gset * bool :=
  match g_find (g_groups c) g with
  | Some s => (mkG ((g, s) :: g_remove (g_groups c) g), cs_contains s k)
  | None => (c, false)
  end.
(* Add: creates the group (evicting the least recently used one when full); an existing group keeps its place.
   Returns whether the value was newly added. *)
Definition g_add (max_groups maxsz : nat) (c : gset) (g k : Z) : gset * bool :=
  match g_find (g_groups c) g with
  | Some s => let '(s', had) := cs_contains_or_add maxsz s k in (mkG (g_update (g_groups c) g s'), negb had)
  | None =>
      let l := if (max_groups <=? length (g_groups c))%nat then removelast (g_groups c) else g_groups c in
      let '(s', had) := cs_contains_or_add maxsz cs_empty k in (mkG ((g, s') :: l), negb had)
  end.
(* RemoveGroupsLessThan *)
Definition g_remove_lt (c : gset) (b : Z) : gset * bool :=
  (mkG (filter (fun e => negb (fst e <? b)) (g_groups c)), existsb (fun e => fst e <? b) (g_groups c)).

Inductive cop := CAdd (g k : Z) | CContains (g k : Z) | CRemoveLt (b : Z).
Definition cstep (mg ms : nat) (c : gset) (o : cop) : gset * bool :=
  match o with CAdd g k => g_add mg ms c g k | CContains g k => g_contains c g k | CRemoveLt b => g_remove_lt c b end.
(* correspondence: every boolean the real GroupedSet returned *)
Fixpoint crun_ok (mg ms : nat) (c : gset) (ops : list (cop * bool)) : bool :=
  match ops with
  | [] => true
  | (o, exp) :: rest => let '(c', r) := cstep mg ms c o in Bool.eqb r exp && crun_ok mg ms c' rest
  end.
