(* Layer S: the GossiPBFT protocol over the monotone set of votes (DESIGN.md, C01/C02).
   Definitions only: Prop-level guards, their executable counterparts (used by the conformance monitor on
   traces of real nodes), the transition system. *)
From Coq Require Import ZArith List Bool Arith.
Import ListNotations.
Open Scope Z_scope.

Inductive phase := QUALITY | CONVERGE | PREPARE | COMMIT | DECIDE.
Definition phase_eqb (a b : phase) : bool :=
  match a, b with QUALITY, QUALITY | CONVERGE, CONVERGE | PREPARE, PREPARE | COMMIT, COMMIT | DECIDE, DECIDE => true | _, _ => false end.

Definition chain := list Z.                 (* tipset tokens, base first; [] never occurs as a non-bottom value *)
Definition val := option chain.             (* None = bottom *)
Record vote := V { sender : nat; round : nat; ph : phase; vl : val }.

Fixpoint chain_eqb (a b : chain) : bool :=
  match a, b with [], [] => true | x :: a', y :: b' => (x =? y) && chain_eqb a' b' | _, _ => false end.
Definition val_eqb (a b : val) : bool :=
  match a, b with None, None => true | Some x, Some y => chain_eqb x y | _, _ => false end.
Definition vote_eqb (a b : vote) : bool :=
  Nat.eqb (sender a) (sender b) && Nat.eqb (round a) (round b) && phase_eqb (ph a) (ph b) && val_eqb (vl a) (vl b).

(* v is a non-empty prefix of w *)
Definition is_prefix (v w : chain) : Prop := v <> [] /\ exists rest, w = v ++ rest.
Fixpoint prefixb (v w : chain) : bool :=
  match v, w with
  | [], _ => true
  | x :: v', y :: w' => (x =? y) && prefixb v' w'
  | _ :: _, [] => false
  end.
Definition is_prefixb (v w : chain) : bool := match v with [] => false | _ => prefixb v w end.

Section Spec.
  Variable power : nat -> Z.
  Variable committee : list nat.
  Variable honest : nat -> bool.
  Variable input : nat -> chain.           (* input chain of every (honest) participant *)

  Fixpoint psum (l : list nat) : Z := match l with [] => 0 | x :: t => power x + psum t end.
  Definition total : Z := psum committee.
  Definition byz_power : Z := psum (filter (fun n => negb (honest n)) committee).
  Definition strong (S : list nat) : Prop := NoDup S /\ incl S committee /\ 3 * psum S >= 2 * total.

  (* evidence: a justification that could verify — a strong quorum whose HONEST members really cast the vote *)
  Definition SQ (vs : list vote) (r : nat) (p : phase) (x : val) : Prop :=
    exists S, strong S /\ forall s, In s S -> honest s = true -> In (V s r p x) vs.

  Definition justified (vs : list vote) (r : nat) (x : val) : Prop :=
    r = 0%nat \/ exists r0, r = S r0 /\ (SQ vs r0 PREPARE x \/ SQ vs r0 COMMIT None).

  (* guard of an honest vote, evaluated on the votes cast so far *)
  Definition guard (vs : list vote) (v : vote) : Prop :=
    match ph v, vl v with
    | QUALITY, Some w => round v = 0%nat /\ w = input (sender v)
    | QUALITY, None => False
    | CONVERGE, Some w => exists r0, round v = S r0 /\ (SQ vs r0 PREPARE (Some w) \/ SQ vs r0 COMMIT None)
    | CONVERGE, None => False
    | PREPARE, Some w =>
        match round v with
        | O => is_prefix w (input (sender v))
        | S r0 => SQ vs r0 PREPARE (Some w) \/
                  (SQ vs r0 COMMIT None /\ (is_prefix w (input (sender v)) \/ exists r1, (r1 <= r0)%nat /\ SQ vs r1 PREPARE (Some w)))
        end
    | PREPARE, None => False
    | COMMIT, Some w => In (V (sender v) (round v) PREPARE (Some w)) vs /\ SQ vs (round v) PREPARE (Some w)
    | COMMIT, None => exists w, In (V (sender v) (round v) PREPARE (Some w)) vs /\
          exists t x, x <> Some w /\ In (V t (round v) PREPARE x) vs /\ justified vs (round v) x
    | DECIDE, Some w => round v = 0%nat /\ exists r, SQ vs r COMMIT (Some w)
    | DECIDE, None => False
    end.

  Definition Inv (vs : list vote) : Prop :=
    (forall v, In v vs -> honest (sender v) = true -> guard vs v) /\
    (forall s r p x y, honest s = true -> In (V s r p x) vs -> In (V s r p y) vs -> x = y).

  (* transition system: one vote at a time; honest senders obey their guard and vote once per slot *)
  Inductive step (vs : list vote) : vote -> Prop :=
  | step_honest v : honest (sender v) = true -> guard vs v ->
      (forall y, ~ In (V (sender v) (round v) (ph v) y) vs) -> step vs v
  | step_byz v : honest (sender v) = false -> step vs v.
  Inductive reachable : list vote -> Prop :=
  | reach_nil : reachable []
  | reach_step vs v : reachable vs -> step vs v -> reachable (v :: vs).

  (* a participant reports v as decided once it holds a strong quorum of DECIDE v *)
  Definition decides (vs : list vote) (v : chain) : Prop := SQ vs 0 DECIDE (Some v).

  (* ---------- executable counterparts (sound, used by the trace monitor) ---------- *)
  Definition has_vote (vs : list vote) (v : vote) : bool := existsb (vote_eqb v) vs.
  Definition supporters (vs : list vote) (r : nat) (p : phase) (x : val) : list nat :=
    filter (fun s => negb (honest s) || has_vote vs (V s r p x)) committee.
  Definition sqb (vs : list vote) (r : nat) (p : phase) (x : val) : bool :=
    3 * psum (supporters vs r p x) >=? 2 * total.
  Definition justifiedb (vs : list vote) (r : nat) (x : val) : bool :=
    match r with O => true | S r0 => sqb vs r0 PREPARE x || sqb vs r0 COMMIT None end.
  Fixpoint exists_upto (f : nat -> bool) (n : nat) : bool :=
    match n with O => f O | S k => f (S k) || exists_upto f k end.
  Definition guardb (vs : list vote) (v : vote) : bool :=
    match ph v, vl v with
    | QUALITY, Some w => Nat.eqb (round v) 0 && chain_eqb w (input (sender v))
    | CONVERGE, Some w => match round v with O => false | S r0 => sqb vs r0 PREPARE (Some w) || sqb vs r0 COMMIT None end
    | PREPARE, Some w =>
        match round v with
        | O => is_prefixb w (input (sender v))
        | S r0 => sqb vs r0 PREPARE (Some w) ||
                  (sqb vs r0 COMMIT None && (is_prefixb w (input (sender v)) || exists_upto (fun r1 => sqb vs r1 PREPARE (Some w)) r0))
        end
    | COMMIT, Some w => has_vote vs (V (sender v) (round v) PREPARE (Some w)) && sqb vs (round v) PREPARE (Some w)
    | COMMIT, None =>
        (* `if .. then .. else false` instead of `&&`: under vm_compute (call by value) the expensive right operand is then
           evaluated only for the few votes that pass the cheap tests *)
        existsb (fun pv => if Nat.eqb (sender pv) (sender v) && Nat.eqb (round pv) (round v) && phase_eqb (ph pv) PREPARE then
                   match vl pv with
                   | Some w => existsb (fun ov => if Nat.eqb (round ov) (round v) && phase_eqb (ph ov) PREPARE &&
                                                     negb (val_eqb (vl ov) (Some w)) then justifiedb vs (round v) (vl ov) else false) vs
                   | None => false
                   end else false) vs
    | DECIDE, Some w => Nat.eqb (round v) 0 && existsb (fun cv => if phase_eqb (ph cv) COMMIT && val_eqb (vl cv) (Some w) then sqb vs (round cv) COMMIT (Some w) else false) vs
    | _, None => false
    end.

  (* conformance of a whole trace (oldest vote first): every honest vote satisfied its guard on the votes
     cast before it and is the only vote of its sender in its slot *)
  Fixpoint conforms (past : list vote) (future : list vote) : bool :=
    match future with
    | [] => true
    | v :: rest =>
        (if honest (sender v)
         then guardb past v && negb (existsb (fun o => Nat.eqb (sender o) (sender v) && Nat.eqb (round o) (round v) && phase_eqb (ph o) (ph v)) past)
         else true) && conforms (v :: past) rest
    end.
End Spec.
