(* Refinement, executable side: a boolean checker for the admissibility of a network schedule (sound w.r.t. RefineNet.all_ok),
   and a scheduler that lets the model instances talk to each other.  Used for non-vacuity (a concrete network run that
   satisfies the hypotheses of the network theorems and ends in decisions) and by the harness to replay real multi-node
   executions as Layer-N network schedules. *)
From Coq Require Import ZArith List Bool Lia.
From F3 Require Import GoInt QuorumGen QuorumProofs Instance InstanceRun InstanceOrder InstanceVotes InstanceDecide InstanceNoPanic Refine RefineNode RefineNet.
From F3 Require Spec SpecProofs.
Import ListNotations.
Open Scope Z_scope.

Section Run.
Variable c : config.
Variable honest : nat -> bool.
Variable input : nat -> chain.

Definition sqzb (E : list Spec.vote) (r : Z) (p : phase) (v : chain) : bool :=
  Spec.sqb (power c) (committee c) honest E (Z.to_nat r) (phS p) (valS v).
Definition backedb (E : list Spec.vote) (j : just) : bool := (0 <=? j_round j) && sqzb E (j_round j) (j_phase j) (j_value j).
Definition jprevb (E : list Spec.vote) (r : Z) (v : chain) (j : just) : bool :=
  backedb E j && (j_round j =? r - 1) &&
  ((phase_eqb (j_phase j) PREPARE && chain_eqb (j_value j) v) || (phase_eqb (j_phase j) COMMIT && is_zero (j_value j))).
Definition jsameb (E : list Spec.vote) (r : Z) (v : chain) (j : just) : bool :=
  backedb E j && (j_round j =? r) && phase_eqb (j_phase j) PREPARE && chain_eqb (j_value j) v.
Definition admb (E : list Spec.vote) (m : msg) : bool :=
  (0 <=? m_sender m) && (m_sender m <? Z.of_nat (nmem c)) && (0 <=? m_round m) &&
  Spec.has_vote E (voteS (m_sender m) (m_round m) (m_phase m) (m_value m)) &&
  match m_phase m with
  | QUALITY => (m_round m =? 0) && negb (is_zero (m_value m))
  | CONVERGE => (1 <=? m_round m) && negb (is_zero (m_value m)) && match m_just m with Some j => jprevb E (m_round m) (m_value m) j | None => false end
  | PREPARE => match m_just m with
               | None => m_round m =? 0
               | Some j => (1 <=? m_round m) && jprevb E (m_round m) (m_value m) j
               end
  | COMMIT => match m_just m with
              | None => is_zero (m_value m)
              | Some j => negb (is_zero (m_value m)) && jsameb E (m_round m) (m_value m) j
              end
  | DECIDE => (m_round m =? 0) && negb (is_zero (m_value m)) &&
              match m_just m with Some j => backedb E j && phase_eqb (j_phase j) COMMIT && chain_eqb (j_value j) (m_value m) | None => false end
  | _ => false
  end.
Definition memberb (k : Z) : bool := (0 <=? k) && (k <? Z.of_nat (nmem c)) && honest (Z.to_nat k).
Definition startedb (i : inst) : bool := negb (phase_eqb (i_phase i) INITIAL).
Definition aokb (n : net) (a : action) : bool :=
  match a with
  | AStart k _ => memberb k && negb (startedb (n_inst n k))
  | ADeliver k _ m _ => memberb k && startedb (n_inst n k) && admb (n_votes n) m
  | AAlarm k _ _ => memberb k && startedb (n_inst n k)
  | AByz v => negb (honest (Spec.sender v))
  end.
Fixpoint all_okb (n : net) (acts : list action) : bool :=
  match acts with [] => true | a :: rest => aokb n a && all_okb (nstep c n a) rest end.

(* ---------- soundness ---------- *)
Hypothesis Hwf : committee_wf c.

Lemma is_zero_false v : negb (is_zero v) = true -> v <> [].
Proof. destruct v; [discriminate|discriminate]. Qed.
Lemma sqzb_sound E r p v : sqzb E r p v = true -> SQz c honest E r p v.
Proof. unfold sqzb, Refine.SQz. intros H. eapply SpecProofs.sqb_sound; [apply seq_NoDup|exact input|exact H]. Qed.
Lemma backedb_sound E j : backedb E j = true -> backed c honest E j.
Proof. unfold backedb. intros H. apply andb_prop in H. destruct H as [H1 H2]. split; [apply Z.leb_le; exact H1|apply sqzb_sound; exact H2]. Qed.
Lemma jprevb_sound E r v j : jprevb E r v j = true -> jprev c honest E r v j.
Proof.
  unfold jprevb. intros H. apply andb_prop in H. destruct H as [H H3]. apply andb_prop in H. destruct H as [H1 H2].
  split; [apply backedb_sound; exact H1|]. split; [apply Z.eqb_eq; exact H2|].
  apply orb_prop in H3. destruct H3 as [H3|H3]; apply andb_prop in H3; destruct H3 as [A B]; apply phase_eqb_true in A.
  - left. split; [exact A|apply chain_eqb_eq; exact B].
  - right. split; [exact A|destruct (j_value j); [reflexivity|discriminate B]].
Qed.
Lemma jsameb_sound E r v j : jsameb E r v j = true -> jsame c honest E r v j.
Proof.
  unfold jsameb. intros H. apply andb_prop in H. destruct H as [H H4]. apply andb_prop in H. destruct H as [H H3]. apply andb_prop in H. destruct H as [H1 H2].
  split; [apply backedb_sound; exact H1|]. split; [apply Z.eqb_eq; exact H2|]. split; [apply phase_eqb_true; exact H3|apply chain_eqb_eq; exact H4].
Qed.

Lemma admb_sound E m : admb E m = true -> adm c honest E m.
Proof.
  unfold admb, adm. intros H. apply andb_prop in H. destruct H as [H Hsh]. apply andb_prop in H. destruct H as [H Hv].
  apply andb_prop in H. destruct H as [H Hr]. apply andb_prop in H. destruct H as [Hs1 Hs2].
  apply Z.leb_le in Hs1, Hr. apply Z.ltb_lt in Hs2. apply SpecProofs.has_vote_in in Hv.
  split; [lia|]. split; [exact Hr|]. split; [exact Hv|].
  destruct (m_phase m); try discriminate Hsh.
  - apply andb_prop in Hsh. destruct Hsh as [A B]. split; [apply Z.eqb_eq; exact A|apply is_zero_false; exact B].
  - apply andb_prop in Hsh. destruct Hsh as [Hsh C]. apply andb_prop in Hsh. destruct Hsh as [A B].
    destruct (m_just m) as [j|]; [|discriminate C]. split; [apply Z.leb_le; exact A|]. split; [apply is_zero_false; exact B|].
    exists j. split; [reflexivity|apply jprevb_sound; exact C].
  - destruct (m_just m) as [j|].
    + apply andb_prop in Hsh. destruct Hsh as [A B]. right. split; [apply Z.leb_le; exact A|]. exists j. split; [reflexivity|apply jprevb_sound; exact B].
    + left. split; [apply Z.eqb_eq; exact Hsh|reflexivity].
  - destruct (m_just m) as [j|].
    + apply andb_prop in Hsh. destruct Hsh as [A B]. right. split; [apply is_zero_false; exact A|]. exists j. split; [reflexivity|apply jsameb_sound; exact B].
    + left. split; [destruct (m_value m); [reflexivity|discriminate Hsh]|reflexivity].
  - apply andb_prop in Hsh. destruct Hsh as [Hsh C]. apply andb_prop in Hsh. destruct Hsh as [A B].
    destruct (m_just m) as [j|]; [|discriminate C]. apply andb_prop in C. destruct C as [C C3]. apply andb_prop in C. destruct C as [C1 C2].
    split; [apply Z.eqb_eq; exact A|]. split; [apply is_zero_false; exact B|]. exists j. split; [reflexivity|].
    split; [apply backedb_sound; exact C1|]. split; [apply phase_eqb_true; exact C2|apply chain_eqb_eq; exact C3].
Qed.

Lemma memberb_sound k : memberb k = true -> member c honest k.
Proof.
  unfold memberb, member. intros H. apply andb_prop in H. destruct H as [H H3]. apply andb_prop in H. destruct H as [H1 H2].
  apply Z.leb_le in H1. apply Z.ltb_lt in H2. split; [lia|exact H3].
Qed.
Lemma startedb_true i : startedb i = true -> i_phase i <> INITIAL.
Proof. unfold startedb. intros H. apply negb_true_iff, phase_eqb_false in H. exact H. Qed.
Lemma startedb_false i : negb (startedb i) = true -> i_phase i = INITIAL.
Proof. unfold startedb. rewrite negb_involutive. apply phase_eqb_true. Qed.

Lemma aokb_sound n a : aokb n a = true -> aok c honest n a.
Proof.
  destruct a as [k now|k now m sway|k now sway|v]; cbn; intros H.
  - apply andb_prop in H. destruct H as [A B]. split; [apply memberb_sound; exact A|apply startedb_false; exact B].
  - apply andb_prop in H. destruct H as [H C]. apply andb_prop in H. destruct H as [A B].
    split; [apply memberb_sound; exact A|]. split; [apply startedb_true; exact B|apply admb_sound; exact C].
  - apply andb_prop in H. destruct H as [A B]. split; [apply memberb_sound; exact A|apply startedb_true; exact B].
  - apply negb_true_iff. exact H.
Qed.
Theorem all_okb_sound acts : forall n, all_okb n acts = true -> all_ok c honest n acts.
Proof.
  induction acts as [|a rest IH]; intros n H; [exact I|]. cbn in H. apply andb_prop in H. destruct H as [A B].
  split; [apply aokb_sound; exact A|apply IH; exact B].
Qed.

(* ---------- a scheduler: every broadcast is delivered to every member, first in first out ---------- *)
Definition out_msgs (k : Z) (outs : list out) : list msg :=   (* oldest first *)
  flat_map (fun o => match o with OBroadcast r p v j _ => [mkM k r p v (k + 1) j] | _ => [] end) (rev outs).
Fixpoint deliver_all (n : net) (now : Z) (m : msg) (ks : list Z) (acc : list action) (queue : list msg) : net * list action * list msg :=
  match ks with
  | [] => (n, acc, queue)
  | k :: rest =>
      let a := ADeliver k now m None in
      let n' := nstep c n a in
      deliver_all n' now m rest (acc ++ [a]) (queue ++ out_msgs k (i_out (n_inst n' k)))
  end.
Fixpoint alarm_all (n : net) (now : Z) (ks : list Z) (acc : list action) (queue : list msg) : net * list action * list msg :=
  match ks with
  | [] => (n, acc, queue)
  | k :: rest =>
      let a := AAlarm k now None in
      let n' := nstep c n a in
      alarm_all n' now rest (acc ++ [a]) (queue ++ out_msgs k (i_out (n_inst n' k)))
  end.
(* when nothing is in flight, time jumps ahead and every member's alarm fires *)
Fixpoint pump (fuel : nat) (n : net) (now : Z) (ks : list Z) (acc : list action) (queue : list msg) : net * list action :=
  match fuel with
  | O => (n, acc)
  | S f => match queue with
           | [] => let '(n', acc', q') := alarm_all n (now + 100000) ks acc [] in pump f n' (now + 100001) ks acc' q'
           | m :: q => let '(n', acc', q') := deliver_all n now m ks acc q in pump f n' (now + 1) ks acc' q'
           end
  end.
Fixpoint start_all (n : net) (ks : list Z) (acc : list action) (queue : list msg) : net * list action * list msg :=
  match ks with
  | [] => (n, acc, queue)
  | k :: rest => let a := AStart k 0 in let n' := nstep c n a in
                 start_all n' rest (acc ++ [a]) (queue ++ out_msgs k (i_out (n_inst n' k)))
  end.
(* `pre`: actions performed first (e.g. Byzantine votes); `extra`: messages put in front of the queue (e.g. Byzantine messages) *)
Definition auto_actions_from (pre : list action) (extra : list msg) (ks : list Z) (fuel : nat) : list action :=
  let '(n, acc, q) := start_all (nrun c (net0 input) pre) ks pre [] in snd (pump fuel n 1 ks acc (extra ++ q)).
Definition auto_actions (ks : list Z) (fuel : nat) : list action := auto_actions_from [] [] ks fuel.

End Run.

(* ---------- network-level correspondence: a real multi-node execution as a schedule of the network model ---------- *)
(* final observation of a member: (index, decided value?, round, phase code) *)
Definition net_final_ok (n : net) (finals : list (Z * option chain * Z * Z)) : bool :=
  forallb (fun f => let '(k, dec, rd, ph) := f in
             let i := n_inst n k in
             match dec, i_term i with
             | Some v, Some j => chain_eqb (j_value j) v
             | None, None => (i_round i =? rd) && (phase_code (i_phase i) =? ph)
             | _, _ => false
             end) finals.
Definition net_trace_ok (c : config) (honest : list bool) (inputs : list chain) (acts : list action) (finals : list (Z * option chain * Z * Z)) : bool :=
  let h := fun n => nth n honest false in
  let inp := fun n => nth n inputs [] in
  cfg_wfb c && (c_total c <=? 65535) &&
  (3 * Spec.byz_power (power c) (committee c) h <? Spec.total (power c) (committee c)) &&
  forallb (fun k => implb (nth k honest false) (negb (is_zero (nth k inputs [])))) (seq 0 (length honest)) &&
  all_okb c h (net0 inp) acts && net_final_ok (nrun c (net0 inp) acts) finals.
