(* The synchrony hypothesis of the happy path as a TIME BOUND (C02 second sentence, C06 timely corner).
   HappyNet / HappyLive assume of every delivery that it "reaches its receiver before the receiver's current phase timer
   expires".  Here that is derived from clock values: let B be the smaller of the QUALITY timeout and the round-0 phase
   timeout.  If every delivery to member k happens at a time t with  S_k <= t < S_k + B  (S_k = the time k started) --
   e.g. because all members start within sigma, every message takes at most delta and sigma + 3 delta < B -- then no phase
   timer of k has expired when a message arrives: every phase timer of round 0 is set to (the time of the event that
   began the phase) + (its timeout) >= S_k + B. *)
From Coq Require Import ZArith List Bool Lia.
From F3 Require Import GoInt QuorumGen QuorumProofs Instance InstanceRun InstanceOrder InstanceVotes InstanceDecide InstanceQuorum InstanceNoPanic InstanceJust
  HappyPath HappyInst HappyStep Refine RefineNode RefineNet HappyNet HappyLive.
From F3 Require Spec.
Import ListNotations.
Open Scope Z_scope.

Section Timed.
Variable c : config.
Variable v : chain.
Hypothesis Hv : (2 <= length v)%nat.
Hypothesis Hcw : committee_wf c.
Hypothesis Hrr : 0 <= c_rebro_round c.

Local Notation shape := (shape c v).
Local Notation strong p := (isStrongQuorum p (c_total c)).
Definition D0 : Z := nthZ (c_timeouts c) 0.
Definition Bnd : Z := Z.min (c_quality_timeout c) D0.

Ltac proj := cbn [i_input i_proposal i_value i_cands i_quality i_rounds i_decision i_round i_phase i_ptimeout i_rtimeout i_rattempts
                  i_term i_now i_out i_err emit fail set_round_state set_pv set_cands set_quality set_decision set_progress set_timers
                  set_term set_now reset_rebroadcast alarm_after broadcast].

(* the clock reading is kept; the phase timer is kept or re-armed at (now + round-0 timeout) *)
Definition PT (i i' : inst) : Prop :=
  i_now i' = i_now i /\ (i_ptimeout i' = i_ptimeout i \/ i_ptimeout i' = i_now i + D0).
Lemma PT_refl i : PT i i. Proof. split; [reflexivity|left; reflexivity]. Qed.
Lemma PT_trans a b d : PT a b -> PT b d -> PT a d.
Proof. intros (A1 & A2) (B1 & B2). split; [congruence|]. destruct B2 as [B2|B2]; [rewrite B2; exact A2|right; rewrite B2, A1; reflexivity]. Qed.

Lemma PT_try_rebroadcast i : PT i (try_rebroadcast c i).
Proof.
  unfold try_rebroadcast. destruct (i_rtimeout i) as [rt|].
  - destruct (rt <=? i_now i); [|apply PT_refl]. unfold do_rebroadcast.
    destruct (i_phase i); proj; repeat match goal with |- context [if ?b then _ else _] => destruct b end; proj; split; proj; try reflexivity; left; reflexivity.
  - destruct (i_rattempts i =? 0); [|apply PT_refl].
    repeat match goal with |- context [if ?b then _ else _] => destruct b end; proj; split; proj; try reflexivity; left; reflexivity.
Qed.

Lemma PT_try_quality i : shape i -> PT i (try_quality c i).
Proof.
  intros S. unfold try_quality. destruct (_ || _); [|apply PT_refl].
  rewrite add_candidate_prefixes_cands. unfold begin_prepare. proj. split; proj; [reflexivity|]. right.
  unfold D0. rewrite (sh_round c v i S). reflexivity.
Qed.
Lemma PT_begin_commit i : i_round i = 0 -> PT i (begin_commit c i).
Proof.
  intros Hr. unfold begin_commit. proj.
  repeat match goal with |- context [match ?x with _ => _ end] => destruct x end; proj; (split; proj; [reflexivity|right; unfold D0; rewrite Hr; reflexivity]).
Qed.
Lemma PT_try_prepare i : shape i -> timely i -> PT i (try_prepare c i).
Proof.
  intros S Ht. pose proof (sh_round c v i S) as Hr. unfold try_prepare. cbv zeta.
  match goal with |- PT i (if ?b then _ else _) => destruct b end.
  - match goal with |- PT i (begin_commit c ?x) => assert (Hx : PT i x) end.
    { repeat match goal with |- context [if ?b then _ else _] => destruct b end; proj; split; proj; try reflexivity; left; reflexivity. }
    eapply PT_trans; [exact Hx|]. apply PT_begin_commit.
    repeat match goal with |- context [if ?b then _ else _] => destruct b end; proj; exact Hr.
  - match goal with |- PT i (if ?b then try_rebroadcast c ?x else ?x) => assert (Hx : PT i x) end.
    { repeat match goal with |- context [if ?b then _ else _] => destruct b end; proj; split; proj; try reflexivity; left; reflexivity. }
    destruct (should_rebroadcast c _); [eapply PT_trans; [exact Hx|apply PT_try_rebroadcast]|exact Hx].
Qed.
Lemma PT_try_commit i sway : shape i -> timely i -> i_err (try_commit c i 0 sway) = None -> i_err i = None -> PT i (try_commit c i 0 sway).
Proof.
  intros S Ht He He0. destruct (tc_effect c v Hv Hcw Hrr i sway S Ht He0 He) as [(E & _)|_]; [rewrite E; apply PT_refl|].
  (* moved to DECIDE: beginDecide keeps the timer *)
  pose proof (sh_prop c v i S) as Hp. pose proof (sh_round c v i S) as Hr.
  destruct (sh_rounds c v i S) as (prep & comm & Er & Up & Uc). destruct (v_cons v Hv) as (x & w & Ev).
  unfold try_commit in *. unfold get_round in *. rewrite Er in *. cbn [rget Z.eqb Z.add Pos.eqb r_prep r_comm r_conv r_empty] in *.
  rewrite (uni_find_sq_value c v Hv Hcw comm Uc) in *. rewrite (timely_not_elapsed i Ht) in *.
  destruct (strong (q_spower comm)).
  - rewrite Ev. rewrite <- Ev. unfold begin_decide. proj. destruct (q_find_sq_for c _ _); proj; split; proj; try reflexivity; left; reflexivity.
  - cbn [andb orb]. change (q_has_just q_empty COMMIT [] || c_has_just c_empty COMMIT []) with false. cbn [orb].
    destruct (negb (i_round i =? 0) || negb (phase_eqb (i_phase i) COMMIT)); [apply PT_refl|].
    rewrite (no_rebroadcast c Hrr i Ht Hr). apply PT_refl.
Qed.
Lemma PT_try_decide i : PT i (try_decide c i).
Proof.
  unfold try_decide. destruct (q_find_sq_value (i_decision i)); [apply PT_try_rebroadcast|split; proj; [reflexivity|left; reflexivity]|].
  destruct (q_find_sq_for c (i_decision i) v0); unfold terminate; proj; (split; proj; [reflexivity|left; reflexivity]).
Qed.
Lemma PT_try_current_phase i sway : shape i -> okt i -> i_err i = None -> i_err (try_current_phase c i sway) = None -> PT i (try_current_phase c i sway).
Proof.
  intros S Hk He0 He. unfold try_current_phase in *. pose proof (sh_phase c v i S) as Hph. pose proof (sh_round c v i S) as Hr.
  destruct (i_phase i) eqn:Ep.
  - split; proj; [reflexivity|left; reflexivity].
  - apply PT_try_quality; exact S.
  - destruct Hph as [Hph|[Hph|[Hph|[Hph|Hph]]]]; discriminate Hph.
  - destruct Hk as [Ht|[Ht|Ht]]; try congruence. apply PT_try_prepare; assumption.
  - destruct Hk as [Ht|[Ht|Ht]]; try congruence. rewrite Hr in *. apply PT_try_commit; assumption.
  - apply PT_try_decide.
  - apply PT_refl.
Qed.

Lemma PT_view i i' : i_now i' = i_now i -> i_ptimeout i' = i_ptimeout i -> PT i i'.
Proof. intros A B. split; [exact A|left; exact B]. Qed.

Lemma PT_receive_one i m sway : shape i -> okt i -> vmsg v m -> i_err i = None ->
  i_err (fst (receive_one c i m sway)) = None -> PT i (fst (receive_one c i m sway)).
Proof.
  intros S Hk (Hmr & Hmv & Hmp) He0 He. pose proof (sh_round c v i S) as Hr.
  destruct (sh_rounds c v i S) as (prep & comm & Er & Up & Uc).
  unfold receive_one in *. destruct (phase_eqb (i_phase i) TERMINATED) eqn:Et; [apply PT_refl|].
  rewrite Hmr, Hr, Hmv in *. change (0 <? 0) with false in *. cbn [andb] in *.
  replace (is_spammable m) with false in * by (unfold is_spammable; rewrite Hmr, andb_false_r; reflexivity).
  rewrite andb_false_r in *. unfold get_round in *. rewrite Er in *. cbn [rget Z.eqb r_conv r_prep r_comm] in *.
  destruct Hmp as [Hmp|[Hmp|[Hmp|Hmp]]]; rewrite Hmp in *.
  - (* QUALITY *)
    set (i1 := set_round_state (set_quality i (q_receive_prefixes c (i_quality i) (m_sender m) v)) 0 (mkR c_empty prep comm)) in *.
    assert (S1 : shape i1).
    { unfold i1. apply shape_rounds_upd; try assumption. destruct S as [A B C D F G H I J K]. constructor; proj; try assumption.
      apply uniQ_receive; assumption. }
    assert (K1 : okt i1) by (apply (okt_view i); try reflexivity; exact Hk).
    assert (P1 : PT i i1) by (apply PT_view; reflexivity).
    destruct (negb (phase_eqb (i_phase i1) QUALITY)) eqn:Eq; cbn [fst] in *.
    + unfold update_candidates_from_quality. rewrite add_candidate_prefixes_cands. apply PT_view; reflexivity.
    + eapply PT_trans; [exact P1|]. apply PT_try_current_phase; assumption.
  - (* PREPARE *)
    cbn [fst] in *.
    match goal with |- context [try_current_phase c ?x sway] => set (i1 := x) in * end.
    assert (S1 : shape i1).
    { unfold i1. apply shape_rounds_upd; try assumption. destruct (m_just m); [apply uni_receive_just|]; apply uni_receive; assumption. }
    assert (K1 : okt i1) by (apply (okt_view i); try reflexivity; exact Hk).
    assert (P1 : PT i i1) by (apply PT_view; reflexivity).
    eapply PT_trans; [exact P1|]. apply PT_try_current_phase; assumption.
  - (* COMMIT *)
    match type of He with context [set_round_state i 0 ?x] => set (i1 := set_round_state i 0 x) in * end.
    assert (Hq : forall u : chain, u <> [] -> uni c v (match u, m_just m with
                                               | _ :: _, Some j => q_receive_just (q_receive c comm (m_sender m) v) v j
                                               | _, _ => q_receive c comm (m_sender m) v end)).
    { intros [|x w] Hu; [contradiction|]. destruct (m_just m); [apply uni_receive_just|]; apply uni_receive; assumption. }
    assert (S1 : shape i1) by (unfold i1; apply shape_rounds_upd; try assumption; exact (Hq v (v_nonnil v Hv))).
    assert (K1 : okt i1) by (apply (okt_view i); try reflexivity; exact Hk).
    assert (P1 : PT i i1) by (apply PT_view; reflexivity).
    destruct (negb (phase_eqb (i_phase i1) DECIDE)) eqn:Ed.
    + assert (T1 : timely i1).
      { destruct K1 as [T|[T|T]]; [exact T| |]; rewrite T in Ed; try discriminate Ed.
        change (i_phase i1) with (i_phase i) in T. rewrite T in Et. discriminate Et. }
      set (i2 := try_commit c i1 0 sway) in *.
      match type of He with context [if ?b then _ else _] => destruct b eqn:Ea end; cbn [fst] in *.
      * assert (E2 : i_err i2 = None) by (destruct (i_err i2); [cbn in Ea; discriminate Ea|reflexivity]).
        pose proof (tc_effect c v Hv Hcw Hrr i1 sway S1 T1 He0 E2) as TC; fold i2 in TC; destruct TC as [(E & Q)|(A & B & C & D)].
        -- rewrite E in *. eapply PT_trans; [exact P1|]. apply PT_try_current_phase; assumption.
        -- exfalso. rewrite B in Ea. cbn in Ea. rewrite andb_false_r in Ea. discriminate Ea.
      * eapply PT_trans; [exact P1|]. apply PT_try_commit; assumption.
    + cbn [fst] in *. eapply PT_trans; [exact P1|]. apply PT_try_current_phase; assumption.
  - (* DECIDE *)
    cbn [fst] in *.
    match goal with |- context [try_current_phase c ?x sway] => set (i2 := x) in * end.
    set (i1 := set_round_state (set_decision i (q_receive c (i_decision i) (m_sender m) v)) 0 (mkR c_empty prep comm)) in *.
    assert (S1 : shape i1).
    { apply shape_rounds_upd; try assumption. destruct S as [A B C D F G H I J K]. constructor; proj; try assumption.
      apply uni_receive; assumption. }
    assert (S2 : shape i2).
    { unfold i2. destruct (negb (phase_eqb (i_phase _) DECIDE)); [apply shape_skip_to_decide|]; exact S1. }
    assert (P2 : i_phase i2 = DECIDE).
    { unfold i2. destruct (negb (phase_eqb (i_phase _) DECIDE)) eqn:Ed; [reflexivity|].
      apply negb_false_iff, HappyNet.phase_eqb_true in Ed. exact Ed. }
    assert (P12 : PT i i2).
    { unfold i2. destruct (negb (phase_eqb (i_phase _) DECIDE)); [unfold skip_to_decide; proj|]; apply PT_view; reflexivity. }
    assert (K2 : okt i2) by (right; left; exact P2).
    assert (E2 : i_err i2 = None).
    { unfold i2. destruct (negb (phase_eqb (i_phase _) DECIDE)); [unfold skip_to_decide; proj|]; exact He0. }
    eapply PT_trans; [exact P12|]. apply PT_try_current_phase; assumption.
Qed.

(* one delivery at clock reading `now`: the phase timer is kept or re-armed at now + D0 *)
Theorem step_timer i now m sway : shape i -> okt (set_now i now) -> vmsg v m -> i_err i = None ->
  i_err (step c i (EvDeliver now m sway)) = None ->
  let i' := step c i (EvDeliver now m sway) in
  i_ptimeout i' = i_ptimeout i \/ i_ptimeout i' = now + D0.
Proof.
  intros S Hk Hm He0 He. pose proof Hm as (Hr & Hval & Hp). cbn [step] in *. cbv zeta.
  pose proof (shape_receive_one c v Hv Hcw Hrr (set_now i now) m sway (shape_set_now c v i now S) Hk Hr Hval Hp) as R.
  pose proof (PT_receive_one (set_now i now) m sway (shape_set_now c v i now S) Hk Hm He0) as Q.
  destruct (receive_one c (set_now i now) m sway) as [i1 changed]. cbn [fst] in R, Q.
  assert (E1 : i_err i1 = None).
  { destruct (changed && match i_err i1 with None => true | Some _ => false end) eqn:Ec; [|exact He].
    destruct (i_err i1); [rewrite andb_false_r in Ec; discriminate Ec|reflexivity]. }
  specialize (R E1). specialize (Q E1).
  assert (Ei : (if changed && match i_err i1 with None => true | Some _ => false end then post_receive c i1 (m_round m) else i1) = i1).
  { destruct (changed && _); [|reflexivity]. unfold post_receive. rewrite Hr, (sh_round c v i1 R). reflexivity. }
  rewrite Ei. destruct Q as (_ & [Q|Q]); [left; exact Q|right; exact Q].
Qed.
End Timed.

(* ================= the network ================= *)
Section NetT.
Variable c : config.
Variable honest : nat -> bool.
Variable input : nat -> chain.
Variable v : chain.
Hypothesis Hwf : committee_wf c.
Hypothesis Hscaled : c_total c <= 65535.
Hypothesis Hrr : 0 <= c_rebro_round c.
Hypothesis Hv : (2 <= length v)%nat.
Hypothesis Hunanimous : forall k, honest k = true -> input k = v.
Variable st : Z -> Z.   (* when each member starts *)

Local Notation NI := (NI c honest input).
Local Notation HN := (HN c honest v).
Local Notation member := (member c honest).
Local Notation B := (Bnd c).

(* the timing of a schedule: only starts and deliveries; member k starts at st k; every delivery to k happens at a clock
   reading in [st k, st k + B) *)
Definition timed_act (a : action) : Prop :=
  match a with
  | AStart k now => now = st k
  | ADeliver k now _ _ => st k <= now < st k + B
  | _ => False
  end.
Fixpoint all_timed (acts : list action) : Prop := match acts with [] => True | a :: r => timed_act a /\ all_timed r end.

Definition early (p : phase) : Prop := p = QUALITY \/ p = PREPARE \/ p = COMMIT.
(* every running phase timer of a started member lies at or beyond (its start + B) *)
Definition TI (n : net) : Prop :=
  forall k, member k -> i_phase (n_inst n k) <> INITIAL -> early (i_phase (n_inst n k)) -> st k + B <= i_ptimeout (n_inst n k).

Lemma Bnd_le_q : B <= c_quality_timeout c. Proof. unfold Bnd. lia. Qed.
Lemma Bnd_le_d : B <= D0 c. Proof. unfold Bnd. lia. Qed.

Lemma TI_step n a : NI n -> HN n -> TI n -> aok c honest n a -> timed_act a -> happy_act n a /\ TI (nstep c n a).
Proof.
  intros HNI (HV & HS) HT Hok Ht. destruct a as [k now|k now m sway|k now sway|x]; cbn [timed_act] in Ht; try contradiction.
  - (* start *)
    split; [exact I|]. destruct Hok as (Hm & Hph). cbn [nstep]. unfold node_step. intros k' Hm' Hp' He'. cbn [n_inst] in *.
    destruct (Z.eq_dec k' k) as [->|Hne].
    + rewrite upd_same in *. destruct HNI as (_ & HNI). destruct (HNI k Hm) as (_ & Hnew & _). rewrite (Hnew Hph).
      cbn [step]. unfold begin_quality, new_instance, clear_out, set_now. cbn. subst now. pose proof Bnd_le_q. lia.
    + rewrite upd_other in * by exact Hne. exact (HT k' Hm' Hp' He').
  - (* deliver *)
    destruct Hok as (Hm & Hph & Hadm).
    pose proof (HS k Hm Hph) as S0.
    assert (Hokt : okt (set_now (clear_out (n_inst n k)) now)).
    { pose proof (sh_phase c v _ S0) as Vp. unfold okt, timely. cbn [set_now clear_out i_now i_ptimeout i_phase].
      destruct Vp as [Vp|[Vp|[Vp|[Vp|Vp]]]]; try (right; left; exact Vp); try (right; right; exact Vp);
        (left; pose proof (HT k Hm Hph) as H; unfold early in H; rewrite Vp in H; specialize (H ltac:(auto)); lia). }
    split; [exact Hokt|].
    cbn [nstep]. unfold node_step. intros k' Hm' Hp' He'. cbn [n_inst] in *.
    destruct (Z.eq_dec k' k) as [->|Hne]; [|rewrite upd_other in * by exact Hne; exact (HT k' Hm' Hp' He')].
    rewrite upd_same in *.
    destruct HNI as (_ & HNI). destruct (HNI k Hm) as (HB & _ & Hf). destruct (Hf Hph) as (Hfull & _).
    pose proof (Full_step c Hwf (n_inst n k) (EvDeliver now m sway) Hfull (adm_ev_okb c honest (n_votes n) (EvDeliver now m sway) Hadm)) as Hf'.
    assert (He : i_err (step c (clear_out (n_inst n k)) (EvDeliver now m sway)) = None) by (destruct Hf' as (_ & _ & _ & _ & E); exact E).
    assert (He0 : i_err (clear_out (n_inst n k)) = None) by (destruct Hfull as (_ & _ & _ & _ & E); exact E).
    pose proof (adm_vmsg c honest input v Hv Hunanimous (n_votes n) m HV Hadm) as Hvm.
    pose proof (step_timer c v Hv Hwf Hrr (clear_out (n_inst n k)) now m sway (shape_clear_out c v _ S0) Hokt Hvm He0 He) as TM.
    pose proof (step_effect c v Hv Hwf Hrr (clear_out (n_inst n k)) now m sway (shape_clear_out c v _ S0) Hokt Hvm He0 He) as SE.
    cbv zeta in TM, SE. change (i_ptimeout (clear_out (n_inst n k))) with (i_ptimeout (n_inst n k)) in TM.
    destruct TM as [TM|TM]; [|rewrite TM; pose proof Bnd_le_d; lia].
    rewrite TM. apply (HT k Hm Hph).
    (* the timer was kept: the member was in an early phase before as well *)
    change (i_phase (clear_out (n_inst n k))) with (i_phase (n_inst n k)) in SE.
    destruct SE as [(A & _ & C & _)|(A & _ & _ & (D & _))].
    + exfalso. rewrite C in He'. destruct He' as [H|[H|H]]; discriminate H.
    + unfold stepped in D. change (i_phase (clear_out (n_inst n k))) with (i_phase (n_inst n k)) in D.
      destruct D as [(D1 & _)|[(D1 & D2 & _)|[(D1 & D2 & _)|[(D1 & D2 & _)|[(D1 & D2 & _)|(D1 & D2 & _)]]]]].
      * rewrite <- D1. exact He'.
      * left. exact D1.
      * right. left. exact D1.
      * exfalso. rewrite D2 in He'. destruct He' as [H|[H|H]]; discriminate H.
      * exfalso. rewrite D2 in He'. destruct He' as [H|[H|H]]; discriminate H.
      * exfalso. rewrite D2 in He'. destruct He' as [H|[H|H]]; discriminate H.
Qed.

Lemma TI_net0 : TI (net0 input).
Proof. intros k _ Hp. cbn in Hp. congruence. Qed.

(* a schedule that keeps the time bound is a happy schedule *)
Theorem timed_is_happy acts : forall n, NI n -> HN n -> TI n -> all_ok c honest n acts -> all_timed acts -> all_happy c n acts.
Proof.
  induction acts as [|a acts IH]; intros n HNI HHN HT Hok Ht; cbn [all_happy]; [exact I|].
  destruct Hok as (Hok & Hrest). destruct Ht as (Ht & Htrest).
  destruct (TI_step n a HNI HHN HT Hok Ht) as (Hh & HT').
  split; [exact Hh|]. apply IH; [apply (NI_step c honest input Hwf Hscaled (Hinput honest input v Hv Hunanimous)); assumption
                                |apply (happy_step c honest input v Hwf Hrr Hv Hunanimous); assumption|exact HT'|exact Hrest|exact Htrest].
Qed.

(* ---------- the statements, with synchrony as a time bound ---------- *)
Theorem timed_votes acts x : all_ok c honest (net0 input) acts -> all_timed acts ->
  In x (n_votes (nrun c (net0 input) acts)) -> Spec.round x = 0%nat /\ Spec.vl x = Some v /\ Spec.ph x <> Spec.CONVERGE.
Proof.
  intros Hok Ht. apply (happy_votes c honest input v Hwf Hscaled Hrr Hv Hunanimous acts x Hok).
  apply (timed_is_happy acts (net0 input) (NI_net0 c honest input) (HN_net0 c honest input v) TI_net0 Hok Ht).
Qed.

Variable hs : list Z.
Hypothesis Hhs : forall k, member k <-> In k hs.
Hypothesis Hhnd : NoDup hs.
Hypothesis Hhstrong : isStrongQuorum (sum_power c hs) (c_total c) = true.

Theorem timed_all_decide acts :
  all_ok c honest (net0 input) acts -> all_timed acts ->
  let n := nrun c (net0 input) acts in
  (forall k, member k -> i_phase (n_inst n k) <> INITIAL) ->
  (forall k s p, member k -> member s -> four p -> In (voteS s 0 p v) (n_votes n) -> delivered acts k s p) ->
  forall k, member k -> i_phase (n_inst n k) = TERMINATED /\ exists j, i_term (n_inst n k) = Some j /\ j_value j = v.
Proof.
  intros Hok Ht. apply (happy_all_decide c honest input v Hwf Hscaled Hrr Hv Hunanimous hs Hhs Hhnd Hhstrong acts Hok).
  apply (timed_is_happy acts (net0 input) (NI_net0 c honest input) (HN_net0 c honest input v) TI_net0 Hok Ht).
Qed.
End NetT.

(* executable form of the time bound (for the non-vacuity example) *)
Definition timed_actb (c : config) (st : Z -> Z) (a : action) : bool :=
  match a with
  | AStart k now => now =? st k
  | ADeliver k now _ _ => (st k <=? now) && (now <? st k + Bnd c)
  | _ => false
  end.
Lemma all_timedb_sound c st acts : forallb (timed_actb c st) acts = true -> all_timed c st acts.
Proof.
  induction acts as [|a r IH]; intros H; cbn in *; [exact I|]. apply andb_true_iff in H. destruct H as [H1 H2]. split; [|exact (IH H2)].
  destruct a as [k now|k now m sway| |]; cbn in *; try discriminate H1.
  - apply Z.eqb_eq. exact H1.
  - apply andb_true_iff in H1. destruct H1 as [A B]. apply Z.leb_le in A. apply Z.ltb_lt in B. lia.
Qed.
