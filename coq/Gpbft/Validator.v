(* Executable mirror of gpbft/validator.go (cachingValidator): ValidateMessage, PartiallyValidateMessage,
   FullyValidateMessage, the shared per-instance cache with its four namespaces, and pmsg's strip / complete / infer.
   validateByProgress is NOT re-modelled: the GENERATED ProgressGen.validateByProgress is used.
   Abstractions (recorded in the trusted base): a chain is (key token, result of Validate); key 0 = the zero chain and
   equal keys = equal chains (collision-free keys); a signature is either garbage (None) or a structural descriptor
   (signer key, payload) - the scripted sim/signing.FakeBackend oracle; likewise aggregates and VRF tickets. *)
From Coq Require Import ZArith List Bool.
From F3 Require Import GoInt QuorumGen ProgressGen.
Import ListNotations.
Open Scope Z_scope.

Record chainv := mkCh { ck : Z; cvalid : bool }.
Definition zero_chain : chainv := mkCh 0 true.
Definition ch_is_zero (c : chainv) : bool := ck c =? 0.
Definition ch_eqb (a b : chainv) : bool := (ck a =? ck b) && Bool.eqb (cvalid a) (cvalid b).

(* payload descriptor: (network, instance, round, phase, supplemental data token, value key) *)
Record pdesc := mkPd { p_net : Z; p_inst : Z; p_round : Z; p_phase : Z; p_supp : Z; p_key : Z }.
Definition pd_eqb (a b : pdesc) : bool :=
  (p_net a =? p_net b) && (p_inst a =? p_inst b) && (p_round a =? p_round b) && (p_phase a =? p_phase b) &&
  (p_supp a =? p_supp b) && (p_key a =? p_key b).

Record vote := mkVote { v_inst : Z; v_round : Z; v_phase : Z; v_supp : Z; v_value : chainv }.
Fixpoint zl_eqb (a b : list Z) : bool :=
  match a, b with [], [] => true | x :: a', y :: b' => (x =? y) && zl_eqb a' b' | _, _ => false end.
Record just := mkJust { j_vote : vote; j_signers : list Z; j_sig : option (list Z * pdesc) }.
Record ticket := mkTk { t_key : Z; t_net : Z; t_inst : Z; t_round : Z }.
Record gmsg := mkG { g_sender : Z; g_vote : vote; g_sig : option (Z * pdesc); g_ticket : option ticket; g_just : option just }.

Definition vote_eqb (a b : vote) : bool :=
  (v_inst a =? v_inst b) && (v_round a =? v_round b) && (v_phase a =? v_phase b) && (v_supp a =? v_supp b) && ch_eqb (v_value a) (v_value b).
Definition osig_eqb {A} (f : A -> A -> bool) (a b : option (A * pdesc)) : bool :=
  match a, b with Some (x, p), Some (y, q) => f x y && pd_eqb p q | None, None => true | _, _ => false end.
Definition just_eqb (a b : just) : bool :=
  vote_eqb (j_vote a) (j_vote b) && zl_eqb (j_signers a) (j_signers b) && osig_eqb zl_eqb (j_sig a) (j_sig b).
Definition tk_eqb (a b : option ticket) : bool :=
  match a, b with
  | Some x, Some y => (t_key x =? t_key y) && (t_net x =? t_net y) && (t_inst x =? t_inst y) && (t_round x =? t_round y)
  | None, None => true | _, _ => false end.
Definition ojust_eqb (a b : option just) : bool :=
  match a, b with Some x, Some y => just_eqb x y | None, None => true | _, _ => false end.
Definition gmsg_eqb (a b : gmsg) : bool :=
  (g_sender a =? g_sender b) && vote_eqb (g_vote a) (g_vote b) && osig_eqb Z.eqb (g_sig a) (g_sig b) &&
  tk_eqb (g_ticket a) (g_ticket b) && ojust_eqb (g_just a) (g_just b).

(* committee of one instance: entries (actor id, scaled power, key token) in table order *)
Record member := mkMem { m_id : Z; m_power : Z; m_key : Z }.
Record committee := mkCmt { cm_members : list member; cm_total : Z }.
Fixpoint lookup_member (l : list member) (id : Z) : option member :=
  match l with [] => None | m :: r => if m_id m =? id then Some m else lookup_member r id end.

(* phases: 0 INITIAL 1 QUALITY 2 CONVERGE 3 PREPARE 4 COMMIT 5 DECIDE 6 TERMINATED *)
Inductive verdict := VOk | VInvalid | VNoCommittee | VNotRelevant | VTooOld.
Definition verdict_code (v : verdict) : Z :=
  match v with VOk => 0 | VInvalid => 1 | VNoCommittee => 2 | VNotRelevant => 3 | VTooOld => 4 end.
Definition of_gerr (e : gerr) : verdict :=
  match e with ErrValidationNoCommittee => VNoCommittee | ErrValidationNotRelevant => VNotRelevant | ErrValidationTooOld => VTooOld end.

(* Justification.GetSigners: indices in range with non-zero power *)
Fixpoint signers_power (mem : list member) (signers : list Z) (acc : Z) (keys : list Z) : option (Z * list Z) :=
  match signers with
  | [] => Some (acc, keys)
  | i :: r =>
      if (i <? 0) || (Z.of_nat (length mem) <=? i) then None else
      match nth_error mem (Z.to_nat i) with
      | None => None
      | Some m => if m_power m =? 0 then None else signers_power mem r (acc + m_power m) (keys ++ [m_key m])
      end
  end.

(* the cache: validated message / justification identities per namespace (instance grouping is implicit: the
   committee of an instance is fixed and entries of other instances never match) *)
Record cache := mkCache {
  c_msg : list gmsg;                      (* "message" *)
  c_pmsg : list (gmsg * Z);               (* "partial_message": message as on the wire + announced key *)
  c_just : list (just * Z);               (* "justification": justification + expected value key *)
  c_pjust : list (just * Z) }.            (* "partial_justification" *)
Definition cache_empty : cache := mkCache [] [] [] [].
Definition jk_mem (l : list (just * Z)) (j : just) (k : Z) : bool := existsb (fun e => just_eqb (fst e) j && (snd e =? k)) l.

(* validateJustificationSignature *)
Definition just_sig_ok (net : Z) (cmt : committee) (j : just) (expected_key : Z) : bool :=
  match signers_power (cm_members cmt) (j_signers j) 0 [] with
  | None => false
  | Some (pw, keys) =>
      isStrongQuorum pw (cm_total cmt) &&
      match j_sig j with
      | None => false
      | Some (ks, pd) =>
          zl_eqb ks keys &&
          pd_eqb pd (mkPd net (v_inst (j_vote j)) (v_round (j_vote j)) (v_phase (j_vote j)) (v_supp (j_vote j)) expected_key)
      end
  end.

(* the expectation table: message phase -> justification phase -> (round, key); None = disallowed.
   round None = any round (DECIDE) *)
Definition expectation (mphase mround jphase msgkey : Z) : option (option Z * Z) :=
  if (mphase =? 2) || (mphase =? 3) then
    if jphase =? 4 then Some (Some (sub_u64 mround 1), 0)
    else if jphase =? 3 then Some (Some (sub_u64 mround 1), msgkey) else None
  else if mphase =? 4 then (if jphase =? 3 then Some (Some mround, msgkey) else None)
  else if mphase =? 5 then (if jphase =? 4 then Some (None, msgkey) else None)
  else None.

(* validateJustification; returns the verdict and the possibly extended cache *)
Definition validate_just (net : Z) (cmt : committee) (c : cache) (partial : option Z) (m : gmsg) : bool * cache :=
  match g_just m with
  | None => (false, c)
  | Some j =>
      let jv := j_vote j in
      if negb (v_inst (g_vote m) =? v_inst jv) then (false, c) else
      if negb (v_supp (g_vote m) =? v_supp jv) then (false, c) else
      if negb (cvalid (v_value jv)) then (false, c) else
      let msgkey := match partial with Some k => k | None => ck (v_value (g_vote m)) end in
      match expectation (v_phase (g_vote m)) (v_round (g_vote m)) (v_phase jv) msgkey with
      | None => (false, c)
      | Some (rd, ekey) =>
          if (match rd with Some r => negb (v_round jv =? r) | None => false end) then (false, c) else
          if (match partial with None => negb (ck (v_value jv) =? ekey) | Some _ => false end) then (false, c) else
          let cached := match partial with Some _ => jk_mem (c_pjust c) j ekey | None => jk_mem (c_just c) j ekey end in
          if cached then (true, c) else
          if just_sig_ok net cmt j ekey then
            (true, match partial with
                   | Some _ => mkCache (c_msg c) (c_pmsg c) (c_just c) ((j, ekey) :: c_pjust c)
                   | None => mkCache (c_msg c) (c_pmsg c) ((j, ekey) :: c_just c) (c_pjust c) end)
          else (false, c)
      end
  end.

(* validateMessageWithVoteValueKey (cmt = None: GetCommittee failed) *)
Definition validate_with_key (net : Z) (cmt : option committee) (c : cache) (partial : option Z) (m : gmsg) : verdict * cache :=
  let hit := match partial with
             | Some k => existsb (fun e => gmsg_eqb (fst e) m && (snd e =? k)) (c_pmsg c)
             | None => existsb (gmsg_eqb m) (c_msg c) end in
  if hit then (VOk, c) else
  match cmt with
  | None => (VNoCommittee, c)
  | Some cmt =>
      match lookup_member (cm_members cmt) (g_sender m) with
      | None => (VInvalid, c)
      | Some mem =>
          if m_power mem =? 0 then (VInvalid, c) else
          let v := g_vote m in
          if negb (cvalid (v_value v)) then (VInvalid, c) else
          let bottom := match partial with Some k => k =? 0 | None => ch_is_zero (v_value v) end in
          let phase_ok :=
            if v_phase v =? 1 then (v_round v =? 0) && negb bottom
            else if v_phase v =? 2 then
              negb (v_round v =? 0) && negb bottom &&
              match g_ticket m with
              | Some t => (t_key t =? m_key mem) && (t_net t =? net) && (t_inst t =? v_inst v) && (t_round t =? v_round v)
              | None => false end
            else if v_phase v =? 5 then (v_round v =? 0) && negb bottom
            else (v_phase v =? 3) || (v_phase v =? 4) in
          if negb phase_ok then (VInvalid, c) else
          let key := match partial with Some k => k | None => ck (v_value v) end in
          let sig_ok := match g_sig m with
                        | Some (k, pd) => (k =? m_key mem) && pd_eqb pd (mkPd net (v_inst v) (v_round v) (v_phase v) (v_supp v) key)
                        | None => false end in
          if negb sig_ok then (VInvalid, c) else
          let needs := negb ((v_phase v =? 1) || ((v_phase v =? 3) && (v_round v =? 0)) || ((v_phase v =? 4) && bottom)) in
          let '(jok, c1) := if needs then validate_just net cmt c partial m
                            else (match g_just m with None => true | Some _ => false end, c) in
          if negb jok then (VInvalid, c1) else
          (VOk, match partial with
                | Some k => mkCache (c_msg c1) ((m, k) :: c_pmsg c1) (c_just c1) (c_pjust c1)
                | None => mkCache (m :: c_msg c1) (c_pmsg c1) (c_just c1) (c_pjust c1) end)
      end
  end.

(* progress = (instance, round, phase) of the participant; lookback = committee lookback *)
Record progress := mkProg { pr_inst : Z; pr_round : Z; pr_phase : Z }.
Definition by_progress (p : progress) (lookback : Z) (m : gmsg) : option verdict :=
  option_map of_gerr (validateByProgress (pr_inst p) (pr_round p) (pr_phase p) lookback (v_inst (g_vote m)) (v_round (g_vote m)) (v_phase (g_vote m))).

(* ValidateMessage *)
Definition validate_message net cmt (c : cache) (p : progress) (lookback : Z) (m : gmsg) : verdict * cache :=
  match by_progress p lookback m with
  | Some e => (e, c)
  | None => validate_with_key net cmt c None m
  end.

(* PartiallyValidateMessage of (message as on the wire, announced key) *)
Definition partially_validate net cmt (c : cache) (p : progress) (lookback : Z) (m : gmsg) (k : Z) : verdict * cache :=
  match by_progress p lookback m with
  | Some e => (e, c)
  | None => validate_with_key net cmt c (Some k) m
  end.

(* FullyValidateMessage of a partially validated message whose value (and inferred justification value) were filled in *)
Definition fully_validate (p : progress) (lookback : Z) (m : gmsg) (k : Z) : verdict :=
  let v := g_vote m in
  if negb (cvalid (v_value v)) then VInvalid else
  if negb (k =? ck (v_value v)) then VInvalid else
  match by_progress p lookback m with
  | Some e => e
  | None =>
      let zero_bad := (k =? 0) && (negb (ch_is_zero (v_value v)) ||
                                   match g_just m with Some j => negb (ch_is_zero (v_value (j_vote j))) | None => false end) in
      if zero_bad then VInvalid else
      match g_just m with
      | None => VOk
      | Some j =>
          let jp := v_phase (j_vote j) in
          let exp := if (v_phase v =? 2) || (v_phase v =? 3) then
                       (if jp =? 4 then Some zero_chain else if jp =? 3 then Some (v_value v) else None)
                     else if v_phase v =? 4 then (if jp =? 3 then Some (v_value v) else None)
                     else if v_phase v =? 5 then (if jp =? 4 then Some (v_value v) else None)
                     else None in
          match exp with
          | None => VInvalid
          | Some e => if ck (v_value (j_vote j)) =? ck e then VOk else VInvalid
          end
      end
  end.

(* ---------- pmsg: strip, complete, infer ---------- *)
Definition set_value (v : vote) (x : chainv) : vote := mkVote (v_inst v) (v_round v) (v_phase v) (v_supp v) x.
Definition set_just_value (j : just) (x : chainv) : just := mkJust (set_value (j_vote j) x) (j_signers j) (j_sig j).
(* ToPartialGMessage *)
Definition strip (m : gmsg) : gmsg * Z :=
  let v := g_vote m in
  let k := if ch_is_zero (v_value v) then 0 else ck (v_value v) in
  let v' := if ch_is_zero (v_value v) then v else set_value v zero_chain in
  let j' := match g_just m with
            | Some j => if ch_is_zero (v_value (j_vote j)) then Some j else Some (set_just_value j zero_chain)
            | None => None end in
  (mkG (g_sender m) v' (g_sig m) (g_ticket m) j', k).
(* CompleteMessage + inferJustificationVoteValue, completing with chain x (found by the announced key) *)
Definition complete (pm : gmsg) (k : Z) (x : chainv) : gmsg :=
  if k =? 0 then pm else
  let v := set_value (g_vote pm) x in
  let j' := match g_just pm with
            | None => None
            | Some j =>
                let mp := v_phase v in let jp := v_phase (j_vote j) in
                if (((mp =? 2) || (mp =? 3) || (mp =? 4)) && (jp =? 3)) || ((mp =? 5) && (jp =? 4))
                then Some (set_just_value j x) else Some j
            end in
  mkG (g_sender pm) v (g_sig pm) (g_ticket pm) j'.

(* the two-stage path: partial validation of the wire form, completion, full validation *)
Definition two_stage net cmt (c : cache) (p : progress) (lookback : Z) (pm : gmsg) (k : Z) (x : chainv) : verdict * cache :=
  match partially_validate net cmt c p lookback pm k with
  | (VOk, c1) => (fully_validate p lookback (complete pm k x) k, c1)
  | r => r
  end.
