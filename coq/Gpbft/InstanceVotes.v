(* Layer N, protocol discipline II (C07): WHAT a participant votes for is determined by what it has received.
   Decision-point theorems about tryQuality / skipToRound / tryConverge / tryPrepare: they hold for EVERY state the
   function is entered in.  (That these functions are the only emitters of the respective votes is visible in
   Instance.v: begin_prepare is called by try_quality and try_converge only, begin_commit by try_prepare only.) *)
From Coq Require Import ZArith List Bool Lia.
From F3 Require Import GoInt QuorumGen Instance InstanceOrder.
Import ListNotations.
Open Scope Z_scope.

Lemma chain_eqb_eq a b : chain_eqb a b = true <-> a = b.
Proof.
  revert b; induction a as [|x a IH]; intros [|y b]; cbn; split; intros H; try reflexivity; try discriminate H.
  - apply andb_prop in H. destruct H as [H1 H2]. apply Z.eqb_eq in H1. apply IH in H2. congruence.
  - injection H as -> ->. rewrite Z.eqb_refl. cbn. apply IH. reflexivity.
Qed.
Lemma chain_eqb_refl a : chain_eqb a a = true. Proof. apply chain_eqb_eq; reflexivity. Qed.

(* ---------- prefixes ---------- *)
Definition is_prefix (p v : chain) : Prop := exists t, v = p ++ t.

Lemma prefixes_from_map acc rest :
  prefixes_from acc rest = map (fun n => acc ++ firstn n rest) (seq 1 (length rest)).
Proof.
  revert acc; induction rest as [|x r IH]; intros acc; [reflexivity|].
  cbn [prefixes_from length]. rewrite IH. cbn [seq map firstn]. f_equal.
  rewrite <- (seq_shift (length r) 1), map_map. apply map_ext. intros n. cbn [firstn]. rewrite <- app_assoc. reflexivity.
Qed.
(* the prefixes recorded for QUALITY / added as candidates: firstn n v for 2 <= n <= length v *)
Lemma all_prefixes_map v : all_prefixes v = map (fun n => firstn (S n) v) (seq 1 (length v - 1)).
Proof.
  destruct v as [|b r]; [reflexivity|]. unfold all_prefixes. rewrite prefixes_from_map.
  cbn [length]. replace (S (length r) - 1)%nat with (length r) by lia. apply map_ext. intros n. reflexivity.
Qed.
Lemma In_all_prefixes p v : In p (all_prefixes v) <-> exists n, (2 <= n <= length v)%nat /\ p = firstn n v.
Proof.
  rewrite all_prefixes_map, in_map_iff. split.
  - intros (n & <- & Hn). apply in_seq in Hn. exists (S n). split; [lia|reflexivity].
  - intros (n & Hn & ->). exists (n - 1)%nat. split; [f_equal; lia|apply in_seq; lia].
Qed.
Lemma firstn_is_prefix n (v : chain) : is_prefix (firstn n v) v.
Proof. exists (skipn n v). symmetry. apply firstn_skipn. Qed.
Lemma is_prefix_firstn p (v : chain) : is_prefix p v -> p = firstn (length p) v.
Proof. intros [t ->]. rewrite firstn_app, firstn_all, Nat.sub_diag. cbn. rewrite app_nil_r. reflexivity. Qed.

(* scanning the prefixes from the longest down, the first hit is the longest hit *)
Lemma first_hit_down (f : chain -> bool) (g : nat -> chain) k :
  match filter f (rev (map g (seq 1 k))) with
  | p :: _ => exists n, (1 <= n <= k)%nat /\ p = g n /\ f p = true /\ forall n', (n < n' <= k)%nat -> f (g n') = false
  | [] => forall n', (1 <= n' <= k)%nat -> f (g n') = false
  end.
Proof.
  induction k as [|k IH]; [cbn; intros; lia|].
  rewrite seq_S, map_app, rev_app_distr. cbn [map rev app filter].
  destruct (f (g (1 + k)%nat)) eqn:E.
  - exists (S k). repeat split; [lia|lia|exact E|intros; lia].
  - destruct (filter f (rev (map g (seq 1 k)))) as [|p l].
    + intros n' Hn. destruct (Nat.eq_dec n' (S k)) as [->|Hne]; [exact E|apply IH; lia].
    + destruct IH as (n & Hn & Hp & Hf & Hl). exists n. repeat split; try assumption; try lia.
      intros n' Hn'. destruct (Nat.eq_dec n' (S k)) as [->|Hne]; [exact E|apply Hl; lia].
Qed.

(* FindStrongQuorumValueForLongestPrefixOf: the longest prefix (beyond the base) with a strong quorum, else the base *)
Theorem q_longest_prefix_spec q v :
  let p := q_longest_prefix q v in
  is_prefix p v /\
  ((2 <= length p)%nat -> q_has_sq q p = true) /\
  (forall p', is_prefix p' v -> (length p < length p')%nat -> (2 <= length p')%nat -> q_has_sq q p' = false) /\
  (v <> [] -> (1 <= length p)%nat).
Proof.
  cbv zeta. unfold q_longest_prefix. rewrite all_prefixes_map.
  pose proof (first_hit_down (q_has_sq q) (fun n => firstn (S n) v) (length v - 1)) as H. cbv beta in H.
  match goal with |- context [filter ?f ?l] => set (F := filter f l) in * end.
  change (filter _ _) with F in H.
  destruct F as [|p l].
  - repeat split.
    + apply firstn_is_prefix.
    + intros H2. rewrite firstn_length in H2. lia.
    + intros p' Hp' Hl H2. rewrite (is_prefix_firstn _ _ Hp').
      assert (Hlen : (length p' <= length v)%nat). { destruct Hp' as [t ->]. rewrite app_length. lia. }
      replace (length p') with (S (length p' - 1)) by lia. apply H. lia.
    + intros Hv. rewrite firstn_length. destruct v; [congruence|cbn; lia].
  - destruct H as (n & Hn & -> & Hf & Hl). repeat split.
    + apply firstn_is_prefix.
    + intros _. exact Hf.
    + intros p' Hp' Hlt H2. rewrite (is_prefix_firstn _ _ Hp').
      assert (Hlen : (length p' <= length v)%nat). { destruct Hp' as [t ->]. rewrite app_length. lia. }
      rewrite firstn_length in Hlt.
      replace (length p') with (S (length p' - 1)) by lia. apply Hl. lia.
    + intros _. rewrite firstn_length. lia.
Qed.

(* ---------- candidates ---------- *)
Lemma is_candidate_In i v : is_candidate i v = true <-> In v (i_cands i).
Proof.
  unfold is_candidate. rewrite existsb_exists. split.
  - intros (x & Hx & E). apply chain_eqb_eq in E. subst. exact Hx.
  - intros H. exists v. split; [exact H|apply chain_eqb_refl].
Qed.
Lemma add_candidate_In i v : In v (i_cands (fst (add_candidate i v))).
Proof.
  unfold add_candidate. destruct (is_candidate i v) eqn:E; cbn.
  - apply is_candidate_In; exact E.
  - apply in_or_app; right; left; reflexivity.
Qed.
Lemma add_candidate_prefixes_In i v p : In p (all_prefixes v) -> In p (i_cands (add_candidate_prefixes i v)).
Proof.
  unfold add_candidate_prefixes. rewrite in_rev. generalize (rev (all_prefixes v)) as l. intros l; revert i.
  induction l as [|x l IH]; intros i Hin; [contradiction|]. cbn [fold_left].
  destruct Hin as [->|Hin]; [|apply IH; exact Hin].
  assert (G : forall l0 i0, In p (i_cands i0) -> In p (i_cands (fold_left (fun i1 p0 => fst (add_candidate i1 p0)) l0 i0))).
  { induction l0 as [|y l0 IH0]; intros i0 H0; [exact H0|]. cbn. apply IH0.
    destruct (same_add_candidate i0 y) as (_ & _ & _ & _ & Hc & _). apply Hc. exact H0. }
  apply G. apply add_candidate_In.
Qed.

(* addCandidate(Prefixes) touch nothing but the candidate set *)
Lemma set_cands_eta i : set_cands i (i_cands i) = i. Proof. destruct i; reflexivity. Qed.
Lemma add_candidate_cands i v : fst (add_candidate i v) = set_cands i (i_cands (fst (add_candidate i v))).
Proof. unfold add_candidate. destruct (is_candidate i v); cbn; [symmetry; apply set_cands_eta|reflexivity]. Qed.
Lemma add_candidate_prefixes_cands i v : add_candidate_prefixes i v = set_cands i (i_cands (add_candidate_prefixes i v)).
Proof.
  unfold add_candidate_prefixes. generalize (rev (all_prefixes v)) as l. intros l; revert i.
  induction l as [|x l IH]; intros i; cbn [fold_left]; [symmetry; apply set_cands_eta|].
  rewrite IH at 1. rewrite (add_candidate_cands i x) at 1. reflexivity.
Qed.

(* ---------- tryQuality ---------- *)
(* the round-0 PREPARE value is the longest prefix of the input with a strong QUALITY quorum (the base if none), and
   every prefix of it becomes a candidate *)
Theorem try_quality_spec c i :
  let p := q_longest_prefix (i_quality i) (i_input i) in
  let i' := try_quality c i in
  if q_has_sq (i_quality i) (i_proposal i) || phase_timeout_elapsed i then
    i_out i' = OBroadcast (i_round i) PREPARE p None false :: OAlarm (i_now i + nthZ (c_timeouts c) (i_round i)) :: i_out i /\
    i_proposal i' = p /\ i_value i' = p /\ i_phase i' = PREPARE /\ i_round i' = i_round i /\
    (forall p', In p' (all_prefixes p) -> is_candidate i' p' = true)
  else i' = i.
Proof.
  cbv zeta. unfold try_quality. destruct (_ || _); [|reflexivity].
  set (p := q_longest_prefix (i_quality i) (i_input i)).
  pose proof (add_candidate_prefixes_In (set_pv i p (i_value i)) p) as Hin.
  rewrite add_candidate_prefixes_cands in Hin |- *.
  generalize dependent (i_cands (add_candidate_prefixes (set_pv i p (i_value i)) p)). intros l Hin.
  repeat split. intros p' Hp'. apply is_candidate_In. cbn in *. apply Hin. exact Hp'.
Qed.

Lemma longest_prefix_short q v : (length (q_longest_prefix q v) < 2)%nat -> q_longest_prefix q v = firstn 1 v.
Proof.
  intros Hl. destruct (q_longest_prefix_spec q v) as (Hp & _ & _ & Hne). cbv zeta in *.
  rewrite (is_prefix_firstn _ _ Hp). destruct v as [|b r].
  - destruct (length _); reflexivity.
  - specialize (Hne ltac:(discriminate)). replace (length (q_longest_prefix q (b :: r))) with 1%nat by lia. reflexivity.
Qed.

(* skipToRound entered from QUALITY settles the same outcome first (the repaired behaviour): the value the participant
   proposes in CONVERGE is the QUALITY outcome and it is a candidate, so tryConverge always has an acceptable value *)
Theorem skip_from_quality_spec c i round v j :
  i_phase i = QUALITY -> j_phase j = COMMIT -> In (firstn 1 (i_input i)) (i_cands i) ->
  let p := q_longest_prefix (i_quality i) (i_input i) in
  let i' := skip_to_round c i round v j in
  (i_proposal i' = p /\ is_candidate i' p = true) \/ i_err i' <> None.
Proof.
  intros Hp Hj Hb. cbv zeta. unfold skip_to_round.
  cbn [i_phase set_progress]. rewrite Hp, Hj. replace (phase_eqb QUALITY QUALITY) with true by reflexivity.
  replace (phase_eqb COMMIT PREPARE) with false by reflexivity.
  cbn [i_quality i_input i_value].
  set (p := q_longest_prefix (i_quality i) (i_input i)).
  set (i1 := set_progress i round QUALITY).
  assert (Hc : In p (i_cands (add_candidate_prefixes (set_pv i1 p (i_value i)) p))).
  { destruct (Nat.le_gt_cases 2 (length p)) as [H2|H2].
    - apply add_candidate_prefixes_In. apply In_all_prefixes. exists (length p). split; [lia|symmetry; apply firstn_all].
    - destruct (same_add_candidate_prefixes (set_pv i1 p (i_value i)) p) as (_ & _ & _ & _ & Hi & _). apply Hi. cbn.
      unfold p. rewrite longest_prefix_short; [exact Hb|exact H2]. }
  change (q_longest_prefix (i_quality i1) (i_input i1)) with p.
  change (i_value i1) with (i_value i).
  rewrite add_candidate_prefixes_cands in Hc |- *.
  generalize dependent (i_cands (add_candidate_prefixes (set_pv i1 p (i_value i)) p)). intros l Hc.
  unfold begin_converge. destruct (negb _).
  - right. cbn. destruct (i_err i); discriminate.
  - left. split; [reflexivity|]. apply is_candidate_In. exact Hc.
Qed.

(* ---------- tryConverge ---------- *)
(* rank order on option Z (None = +Inf) *)
Definition rle (a b : option Z) : Prop := match a, b with _, None => True | Some x, Some y => x <= y | None, Some _ => False end.
Lemma better_spec best v : better best v = true <-> best = None \/ exists b, best = Some b /\ ~ rle (cv_rank b) (cv_rank v).
Proof.
  unfold better. destruct best as [b|]; [|split; auto].
  split.
  - intros H. right. exists b. split; [reflexivity|]. unfold rle.
    destruct (cv_rank v) as [x|], (cv_rank b) as [y|]; try discriminate H; try (apply Z.ltb_lt in H; lia); tauto.
  - intros [H|(b0 & E & H)]; [discriminate H|]. injection E as <-. unfold rle in H.
    destruct (cv_rank v) as [x|], (cv_rank b) as [y|]; try tauto; try (apply Z.ltb_lt; lia); reflexivity.
Qed.

(* FindBestTicketProposal: if the best ticket overall passes the filter, it is also the best ticket among the filtered *)
Lemma find_best_filter (f : cvalue -> bool) l :
  forall b1 b2 w,
  (forall x, b1 = Some x -> f x = true -> b2 = Some x) ->
  (b1 = None -> b2 = None) ->
  (forall x y, b1 = Some x -> b2 = Some y -> rle (cv_rank x) (cv_rank y)) ->
  fold_left (fun best v => if better best v && true then Some v else best) l b1 = Some w -> f w = true ->
  fold_left (fun best v => if better best v && f v then Some v else best) l b2 = Some w.
Proof.
  induction l as [|v l IH]; intros b1 b2 w H1 H2 H3 Hr Hf; cbn [fold_left] in *.
  - apply H1; assumption.
  - rewrite andb_true_r in Hr. eapply IH; [| | |exact Hr|exact Hf].
    + intros x Ex Hfx. destruct (better b1 v) eqn:B1.
      * injection Ex as Ex'. subst x. rewrite Hfx, andb_true_r.
        assert (B2 : better b2 v = true).
        { apply better_spec. destruct b2 as [y|]; [right|left; reflexivity]. exists y. split; [reflexivity|].
          apply better_spec in B1. destruct B1 as [->|(b & -> & Hb)]; [discriminate (H2 eq_refl)|].
          specialize (H3 b y eq_refl eq_refl). intros Hy. apply Hb. unfold rle in *.
          destruct (cv_rank b), (cv_rank y), (cv_rank v); try tauto; lia. }
        rewrite B2. reflexivity.
      * rewrite (H1 x Ex Hfx). subst b1. rewrite B1. reflexivity.
    + intros E. destruct (better b1 v) eqn:B1; [discriminate E|]. subst b1. cbn in B1. discriminate B1.
    + intros x y Ex Ey. destruct (better b1 v) eqn:B1.
      * injection Ex as Ex'. subst x. destruct (better b2 v && f v); [injection Ey as Ey'; subst y; unfold rle; destruct (cv_rank v); [lia|exact I]|].
        apply better_spec in B1. destruct B1 as [->|(b & -> & Hb)].
        { rewrite (H2 eq_refl) in Ey. discriminate Ey. }
        specialize (H3 b y eq_refl Ey). unfold rle in *. destruct (cv_rank b), (cv_rank y), (cv_rank v); try tauto; lia.
      * destruct (better b2 v && f v) eqn:B2.
        -- injection Ey as Ey'. subst y. subst b1. destruct (better_spec (Some x) v) as [_ Hb].
           destruct (cv_rank x) as [rx|] eqn:Erx, (cv_rank v) as [rv|] eqn:Erv; unfold rle; try exact I; try lia.
           ++ destruct (Z.le_gt_cases rx rv) as [Hle|Hgt]; [exact Hle|]. rewrite Hb in B1; [discriminate B1|].
              right. exists x. split; [reflexivity|]. unfold rle. try rewrite Erx. try rewrite Erv. lia.
           ++ rewrite Hb in B1; [discriminate B1|]. right. exists x. split; [reflexivity|]. unfold rle. try rewrite Erx. try rewrite Erv. tauto.
        -- apply H3; assumption.
Qed.

Lemma c_find_best_true s : c_find_best s (fun _ => true) = fold_left (fun best v => if better best v && true then Some v else best) (cs_values s) None.
Proof. reflexivity. Qed.

(* in later rounds the participant adopts the best-ticket CONVERGE value whenever that value is a candidate -- in
   particular whenever it is a prefix of the proposal formed from QUALITY (try_quality_spec + candidates_monotone) *)
Theorem try_converge_adopts_best c i w :
  phase_timeout_elapsed i = true ->
  c_find_best (r_conv (get_round i (i_round i))) (fun _ => true) = Some w ->
  is_candidate i (cv_chain w) = true ->
  let i' := try_converge c i in
  i_proposal i' = cv_chain w /\ i_value i' = cv_chain w /\ i_phase i' = PREPARE /\
  i_out i' = OBroadcast (i_round i) PREPARE (cv_chain w) (Some (cv_just w)) false :: OAlarm (i_now i + nthZ (c_timeouts c) (i_round i)) :: i_out i.
Proof.
  intros Ht Hb Hc. cbv zeta. unfold try_converge. rewrite Ht. cbn [negb].
  set (valid := fun cv => is_candidate i (cv_chain cv) || _).
  assert (E : c_find_best (r_conv (get_round i (i_round i))) valid = Some w).
  { unfold c_find_best. eapply (find_best_filter valid); [| | |rewrite <- c_find_best_true; exact Hb|unfold valid; rewrite Hc; reflexivity]; intros; congruence. }
  rewrite E. rewrite add_candidate_cands. generalize (i_cands (fst (add_candidate i (cv_chain w)))). intros l.
  repeat split.
Qed.

(* ---------- tryPrepare ---------- *)
(* COMMIT for bottom is only sent when there is neither a strong PREPARE quorum for the proposal nor proof of one, and
   either that quorum has become impossible or the PREPARE timeout has passed (with PREPAREs from a strong quorum) *)
Theorem try_prepare_commit_bottom c i :
  i_phase i = PREPARE -> i_proposal i <> [] ->
  let i' := try_prepare c i in
  let prep := r_prep (get_round i (i_round i)) in
  i_phase i' = COMMIT -> i_value i' = [] ->
  q_has_sq prep (i_proposal i) = false /\
  (q_could_reach c prep (i_proposal i) false = false \/ (phase_timeout_elapsed i = true /\ q_from_strong c prep = true)).
Proof.
  intros Hp Hne. cbv zeta. unfold try_prepare.
  set (found := q_has_sq _ _). set (np := negb _). set (complete := _ && _).
  set (foundj := q_has_just _ PREPARE _ || q_has_just _ PREPARE _ || c_has_just _ PREPARE _).
  assert (Hv : forall x, i_value (begin_commit c x) = i_value x /\ i_phase (begin_commit c x) = COMMIT).
  { intros x. unfold begin_commit, broadcast.
    destruct (i_value (reset_rebroadcast _)) eqn:Ev; [split; reflexivity|].
    repeat match goal with |- context [match ?y with _ => _ end] => destruct y end; split; reflexivity. }
  destruct (found || foundj) eqn:E1.
  - cbn [orb]. cbv iota. intros _ Hval. rewrite (proj1 (Hv _)) in Hval. cbn in Hval. contradiction.
  - apply orb_false_elim in E1. destruct E1 as [Ef Efj].
    destruct (np || complete) eqn:E2.
    + cbv iota. intros _ _. split; [exact Ef|]. apply orb_prop in E2. destruct E2 as [E2|E2].
      * left. unfold np in E2. apply negb_true_iff in E2. exact E2.
      * right. unfold complete in E2. apply andb_prop in E2. exact E2.
    + cbn [orb]. rewrite E2. cbv iota. intros Hph _.
      destruct (should_rebroadcast c i).
      * assert (H : snd (pkey (try_rebroadcast c i)) = 4) by (cbn; rewrite Hph; reflexivity).
        rewrite pkey_try_rebroadcast in H. cbn in H. rewrite Hp in H. discriminate H.
      * rewrite Hp in Hph. discriminate Hph.
Qed.

Lemma q_get_just_phase q ph x v j : q_get_just q ph (x :: v) = Some j -> j_phase j = ph.
Proof.
  unfold q_get_just. destruct (filter _ _) as [|e l]; [discriminate|].
  destruct (phase_eqb (j_phase (snd e)) ph) eqn:Ep; [|discriminate]. intros E. injection E as <-. apply phase_eqb_true. exact Ep.
Qed.
Lemma c_get_just_phase s ph x v j : c_get_just s ph (x :: v) = Some j -> j_phase j = ph.
Proof.
  unfold c_get_just. destruct (cv_find _ _) as [w|]; [|discriminate].
  destruct (phase_eqb (j_phase (cv_just w)) ph) eqn:Ep; [|discriminate]. intros E. injection E as <-. apply phase_eqb_true. exact Ep.
Qed.

(* ... and a COMMIT for a value carries proof of a strong PREPARE quorum for it: its justification is either built from
   the PREPARE votes held (FindStrongQuorumFor) or was received in a message; otherwise the (unreachable) panic fires *)
Theorem begin_commit_justified c i v0 v :
  i_value i = v0 :: v ->
  let i' := begin_commit c i in
  (exists j, hd_error (i_out i') = Some (OBroadcast (i_round i) COMMIT (v0 :: v) (Some j) false) /\ j_phase j = PREPARE) \/
  (i_out i' = OAlarm (i_now i + nthZ (c_timeouts c) (i_round i)) :: i_out i /\ i_err i' <> None).
Proof.
  intros Hv. cbv zeta. unfold begin_commit. cbn [i_value reset_rebroadcast set_timers alarm_after emit set_progress]. rewrite Hv.
  unfold broadcast.
  assert (Hf : forall x e, i_err (fail x e) <> None). { intros x e. cbn. destruct (i_err x); discriminate. }
  repeat match goal with |- context [match ?x with _ => _ end] => let E := fresh "E" in destruct x eqn:E end;
  first [ right; split; [reflexivity|apply Hf]
        | left; eexists; split; [reflexivity| first [reflexivity | eapply q_get_just_phase; eassumption | eapply c_get_just_phase; eassumption]] ].
Qed.
