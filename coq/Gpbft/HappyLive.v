(* Progress on the happy path (C02 second sentence: "that chain itself is decided"; the synchronous corner of C06).
   HappyNet.v shows that on a happy schedule nobody ever votes for anything but v.  Here: what ONE step does to a happy
   instance -- which tallies grow, and when the participant moves on -- in enough detail to conclude, over the network
   (second half of this file), that once every vote cast has been delivered to every honest member, every honest member
   HAS decided v.  No timer is involved: the participant re-examines the tally of its current step after every delivery. *)
From Coq Require Import ZArith List Bool Lia.
From F3 Require Import GoInt QuorumGen QuorumProofs Instance InstanceRun InstanceOrder InstanceVotes InstanceDecide InstanceQuorum InstanceNoPanic InstanceJust
  HappyPath HappyInst HappyStep Refine RefineNode RefineNet HappyNet.
From F3 Require Spec.
Import ListNotations.
Open Scope Z_scope.

Section Happy.
Variable c : config.
Variable v : chain.
Hypothesis Hv : (2 <= length v)%nat.
Hypothesis Hcw : committee_wf c.
Hypothesis Hrr : 0 <= c_rebro_round c.

Local Notation uni := (uni c v).
Local Notation uniQ := (uniQ c v).
Local Notation shape := (shape c v).
Local Notation strong p := (isStrongQuorum p (c_total c)).

Ltac proj := cbn [i_input i_proposal i_value i_cands i_quality i_rounds i_decision i_round i_phase i_ptimeout i_rtimeout i_rattempts
                  i_term i_now i_out i_err emit fail set_round_state set_pv set_cands set_quality set_decision set_progress set_timers
                  set_term set_now reset_rebroadcast alarm_after broadcast].
Ltac proj_in H := cbn [i_input i_proposal i_value i_cands i_quality i_rounds i_decision i_round i_phase i_ptimeout i_rtimeout i_rattempts
                  i_term i_now i_out i_err emit fail set_round_state set_pv set_cands set_quality set_decision set_progress set_timers
                  set_term set_now reset_rebroadcast alarm_after broadcast] in H.

(* the senders recorded in the round-0 tally of each step *)
Definition sndrs (i : inst) (p : phase) : list Z :=
  match p with
  | QUALITY => q_senders (i_quality i)
  | PREPARE => q_senders (r_prep (get_round i 0))
  | COMMIT => q_senders (r_comm (get_round i 0))
  | DECIDE => q_senders (i_decision i)
  | _ => []
  end.
(* the tallies are untouched and nothing already emitted is lost *)
Definition ext (i i' : inst) : Prop :=
  i_quality i' = i_quality i /\ i_rounds i' = i_rounds i /\ i_decision i' = i_decision i /\ incl (i_out i) (i_out i').
Lemma ext_refl i : ext i i.
Proof. repeat split; apply incl_refl. Qed.
Lemma ext_trans a b d : ext a b -> ext b d -> ext a d.
Proof. intros (A1 & A2 & A3 & A4) (B1 & B2 & B3 & B4). repeat split; try congruence. eapply incl_tran; eauto. Qed.
Lemma ext_sndrs i i' : ext i i' -> forall p, sndrs i' p = sndrs i p.
Proof. intros (A & B & C & _) p. unfold sndrs, get_round. rewrite A, B, C. reflexivity. Qed.
Ltac ext_triv := repeat split; proj; try reflexivity; try apply incl_refl; try (apply incl_tl; apply incl_refl);
                 try (apply incl_tl; apply incl_tl; apply incl_refl).

Definition bc (i : inst) (p : phase) : Prop := exists j t, In (OBroadcast 0 p v j t) (i_out i).
(* the tally of the participant's current step holds no strong quorum *)
Definition noq (i : inst) : Prop :=
  match i_phase i with
  | QUALITY | PREPARE | COMMIT | DECIDE => strong (sum_power c (sndrs i (i_phase i))) = false
  | _ => True
  end.

Lemma uni_sp q : uni q -> q_spower q = sum_power c (q_senders q).
Proof. intros (_ & H & _). exact H. Qed.
Lemma uniQ_sp q : uniQ q -> q_spower q = sum_power c (q_senders q).
Proof. intros (_ & H & _). exact H. Qed.

Lemma ext_try_rebroadcast i : ext i (try_rebroadcast c i) /\ i_phase (try_rebroadcast c i) = i_phase i /\ i_term (try_rebroadcast c i) = i_term i.
Proof.
  unfold try_rebroadcast. destruct (i_rtimeout i) as [rt|].
  - destruct (rt <=? i_now i); [|split; [apply ext_refl|split; reflexivity]]. unfold do_rebroadcast.
    destruct (i_phase i) eqn:Ep; proj;
      repeat match goal with |- context [if ?b then _ else _] => destruct b end; proj;
      (split; [repeat split; proj; try reflexivity; repeat (apply incl_tl); apply incl_refl|split; [try exact Ep; try reflexivity|reflexivity]]).
  - destruct (i_rattempts i =? 0); [|split; [apply ext_refl|split; reflexivity]].
    repeat match goal with |- context [if ?b then _ else _] => destruct b end; proj;
      (split; [repeat split; proj; try reflexivity; repeat (apply incl_tl); apply incl_refl|split; reflexivity]).
Qed.

(* ---------- the four try* functions on a happy instance ---------- *)
Lemma tq_effect i : shape i -> i_phase i = QUALITY -> timely i ->
  (try_quality c i = i /\ strong (q_spower (i_quality i)) = false) \/
  (ext i (try_quality c i) /\ i_phase (try_quality c i) = PREPARE /\ bc (try_quality c i) PREPARE /\ i_term (try_quality c i) = i_term i).
Proof.
  intros S Hp Ht. unfold try_quality. rewrite (timely_not_elapsed i Ht), (sh_prop c v i S), orb_false_r.
  rewrite (uniQ_has_sq c v Hv Hcw _ (sh_qual c v i S)).
  destruct (strong (q_spower (i_quality i))) eqn:Eq; [right|left; split; reflexivity].
  rewrite add_candidate_prefixes_cands. unfold begin_prepare. proj. split; [ext_triv|]. split; [reflexivity|]. split; [|reflexivity].
  rewrite (sh_round c v i S), (sh_input c v i S).
  assert (Hs : q_has_sq (i_quality i) v = true) by (rewrite (uniQ_has_sq c v Hv Hcw _ (sh_qual c v i S)); exact Eq).
  rewrite (longest_prefix_full c (Hpow c Hcw) (Hsum c Hcw) _ _ (v_nonnil v Hv) Hs).
  eexists _, _. left. reflexivity.
Qed.

Lemma q_has_just_empty p k : q_has_just q_empty p k = false.
Proof. destruct k; reflexivity. Qed.
Lemma c_has_just_empty p k : c_has_just c_empty p k = false.
Proof. destruct k; reflexivity. Qed.

Lemma begin_commit_effect i : i_value i = v -> i_round i = 0 -> i_err i = None -> i_err (begin_commit c i) = None ->
  ext i (begin_commit c i) /\ i_phase (begin_commit c i) = COMMIT /\ bc (begin_commit c i) COMMIT /\ i_term (begin_commit c i) = i_term i.
Proof.
  intros Hval Hr He0 He. destruct (v_cons v Hv) as (x & w & Ev). unfold begin_commit in *. proj. proj_in He. rewrite Hval, Hr in *.
  rewrite Ev in *. rewrite <- Ev in *.
  repeat match goal with
         | |- context [match ?x with _ => _ end] => destruct x
         end; proj; proj_in He; try (rewrite He0 in He; discriminate He);
    (split; [ext_triv|split; [reflexivity|split; [eexists _, _; left; reflexivity|reflexivity]]]).
Qed.

Lemma tp_effect i : shape i -> timely i -> i_err i = None -> i_err (try_prepare c i) = None ->
  (try_prepare c i = i /\ strong (q_spower (r_prep (get_round i 0))) = false) \/
  (ext i (try_prepare c i) /\ i_phase (try_prepare c i) = COMMIT /\ bc (try_prepare c i) COMMIT /\ i_term (try_prepare c i) = i_term i).
Proof.
  intros S Ht He0 He. pose proof (sh_prop c v i S) as Hp. pose proof (sh_round c v i S) as Hr.
  destruct (sh_rounds c v i S) as (prep & comm & Er & Up & Uc).
  unfold try_prepare in *. cbv zeta in *. unfold get_round in *. rewrite Hp, Hr, Er in *.
  cbn [rget Z.eqb Z.add Pos.eqb r_prep r_comm r_conv r_empty] in *.
  rewrite (uni_could_reach c v Hv Hcw prep Up), (timely_not_elapsed i Ht) in *. cbn [negb andb orb] in *.
  rewrite !orb_false_r in *. rewrite (uni_has_sq c v Hv Hcw prep Up) in *.
  rewrite q_has_just_empty, c_has_just_empty in *. rewrite !orb_false_r in *.
  destruct (strong (q_spower prep) || q_has_just comm PREPARE v) eqn:Eb.
  - right. pose proof (begin_commit_effect (set_pv i v v) eq_refl Hr He0 He) as (A & B & C & D).
    split; [|split; [exact B|split; [exact C|exact D]]].
    eapply ext_trans; [|exact A]. ext_triv.
  - left. apply orb_false_elim in Eb. destruct Eb as [Eb _]. rewrite (no_rebroadcast c Hrr i Ht Hr). split; [reflexivity|exact Eb].
Qed.

Lemma tc_effect i sway : shape i -> timely i -> i_err i = None -> i_err (try_commit c i 0 sway) = None ->
  (try_commit c i 0 sway = i /\ strong (q_spower (r_comm (get_round i 0))) = false) \/
  (ext i (try_commit c i 0 sway) /\ i_phase (try_commit c i 0 sway) = DECIDE /\ bc (try_commit c i 0 sway) DECIDE /\
   i_term (try_commit c i 0 sway) = i_term i).
Proof.
  intros S Ht He0 He. pose proof (sh_prop c v i S) as Hp. pose proof (sh_round c v i S) as Hr.
  destruct (sh_rounds c v i S) as (prep & comm & Er & Up & Uc). destruct (v_cons v Hv) as (x & w & Ev).
  unfold try_commit in *. unfold get_round in *. rewrite Er in *. cbn [rget Z.eqb Z.add Pos.eqb r_prep r_comm r_conv r_empty] in *.
  rewrite (uni_find_sq_value c v Hv Hcw comm Uc) in *. rewrite (timely_not_elapsed i Ht) in *.
  destruct (strong (q_spower comm)) eqn:Es.
  - right. rewrite Ev in *. rewrite <- Ev in *. unfold begin_decide in *. proj. proj_in He.
    destruct (q_find_sq_for c _ v); proj_in He; try (rewrite He0 in He; discriminate He).
    split; [ext_triv|]. split; [reflexivity|]. split; [eexists _, _; left; reflexivity|reflexivity].
  - left. cbn [andb orb]. change (q_has_just q_empty COMMIT [] || c_has_just c_empty COMMIT []) with false. cbn [orb].
    destruct (negb (i_round i =? 0) || negb (phase_eqb (i_phase i) COMMIT)); [split; reflexivity|].
    rewrite (no_rebroadcast c Hrr i Ht Hr). split; reflexivity.
Qed.

Lemma td_effect i : shape i -> i_err (try_decide c i) = None ->
  (ext i (try_decide c i) /\ i_phase (try_decide c i) = i_phase i /\ i_term (try_decide c i) = i_term i /\
   strong (q_spower (i_decision i)) = false) \/
  (ext i (try_decide c i) /\ i_phase (try_decide c i) = TERMINATED /\ i_term (try_decide c i) <> None).
Proof.
  intros S He. unfold try_decide in *. rewrite (uni_find_sq_value c v Hv Hcw _ (sh_dec c v i S)) in *.
  destruct (strong (q_spower (i_decision i))) eqn:Es.
  - right. destruct (q_find_sq_for c (i_decision i) v) as [| |sg]; try (exfalso; exact (fail_err _ _ He)).
    unfold terminate. proj. split; [ext_triv|]. split; [reflexivity|discriminate].
  - left. destruct (ext_try_rebroadcast i) as (A & B & C). split; [exact A|]. split; [exact B|]. split; [exact C|reflexivity].
Qed.

(* what re-examining the current step does: nothing (and then its tally holds no quorum), or exactly one move forward *)
Definition moved (i i' : inst) : Prop :=
  (i_phase i' = i_phase i /\ i_term i' = i_term i /\ noq i') \/
  (i_phase i = QUALITY /\ i_phase i' = PREPARE /\ bc i' PREPARE /\ i_term i' = i_term i) \/
  (i_phase i = PREPARE /\ i_phase i' = COMMIT /\ bc i' COMMIT /\ i_term i' = i_term i) \/
  (i_phase i = COMMIT /\ i_phase i' = DECIDE /\ bc i' DECIDE /\ i_term i' = i_term i) \/
  (i_phase i = DECIDE /\ i_phase i' = TERMINATED /\ i_term i' <> None).

Lemma tcp_effect i sway : shape i -> okt i -> i_err i = None -> i_err (try_current_phase c i sway) = None ->
  ext i (try_current_phase c i sway) /\ moved i (try_current_phase c i sway).
Proof.
  intros S Hk He0 He. unfold try_current_phase in *. pose proof (sh_phase c v i S) as Hph. pose proof (sh_round c v i S) as Hr.
  destruct (sh_rounds c v i S) as (prep & comm & Er & Up & Uc).
  destruct (i_phase i) eqn:Ep.
  - exfalso. exact (fail_err _ _ He).
  - destruct Hk as [Ht|[Ht|Ht]]; try congruence.
    destruct (tq_effect i S Ep Ht) as [(E & Q)|(A & B & C & D)].
    + rewrite E. split; [apply ext_refl|]. left. split; [reflexivity|split; [reflexivity|]]. unfold noq. rewrite Ep. cbn [sndrs].
      rewrite <- (uniQ_sp _ (sh_qual c v i S)). exact Q.
    + split; [exact A|]. right. left. repeat split; assumption.
  - destruct Hph as [Hph|[Hph|[Hph|[Hph|Hph]]]]; discriminate Hph.
  - destruct Hk as [Ht|[Ht|Ht]]; try congruence.
    destruct (tp_effect i S Ht He0 He) as [(E & Q)|(A & B & C & D)].
    + rewrite E. split; [apply ext_refl|]. left. split; [reflexivity|split; [reflexivity|]]. unfold noq. rewrite Ep. cbn [sndrs].
      unfold get_round in *. rewrite Er in *. cbn [rget Z.eqb r_prep] in *. rewrite <- (uni_sp _ Up). exact Q.
    + split; [exact A|]. right. right. left. repeat split; assumption.
  - destruct Hk as [Ht|[Ht|Ht]]; try congruence. rewrite Hr in *.
    destruct (tc_effect i sway S Ht He0 He) as [(E & Q)|(A & B & C & D)].
    + rewrite E. split; [apply ext_refl|]. left. split; [reflexivity|split; [reflexivity|]]. unfold noq. rewrite Ep. cbn [sndrs].
      unfold get_round in *. rewrite Er in *. cbn [rget Z.eqb r_comm] in *. rewrite <- (uni_sp _ Uc). exact Q.
    + split; [exact A|]. right. right. right. left. repeat split; assumption.
  - destruct (td_effect i S He) as [(A & B & C & Q)|(A & B & C)].
    + split; [exact A|]. left. split; [exact B|split; [exact C|]]. unfold noq. rewrite B, Ep. cbn [sndrs].
      destruct A as (_ & _ & A & _). rewrite A. rewrite <- (uni_sp _ (sh_dec c v i S)). exact Q.
    + split; [exact A|]. right. right. right. right. repeat split; assumption.
  - split; [apply ext_refl|]. left. split; [reflexivity|split; [reflexivity|]]. unfold noq. rewrite Ep. exact I.
Qed.

(* ---------- one delivery ---------- *)
Definition addz (s : Z) (l : list Z) : list Z := if memZ s l then l else l ++ [s].
Lemma q_receive_senders q s x : q_senders (q_receive c q s x) = addz s (q_senders q).
Proof. unfold q_receive, addz. destruct (memZ s (q_senders q)); reflexivity. Qed.
Lemma q_receive_just_senders q x j : q_senders (q_receive_just q x j) = q_senders q.
Proof. unfold q_receive_just. destruct (existsb _ _); reflexivity. Qed.
Lemma fold_inner_senders s pw l : forall q, q_senders (fold_left (fun q p => q_receive_inner c q s p pw) l q) = q_senders q.
Proof. induction l as [|p l IH]; intros q; cbn [fold_left]; [reflexivity|]. rewrite IH. reflexivity. Qed.
Lemma q_receive_prefixes_senders q s x : q_senders (q_receive_prefixes c q s x) = addz s (q_senders q).
Proof. unfold q_receive_prefixes, addz. destruct (memZ s (q_senders q)); [reflexivity|]. rewrite fold_inner_senders. reflexivity. Qed.
Lemma addz_In s l x : In x (addz s l) <-> x = s \/ In x l.
Proof.
  unfold addz. destruct (memZ s l) eqn:E.
  - apply (memZ_In s l) in E. split; [intros H; right; exact H|intros [->|H]; assumption].
  - rewrite in_app_iff. cbn. split; [intros [H|[H|[]]]; [right; exact H|left; symmetry; exact H]|intros [->|H]; [right; left; reflexivity|left; exact H]].
Qed.

Definition recorded (i : inst) (m : msg) (i' : inst) : Prop :=
  forall p, sndrs i' p = if phase_eqb p (m_phase m) then addz (m_sender m) (sndrs i p) else sndrs i p.
Definition stepped (i : inst) (m : msg) (i' : inst) : Prop :=
  ((i_phase i' = i_phase i /\ i_term i' = i_term i /\ (m_phase m = i_phase i -> noq i')) \/
   (i_phase i = QUALITY /\ i_phase i' = PREPARE /\ bc i' PREPARE /\ i_term i' = i_term i) \/
   (i_phase i = PREPARE /\ i_phase i' = COMMIT /\ bc i' COMMIT /\ i_term i' = i_term i) \/
   (phase_code (i_phase i) < 5 /\ i_phase i' = DECIDE /\ bc i' DECIDE /\ i_term i' = i_term i) \/
   (phase_code (i_phase i) < 5 /\ i_phase i' = TERMINATED /\ bc i' DECIDE /\ i_term i' <> None) \/
   (i_phase i = DECIDE /\ i_phase i' = TERMINATED /\ i_term i' <> None)) /\
  (m_phase m = DECIDE -> i_phase i' = DECIDE \/ i_phase i' = TERMINATED).

Lemma moved_stepped i m i1 i' : i_phase i1 = i_phase i -> i_term i1 = i_term i -> moved i1 i' ->
  (m_phase m = DECIDE -> i_phase i' = DECIDE \/ i_phase i' = TERMINATED) -> stepped i m i'.
Proof.
  intros Ep Et M HD. split; [|exact HD]. unfold moved in M. rewrite Ep, Et in M.
  destruct M as [(A & B & C)|[(A & B & C & D)|[(A & B & C & D)|[(A & B & C & D)|(A & B & C)]]]].
  - left. repeat split; try assumption. intros _. exact C.
  - right. left. repeat split; assumption.
  - right. right. left. repeat split; assumption.
  - right. right. right. left. repeat split; try assumption. rewrite A. cbn. lia.
  - right. right. right. right. right. repeat split; assumption.
Qed.

Lemma vphase_lt5 p : vphase p -> p <> DECIDE -> p <> TERMINATED -> phase_code p < 5.
Proof. intros [-> | [-> | [-> | [-> | ->]]]] H1 H2; cbn; try lia; congruence. Qed.

Lemma bc_incl i i' p : incl (i_out i) (i_out i') -> bc i p -> bc i' p.
Proof. intros Hi (j & t & H). exists j, t. apply Hi. exact H. Qed.

Theorem ro_effect i m sway : shape i -> okt i -> vmsg v m -> i_err i = None ->
  i_err (fst (receive_one c i m sway)) = None ->
  (i_phase i = TERMINATED /\ fst (receive_one c i m sway) = i) \/
  (i_phase i <> TERMINATED /\ recorded i m (fst (receive_one c i m sway)) /\
   incl (i_out i) (i_out (fst (receive_one c i m sway))) /\ stepped i m (fst (receive_one c i m sway))).
Proof.
  intros S Hk (Hmr & Hmv & Hmp) He0 He. pose proof (sh_round c v i S) as Hr.
  destruct (sh_rounds c v i S) as (prep & comm & Er & Up & Uc).
  unfold receive_one in *. destruct (phase_eqb (i_phase i) TERMINATED) eqn:Et; [left; split; [apply phase_eqb_true; exact Et|reflexivity]|].
  right. assert (Hnt : i_phase i <> TERMINATED) by (apply phase_eqb_false; exact Et). split; [exact Hnt|].
  rewrite Hmr, Hr, Hmv in *. change (0 <? 0) with false in *. cbn [andb] in *.
  replace (is_spammable m) with false in * by (unfold is_spammable; rewrite Hmr, andb_false_r; reflexivity).
  rewrite andb_false_r in *. unfold get_round in *. rewrite Er in *. cbn [rget Z.eqb r_conv r_prep r_comm] in *.
  destruct Hmp as [Hmp|[Hmp|[Hmp|Hmp]]]; rewrite Hmp in *.
  - (* QUALITY *)
    set (i1 := set_round_state (set_quality i (q_receive_prefixes c (i_quality i) (m_sender m) v)) 0 (mkR c_empty prep comm)) in *.
    assert (S1 : shape i1).
    { unfold i1. apply shape_rounds_upd; try assumption. destruct S as [A B C D F G H I J K]. constructor; proj; try assumption.
      apply uniQ_receive; assumption. }
    assert (K1 : okt i1) by (apply (okt_view i); try reflexivity; exact Hk).
    assert (R1 : recorded i m i1).
    { intros p. rewrite Hmp. unfold sndrs, get_round, i1. proj. rewrite Er. cbn [rset rget Z.eqb r_prep r_comm].
      destruct p; cbn [phase_eqb phase_code Z.eqb]; try reflexivity. apply q_receive_prefixes_senders. }
    destruct (negb (phase_eqb (i_phase i1) QUALITY)) eqn:Eq; cbn [fst] in *.
    + unfold update_candidates_from_quality. rewrite add_candidate_prefixes_cands.
      split; [exact R1|]. split; [apply incl_refl|]. split; [|intros H; congruence].
      left. split; [reflexivity|split; [reflexivity|]]. intros H. apply negb_true_iff, phase_eqb_false in Eq. exfalso. apply Eq. change (i_phase i1) with (i_phase i). congruence.
    + destruct (tcp_effect i1 sway S1 K1 He0 He) as (X & M). split; [|split].
      * intros p. rewrite (ext_sndrs _ _ X). apply R1.
      * destruct X as (_ & _ & _ & X). exact X.
      * apply (moved_stepped i m i1); try reflexivity; [exact M|intros H; congruence].
  - (* PREPARE *)
    cbn [fst] in *.
    match goal with |- context [try_current_phase c ?x sway] => set (i1 := x) in * end.
    assert (S1 : shape i1).
    { unfold i1. apply shape_rounds_upd; try assumption. destruct (m_just m); [apply uni_receive_just|]; apply uni_receive; assumption. }
    assert (K1 : okt i1) by (apply (okt_view i); try reflexivity; exact Hk).
    assert (R1 : recorded i m i1).
    { intros p. rewrite Hmp. unfold sndrs, get_round, i1. proj. rewrite Er. cbn [rset rget Z.eqb r_prep r_comm].
      destruct p; cbn [phase_eqb phase_code Z.eqb]; try reflexivity.
      destruct (m_just m); [rewrite q_receive_just_senders|]; apply q_receive_senders. }
    destruct (tcp_effect i1 sway S1 K1 He0 He) as (X & M). split; [|split].
    + intros p. rewrite (ext_sndrs _ _ X). apply R1.
    + destruct X as (_ & _ & _ & X). exact X.
    + apply (moved_stepped i m i1); try reflexivity; [exact M|intros H; congruence].
  - (* COMMIT *)
    match type of He with context [set_round_state i 0 ?x] => set (i1 := set_round_state i 0 x) in * end.
    assert (Hq : forall u : chain, u <> [] -> uni (match u, m_just m with
                                               | _ :: _, Some j => q_receive_just (q_receive c comm (m_sender m) v) v j
                                               | _, _ => q_receive c comm (m_sender m) v end) /\
                                           q_senders (match u, m_just m with
                                               | _ :: _, Some j => q_receive_just (q_receive c comm (m_sender m) v) v j
                                               | _, _ => q_receive c comm (m_sender m) v end) = addz (m_sender m) (q_senders comm)).
    { intros [|x w] Hu; [contradiction|]. destruct (m_just m).
      - split; [apply uni_receive_just; apply uni_receive; assumption|rewrite q_receive_just_senders; apply q_receive_senders].
      - split; [apply uni_receive; assumption|apply q_receive_senders]. }
    assert (S1 : shape i1) by (unfold i1; apply shape_rounds_upd; try assumption; exact (proj1 (Hq v (v_nonnil v Hv)))).
    assert (K1 : okt i1) by (apply (okt_view i); try reflexivity; exact Hk).
    assert (R1 : recorded i m i1).
    { intros p. rewrite Hmp. unfold sndrs, get_round, i1. proj. rewrite Er. cbn [rset rget Z.eqb r_prep r_comm].
      destruct p; cbn [phase_eqb phase_code Z.eqb]; try reflexivity. exact (proj2 (Hq v (v_nonnil v Hv))). }
    destruct (negb (phase_eqb (i_phase i1) DECIDE)) eqn:Ed.
    + assert (Hnd : i_phase i <> DECIDE) by (apply negb_true_iff, phase_eqb_false in Ed; exact Ed).
      assert (T1 : timely i1) by (destruct K1 as [T|[T|T]]; [exact T|contradiction|contradiction]).
      set (i2 := try_commit c i1 0 sway) in *.
      match type of He with context [if ?b then _ else _] => destruct b eqn:Ea end; cbn [fst] in *.
      * assert (E2 : i_err i2 = None) by (destruct (i_err i2); [cbn in Ea; discriminate Ea|reflexivity]).
        pose proof (tc_effect i1 sway S1 T1 He0 E2) as TC; fold i2 in TC; destruct TC as [(E & Q)|(A & B & C & D)].
        -- rewrite E in *. destruct (tcp_effect i1 sway S1 K1 He0 He) as (X & M). split; [|split].
           ++ intros p. rewrite (ext_sndrs _ _ X). apply R1.
           ++ destruct X as (_ & _ & _ & X). exact X.
           ++ apply (moved_stepped i m i1); try reflexivity; [exact M|intros H; congruence].
        -- exfalso. rewrite B in Ea. cbn in Ea. rewrite andb_false_r in Ea. discriminate Ea.
      * pose proof (tc_effect i1 sway S1 T1 He0 He) as TC; fold i2 in TC; destruct TC as [(E & Q)|(A & B & C & D)].
        -- rewrite E. split; [exact R1|]. split; [apply incl_refl|]. split; [|intros H; congruence].
           left. split; [reflexivity|split; [reflexivity|]]. intros Hc. unfold noq. change (i_phase i1) with (i_phase i). rewrite <- Hc, Hmp.
           cbn [sndrs]. unfold get_round, i1. proj. rewrite Er. cbn [rset rget Z.eqb r_comm].
           unfold get_round, i1 in Q. proj_in Q. rewrite Er in Q. cbn [rset rget Z.eqb r_comm] in Q.
           rewrite <- (uni_sp _ (proj1 (Hq v (v_nonnil v Hv)))). exact Q.
        -- split; [|split].
           ++ intros p. rewrite (ext_sndrs _ _ A). apply R1.
           ++ destruct A as (_ & _ & _ & A). exact A.
           ++ split; [|intros H; congruence]. right. right. right. left.
              split; [apply vphase_lt5; [exact (sh_phase c v i S)|exact Hnd|exact Hnt]|]. repeat split; assumption.
    + cbn [fst] in *. destruct (tcp_effect i1 sway S1 K1 He0 He) as (X & M). split; [|split].
      * intros p. rewrite (ext_sndrs _ _ X). apply R1.
      * destruct X as (_ & _ & _ & X). exact X.
      * apply (moved_stepped i m i1); try reflexivity; [exact M|intros H; congruence].
  - (* DECIDE *)
    cbn [fst] in *.
    match goal with |- context [try_current_phase c ?x sway] => set (i2 := x) in * end.
    set (i1 := set_round_state (set_decision i (q_receive c (i_decision i) (m_sender m) v)) 0 (mkR c_empty prep comm)) in *.
    assert (S1 : shape i1).
    { apply shape_rounds_upd; try assumption. destruct S as [A B C D F G H I J K]. constructor; proj; try assumption.
      apply uni_receive; assumption. }
    assert (R1 : recorded i m i1).
    { intros p. rewrite Hmp. unfold sndrs, get_round, i1. proj. rewrite Er. cbn [rset rget Z.eqb r_prep r_comm].
      destruct p; cbn [phase_eqb phase_code Z.eqb]; try reflexivity. apply q_receive_senders. }
    assert (S2 : shape i2).
    { unfold i2. destruct (negb (phase_eqb (i_phase _) DECIDE)); [apply shape_skip_to_decide|]; exact S1. }
    assert (P2 : i_phase i2 = DECIDE).
    { unfold i2. destruct (negb (phase_eqb (i_phase _) DECIDE)) eqn:Ed; [reflexivity|].
      apply negb_false_iff, phase_eqb_true in Ed. exact Ed. }
    assert (X12 : ext i1 i2 /\ i_term i2 = i_term i1 /\ (i_phase i <> DECIDE -> bc i2 DECIDE)).
    { unfold i2. destruct (negb (phase_eqb (i_phase _) DECIDE)) eqn:Ed.
      - unfold skip_to_decide. proj. split; [ext_triv|]. split; [reflexivity|]. intros _. eexists _, _. left. reflexivity.
      - split; [apply ext_refl|]. split; [reflexivity|]. intros H. exfalso. apply H. apply negb_false_iff, phase_eqb_true in Ed. exact Ed. }
    destruct X12 as (X12 & T12 & B12).
    assert (K2 : okt i2) by (right; left; exact P2).
    assert (E2 : i_err i2 = None).
    { unfold i2. destruct (negb (phase_eqb (i_phase _) DECIDE)); [unfold skip_to_decide; proj|]; exact He0. }
    destruct (tcp_effect i2 sway S2 K2 E2 He) as (X & M). split; [|split].
    + intros p. rewrite (ext_sndrs _ _ X), (ext_sndrs _ _ X12). apply R1.
    + destruct X as (_ & _ & _ & X). destruct X12 as (_ & _ & _ & X12). eapply incl_tran; [exact X12|exact X].
    + unfold moved in M. rewrite P2 in M. destruct M as [(A & B & C)|[(A & _)|[(A & _)|[(A & _)|(_ & B & C)]]]]; try discriminate A.
      * split; [|intros _; left; exact A].
        destruct (phase_eqb (i_phase i) DECIDE) eqn:Ed.
        -- apply phase_eqb_true in Ed. left. split; [congruence|]. split; [rewrite B, T12; reflexivity|intros _; exact C].
        -- apply phase_eqb_false in Ed. right. right. right. left.
           split; [apply vphase_lt5; [exact (sh_phase c v i S)|exact Ed|exact Hnt]|]. split; [exact A|].
           split; [apply (bc_incl i2); [destruct X as (_ & _ & _ & X); exact X|exact (B12 Ed)]|rewrite B, T12; reflexivity].
      * split; [|intros _; right; exact B].
        destruct (phase_eqb (i_phase i) DECIDE) eqn:Ed.
        -- apply phase_eqb_true in Ed. right. right. right. right. right. repeat split; assumption.
        -- apply phase_eqb_false in Ed. right. right. right. right. left.
           split; [apply vphase_lt5; [exact (sh_phase c v i S)|exact Ed|exact Hnt]|]. split; [exact B|].
           split; [apply (bc_incl i2); [destruct X as (_ & _ & _ & X); exact X|exact (B12 Ed)]|exact C].
Qed.

(* the whole delivery step *)
Theorem step_effect i now m sway : shape i -> okt (set_now i now) -> vmsg v m -> i_err i = None ->
  i_err (step c i (EvDeliver now m sway)) = None ->
  let i' := step c i (EvDeliver now m sway) in
  (i_phase i = TERMINATED /\ (forall p, sndrs i' p = sndrs i p) /\ i_phase i' = TERMINATED /\ i_term i' = i_term i) \/
  (i_phase i <> TERMINATED /\ recorded i m i' /\ incl (i_out i) (i_out i') /\ stepped i m i').
Proof.
  intros S Hk Hm He0 He. pose proof Hm as (Hr & Hval & Hp). cbn [step] in *. cbv zeta.
  pose proof (shape_receive_one c v Hv Hcw Hrr (set_now i now) m sway (shape_set_now c v i now S) Hk Hr Hval Hp) as R.
  pose proof (ro_effect (set_now i now) m sway (shape_set_now c v i now S) Hk Hm He0) as Q.
  destruct (receive_one c (set_now i now) m sway) as [i1 changed]. cbn [fst] in R, Q.
  assert (E1 : i_err i1 = None).
  { destruct (changed && match i_err i1 with None => true | Some _ => false end) eqn:Ec; [|exact He].
    destruct (i_err i1); [rewrite andb_false_r in Ec; discriminate Ec|reflexivity]. }
  specialize (R E1). specialize (Q E1).
  assert (Ei : (if changed && match i_err i1 with None => true | Some _ => false end then post_receive c i1 (m_round m) else i1) = i1).
  { destruct (changed && _); [|reflexivity]. unfold post_receive. rewrite Hr, (sh_round c v i1 R). reflexivity. }
  rewrite Ei in *.
  destruct Q as [(A & B)|(A & B & C & D)].
  - left. rewrite B. split; [exact A|]. split; [intros p; reflexivity|]. split; [exact A|reflexivity].
  - right. split; [exact A|]. split; [exact B|]. split; [exact C|exact D].
Qed.
End Happy.

(* ================= the network ================= *)
Section Net.
Variable c : config.
Variable honest : nat -> bool.
Variable input : nat -> chain.
Variable v : chain.
Hypothesis Hwf : committee_wf c.
Hypothesis Hscaled : c_total c <= 65535.
Hypothesis Hrr : 0 <= c_rebro_round c.
Hypothesis Hv : (2 <= length v)%nat.
Hypothesis Hunanimous : forall k, honest k = true -> input k = v.
(* the honest members, and: together they hold a strong quorum *)
Variable hs : list Z.
Hypothesis Hhs : forall k, member c honest k <-> In k hs.
Hypothesis Hhnd : NoDup hs.
Hypothesis Hhstrong : isStrongQuorum (sum_power c hs) (c_total c) = true.

Local Notation NI := (NI c honest input).
Local Notation HN := (HN c honest v).
Local Notation member := (member c honest).
Local Notation shape := (shape c v).
Local Notation sndrs := sndrs.
Local Notation strong p := (isStrongQuorum p (c_total c)).

Definition four (p : phase) : Prop := p = QUALITY \/ p = PREPARE \/ p = COMMIT \/ p = DECIDE.
Definition late (i : inst) : Prop := i_phase i = DECIDE \/ i_phase i = TERMINATED.

(* what a started honest member's state says about the global vote set *)
Record HLk (E : list Spec.vote) (k : Z) (i : inst) : Prop := {
  hl_rec : forall p s, In s (sndrs i p) -> In (voteS s 0 p v) E;
  hl_q : In (voteS k 0 QUALITY v) E;
  hl_p : i_phase i = PREPARE \/ i_phase i = COMMIT -> In (voteS k 0 PREPARE v) E;
  hl_c : i_phase i = COMMIT -> In (voteS k 0 COMMIT v) E;
  hl_d : late i -> In (voteS k 0 DECIDE v) E;
  hl_dec : sndrs i DECIDE <> [] -> late i;
  hl_j : four (i_phase i) -> In k (sndrs i (i_phase i)) -> strong (sum_power c (sndrs i (i_phase i))) = false;
  hl_t : i_phase i = TERMINATED -> i_term i <> None }.
Definition HL (n : net) : Prop := forall k, member k -> i_phase (n_inst n k) <> INITIAL -> HLk (n_votes n) k (n_inst n k).

Lemma HLk_mono E E' k i : incl E E' -> HLk E k i -> HLk E' k i.
Proof. intros Hi [A B C D F G H I]. constructor; auto. Qed.

Lemma vS : valS v = Some v.
Proof. destruct (v_cons v Hv) as (x & w & ->). reflexivity. Qed.
Lemma bc_vote k i p : bc v i p -> In (voteS k 0 p v) (ovotes k (i_out i)).
Proof. intros (j & t & H). unfold ovotes. apply in_flat_map. eexists. split; [exact H|]. left. reflexivity. Qed.

(* a vote of k in the global set lies at or below k's progress point *)
Lemma own_below E k i p : 0 <= k -> Own E k (pkey i) -> i_round i = 0 -> votable p -> In (voteS k 0 p v) E ->
  phase_code p <= phase_code (i_phase i).
Proof.
  intros Hk HO Hr Hvt Hin. destruct (HO _ Hin eq_refl) as (r & p' & y & K & A & B & C & D & F).
  destruct (voteS_inj _ _ _ _ _ _ _ _ Hk Hk (Z.le_refl 0) B Hvt C A) as (_ & <- & <-).
  unfold pkey in F. rewrite Hr in F.
  destruct D as [(D1 & D2 & D3)|(D1 & D2)].
  - subst p. cbn. destruct F as [F|[F1 F2]]; [rewrite F in D3; cbn in D3; lia|]. cbn [fst snd] in *. specialize (F2 ltac:(lia)). lia.
  - subst K. destruct F as [F|[F1 F2]]; [injection F as F; lia|]. cbn [fst snd] in *. lia.
Qed.

Lemma four_votable p : four p -> votable p.
Proof. intros [-> | [-> | [-> | ->]]]; exact I. Qed.
Lemma four_dec p q : four p -> phase_eqb p q = true -> p = q.
Proof. intros _ H. apply phase_eqb_true. exact H. Qed.

Theorem HL_step n a : NI n -> HN n -> HL n -> aok c honest n a -> happy_act n a -> HL (nstep c n a).
Proof.
  intros HNI (HV & HS) HLn Hok Hh. destruct a as [k now|k now m sway|k now sway|x]; cbn [happy_act] in Hh; try contradiction.
  - (* start *)
    destruct Hok as (Hm & Hph). cbn [nstep]. unfold node_step. intros k' Hm' Hp'. cbn [n_inst n_votes] in *.
    destruct (Z.eq_dec k' k) as [->|Hne].
    + rewrite upd_same in *. destruct HNI as (_ & HNI). destruct (HNI k Hm) as (_ & Hnew & _). rewrite (Hnew Hph) in *.
      destruct Hm as (Hk & Hhon). rewrite (Hunanimous _ Hhon) in *. rewrite new_clear in *.
      assert (Eo : exists rest, i_out (step c (new_instance v 0) (EvStart now)) = OBroadcast 0 QUALITY v None false :: rest).
      { cbn [step]. unfold begin_quality, new_instance. cbn. eexists. reflexivity. }
      destruct Eo as (rest & Eo).
      constructor.
      * intros p s. cbn [step]. unfold begin_quality, new_instance. destruct p; cbn; intros [].
      * apply in_or_app. left. rewrite Eo. left. reflexivity.
      * cbn [step]. unfold begin_quality, new_instance. cbn. intros [H|H]; discriminate H.
      * cbn [step]. unfold begin_quality, new_instance. cbn. intros H; discriminate H.
      * cbn [step]. unfold begin_quality, new_instance, late. cbn. intros [H|H]; discriminate H.
      * cbn [step]. unfold begin_quality, new_instance. cbn. intros H. exfalso. apply H. reflexivity.
      * cbn [step]. unfold begin_quality, new_instance. cbn. intros _ [].
      * cbn [step]. unfold begin_quality, new_instance. cbn. intros H; discriminate H.
    + rewrite upd_other in * by exact Hne. apply (HLk_mono (n_votes n)); [apply incl_appr, incl_refl|]. exact (HLn k' Hm' Hp').
  - (* deliver *)
    destruct Hok as (Hm & Hph & Hadm). cbn [nstep]. unfold node_step. intros k' Hm' Hp'. cbn [n_inst n_votes] in *.
    destruct (Z.eq_dec k' k) as [->|Hne]; [|rewrite upd_other in * by exact Hne; apply (HLk_mono (n_votes n)); [apply incl_appr, incl_refl|]; exact (HLn k' Hm' Hp')].
    rewrite upd_same in *. clear Hm' Hp'.
    pose proof (HS k Hm Hph) as S0. pose proof (HLn k Hm Hph) as L0.
    destruct HNI as (_ & HNI). destruct (HNI k Hm) as (HB & _ & Hf). destruct (Hf Hph) as (Hfull & _).
    pose proof (Full_step c Hwf (n_inst n k) (EvDeliver now m sway) Hfull (adm_ev_okb c honest (n_votes n) (EvDeliver now m sway) Hadm)) as Hf'.
    assert (He : i_err (step c (clear_out (n_inst n k)) (EvDeliver now m sway)) = None) by (destruct Hf' as (_ & _ & _ & _ & E); exact E).
    assert (He0 : i_err (clear_out (n_inst n k)) = None) by (destruct Hfull as (_ & _ & _ & _ & E); exact E).
    pose proof (adm_vmsg c honest input v Hv Hunanimous (n_votes n) m HV Hadm) as Hvm.
    pose proof (step_effect c v Hv Hwf Hrr (clear_out (n_inst n k)) now m sway (shape_clear_out c v _ S0) Hh Hvm He0 He) as SE.
    cbv zeta in SE. set (i := n_inst n k) in *. set (i' := step c (clear_out i) (EvDeliver now m sway)) in *.
    set (E := n_votes n) in *. set (E' := ovotes k (i_out i') ++ E).
    assert (HiE : incl E E') by (apply incl_appr, incl_refl).
    change (i_phase (clear_out i)) with (i_phase i) in SE. change (i_term (clear_out i)) with (i_term i) in SE.
    destruct SE as [(A & B & C & D)|(A & B & C & D)].
    + (* already terminated: nothing changes *)
      destruct L0 as [L1 L2 L3 L4 L5 L6 L7 L8]. constructor.
      * intros p s Hs. rewrite B in Hs. apply HiE. exact (L1 p s Hs).
      * apply HiE. exact L2.
      * rewrite C. intros [H|H]; discriminate H.
      * rewrite C. intros H; discriminate H.
      * intros _. apply HiE. apply L5. right. exact A.
      * intros _. right. exact C.
      * rewrite C. intros [H|[H|[H|H]]]; discriminate H.
      * intros _. rewrite D. exact (L8 A).
    + (* recorded, and possibly moved on *)
      unfold stepped in D. change (i_phase (clear_out i)) with (i_phase i) in D. change (i_term (clear_out i)) with (i_term i) in D.
      assert (Hrec : forall p s, In s (sndrs i' p) -> In (voteS s 0 p v) E).
      { intros p s Hs. rewrite (B p) in Hs. change (sndrs (clear_out i) p) with (sndrs i p) in Hs.
        destruct (phase_eqb p (m_phase m)) eqn:Ep; [|exact (hl_rec _ _ _ L0 p s Hs)].
        apply addz_In in Hs. destruct Hs as [->|Hs]; [|exact (hl_rec _ _ _ L0 p s Hs)].
        apply phase_eqb_true in Ep. subst p. destruct Hadm as (_ & _ & Hin & _). destruct Hvm as (Hr0 & Hv0 & _).
        rewrite Hr0, Hv0 in Hin. exact Hin. }
      assert (Hk0 : 0 <= k) by (destruct Hm as ((Hk0 & _) & _); exact Hk0).
      assert (Hround : i_round i = 0) by (exact (sh_round c v _ S0)).
      assert (HB' : Own E k (pkey i)) by exact HB.
      (* the participant never holds its own vote for a step it has not reached *)
      assert (Hfresh : forall p, four p -> phase_code (i_phase i) < phase_code p -> ~ In k (sndrs i' p)).
      { intros p Hp Hlt Hin. pose proof (own_below E k i p Hk0 HB' Hround (four_votable p Hp) (Hrec p k Hin)). lia. }
      destruct D as (D & DD). destruct L0 as [L1 L2 L3 L4 L5 L6 L7 L8]. constructor.
      * intros p s Hs. apply HiE. exact (Hrec p s Hs).
      * apply HiE. exact L2.
      * intros H.
        destruct D as [(D1 & D2 & D3)|[(D1 & D2 & D3 & D4)|[(D1 & D2 & D3 & D4)|[(D1 & D2 & D3 & D4)|[(D1 & D2 & D3 & D4)|(D1 & D2 & D3)]]]]].
        -- apply HiE. apply L3. rewrite <- D1. exact H.
        -- apply in_or_app. left. apply bc_vote. exact D3.
        -- apply HiE. apply L3. left. exact D1.
        -- rewrite D2 in H. destruct H as [H|H]; discriminate H.
        -- rewrite D2 in H. destruct H as [H|H]; discriminate H.
        -- rewrite D2 in H. destruct H as [H|H]; discriminate H.
      * intros H.
        destruct D as [(D1 & D2 & D3)|[(D1 & D2 & D3 & D4)|[(D1 & D2 & D3 & D4)|[(D1 & D2 & D3 & D4)|[(D1 & D2 & D3 & D4)|(D1 & D2 & D3)]]]]].
        -- apply HiE. apply L4. rewrite <- D1. exact H.
        -- rewrite D2 in H. discriminate H.
        -- apply in_or_app. left. apply bc_vote. exact D3.
        -- rewrite D2 in H. discriminate H.
        -- rewrite D2 in H. discriminate H.
        -- rewrite D2 in H. discriminate H.
      * intros H.
        destruct D as [(D1 & D2 & D3)|[(D1 & D2 & D3 & D4)|[(D1 & D2 & D3 & D4)|[(D1 & D2 & D3 & D4)|[(D1 & D2 & D3 & D4)|(D1 & D2 & D3)]]]]].
        -- apply HiE. apply L5. unfold late in *. rewrite <- D1. exact H.
        -- unfold late in H. rewrite D2 in H. destruct H as [H|H]; discriminate H.
        -- unfold late in H. rewrite D2 in H. destruct H as [H|H]; discriminate H.
        -- apply in_or_app. left. apply bc_vote. exact D3.
        -- apply in_or_app. left. apply bc_vote. exact D3.
        -- apply HiE. apply L5. left. exact D1.
      * intros H. destruct (phase_eqb DECIDE (m_phase m)) eqn:Ep.
        -- apply phase_eqb_true in Ep. exact (DD (eq_sym Ep)).
        -- rewrite (B DECIDE), Ep in H. change (sndrs (clear_out i) DECIDE) with (sndrs i DECIDE) in H. specialize (L6 H).
           destruct D as [(D1 & D2 & D3)|[(D1 & D2 & D3 & D4)|[(D1 & D2 & D3 & D4)|[(D1 & D2 & D3 & D4)|[(D1 & D2 & D3 & D4)|(D1 & D2 & D3)]]]]].
           ++ unfold late in *. rewrite D1. exact L6.
           ++ destruct L6 as [L6|L6]; congruence.
           ++ destruct L6 as [L6|L6]; congruence.
           ++ destruct L6 as [L6|L6]; rewrite L6 in D1; cbn in D1; lia.
           ++ destruct L6 as [L6|L6]; rewrite L6 in D1; cbn in D1; lia.
           ++ right. exact D2.
      * intros H4 Hin.
        destruct D as [(D1 & D2 & D3)|[(D1 & D2 & D3 & D4)|[(D1 & D2 & D3 & D4)|[(D1 & D2 & D3 & D4)|[(D1 & D2 & D3 & D4)|(D1 & D2 & D3)]]]]].
        -- destruct (phase_eqb (i_phase i') (m_phase m)) eqn:Ep.
           ++ apply phase_eqb_true in Ep. assert (Hn : noq c i') by (apply D3; congruence).
              unfold noq in Hn. destruct H4 as [H4|[H4|[H4|H4]]]; rewrite H4 in *; exact Hn.
           ++ rewrite (B (i_phase i')), Ep in *. change (sndrs (clear_out i) (i_phase i')) with (sndrs i (i_phase i')) in *.
              rewrite D1 in *. exact (L7 H4 Hin).
        -- exfalso. rewrite D2 in *. apply (Hfresh PREPARE); [right; left; reflexivity|rewrite D1; cbn; lia|exact Hin].
        -- exfalso. rewrite D2 in *. apply (Hfresh COMMIT); [right; right; left; reflexivity|rewrite D1; cbn; lia|exact Hin].
        -- exfalso. rewrite D2 in *. apply (Hfresh DECIDE); [right; right; right; reflexivity|cbn; lia|exact Hin].
        -- rewrite D2 in H4. destruct H4 as [H4|[H4|[H4|H4]]]; discriminate H4.
        -- rewrite D2 in H4. destruct H4 as [H4|[H4|[H4|H4]]]; discriminate H4.
      * intros H.
        destruct D as [(D1 & D2 & D3)|[(D1 & D2 & D3 & D4)|[(D1 & D2 & D3 & D4)|[(D1 & D2 & D3 & D4)|[(D1 & D2 & D3 & D4)|(D1 & D2 & D3)]]]]]; try congruence.
Qed.

Lemma HL_net0 : HL (net0 input).
Proof. intros k _ Hp. cbn in Hp. congruence. Qed.

Theorem live_run acts : forall n, NI n -> HN n -> HL n -> all_ok c honest n acts -> all_happy c n acts ->
  NI (nrun c n acts) /\ HN (nrun c n acts) /\ HL (nrun c n acts).
Proof.
  induction acts as [|a acts IH]; intros n HNI HHN HHL Hok Hh; cbn [nrun]; [split; [assumption|split; assumption]|].
  destruct Hok as (Hok & Hrest). destruct Hh as (Hh & Hhrest).
  apply IH; [apply (NI_step c honest input Hwf Hscaled (Hinput honest input v Hv Hunanimous)); assumption
            |apply (happy_step c honest input v Hwf Hrr Hv Hunanimous); assumption|apply HL_step; assumption|exact Hrest|exact Hhrest].
Qed.

(* ---------- "delivered" in terms of the receiver's state: recorded in the tally, or the receiver is done ---------- *)
Definition rcd (n : net) (k s : Z) (p : phase) : Prop := i_phase (n_inst n k) = TERMINATED \/ In s (sndrs (n_inst n k) p).

Lemma deliver_effect n k now m sway : NI n -> HN n -> aok c honest n (ADeliver k now m sway) -> happy_act n (ADeliver k now m sway) ->
  let i := n_inst n k in let i' := n_inst (nstep c n (ADeliver k now m sway)) k in
  (i_phase i = TERMINATED /\ (forall p, sndrs i' p = sndrs i p) /\ i_phase i' = TERMINATED) \/
  (i_phase i <> TERMINATED /\ forall p, sndrs i' p = if phase_eqb p (m_phase m) then addz (m_sender m) (sndrs i p) else sndrs i p).
Proof.
  intros HNI (HV & HS) Hok Hh. cbn [happy_act] in Hh. destruct Hok as (Hm & Hph & Hadm). cbn [nstep]. unfold node_step. cbn [n_inst]. rewrite upd_same.
  pose proof (HS k Hm Hph) as S0.
  destruct HNI as (_ & HNI). destruct (HNI k Hm) as (HB & _ & Hf). destruct (Hf Hph) as (Hfull & _).
  pose proof (Full_step c Hwf (n_inst n k) (EvDeliver now m sway) Hfull (adm_ev_okb c honest (n_votes n) (EvDeliver now m sway) Hadm)) as Hf'.
  assert (He : i_err (step c (clear_out (n_inst n k)) (EvDeliver now m sway)) = None) by (destruct Hf' as (_ & _ & _ & _ & E); exact E).
  assert (He0 : i_err (clear_out (n_inst n k)) = None) by (destruct Hfull as (_ & _ & _ & _ & E); exact E).
  pose proof (adm_vmsg c honest input v Hv Hunanimous (n_votes n) m HV Hadm) as Hvm.
  pose proof (step_effect c v Hv Hwf Hrr (clear_out (n_inst n k)) now m sway (shape_clear_out c v _ S0) Hh Hvm He0 He) as SE.
  cbv zeta in *. destruct SE as [(A & B & C & D)|(A & B & C & D)].
  - left. split; [exact A|]. split; [exact B|exact C].
  - right. split; [exact A|exact B].
Qed.

Lemma rcd_step n a k s p : NI n -> HN n -> aok c honest n a -> happy_act n a -> member k -> rcd n k s p -> rcd (nstep c n a) k s p.
Proof.
  intros HNI HHN Hok Hh Hk Hr. destruct a as [k' now|k' now m sway|k' now sway|x]; cbn [happy_act] in Hh; try contradiction.
  - destruct (Z.eq_dec k k') as [->|Hne].
    + exfalso. destruct Hok as (Hm & Hph). destruct HNI as (_ & HNI). destruct (HNI k' Hm) as (_ & Hnew & _).
      unfold rcd in Hr. rewrite (Hnew Hph) in Hr. destruct Hr as [Hr|Hr]; [discriminate Hr|destruct p; cbn in Hr; exact Hr].
    + unfold rcd in *. cbn [nstep]. unfold node_step. cbn [n_inst]. rewrite upd_other by exact Hne. exact Hr.
  - destruct (Z.eq_dec k k') as [->|Hne].
    + pose proof (deliver_effect n k' now m sway HNI HHN Hok Hh) as DE. cbv zeta in DE. unfold rcd in *.
      destruct DE as [(A & B & C)|(A & B)]; [left; exact C|].
      destruct Hr as [Hr|Hr]; [contradiction|]. right. rewrite (B p).
      destruct (phase_eqb p (m_phase m)); [apply addz_In; right; exact Hr|exact Hr].
    + unfold rcd in *. cbn [nstep]. unfold node_step. cbn [n_inst]. rewrite upd_other by exact Hne. exact Hr.
Qed.
Lemma rcd_deliver n k now m sway : NI n -> HN n -> aok c honest n (ADeliver k now m sway) -> happy_act n (ADeliver k now m sway) ->
  rcd (nstep c n (ADeliver k now m sway)) k (m_sender m) (m_phase m).
Proof.
  intros HNI HHN Hok Hh. pose proof (deliver_effect n k now m sway HNI HHN Hok Hh) as DE. cbv zeta in DE. unfold rcd.
  destruct DE as [(A & B & C)|(A & B)]; [left; exact C|]. right. rewrite (B (m_phase m)).
  replace (phase_eqb (m_phase m) (m_phase m)) with true by (symmetry; unfold phase_eqb; apply Z.eqb_refl).
  apply addz_In. left. reflexivity.
Qed.

(* the schedule contains a delivery to k of s's vote of step p *)
Definition delivered (acts : list action) (k s : Z) (p : phase) : Prop :=
  exists now m sway, In (ADeliver k now m sway) acts /\ m_sender m = s /\ m_phase m = p.

Lemma delivered_rcd acts k s p : member k -> forall n, NI n -> HN n -> HL n -> all_ok c honest n acts -> all_happy c n acts ->
  delivered acts k s p \/ rcd n k s p -> rcd (nrun c n acts) k s p.
Proof.
  intros Hk. induction acts as [|a acts IH]; intros n HNI HHN HHL Hok Hh Hd; cbn [nrun].
  - destruct Hd as [(now & m & sway & [] & _)|Hd]. exact Hd.
  - destruct Hok as (Hok & Hrest). destruct Hh as (Hh & Hhrest).
    apply IH; [apply (NI_step c honest input Hwf Hscaled (Hinput honest input v Hv Hunanimous)); assumption
              |apply (happy_step c honest input v Hwf Hrr Hv Hunanimous); assumption|apply HL_step; assumption|exact Hrest|exact Hhrest|].
    destruct Hd as [(now & m & sway & [Ha|Hin] & Es & Ep)|Hd].
    + right. subst a s p. apply rcd_deliver; assumption.
    + left. exists now, m, sway. repeat split; assumption.
    + right. apply rcd_step; assumption.
Qed.

(* ---------- saturation => everybody has decided ---------- *)
Definition saturated (n : net) : Prop :=
  forall k s p, member k -> member s -> four p -> In (voteS s 0 p v) (n_votes n) -> rcd n k s p.

Theorem saturated_decided n : NI n -> HN n -> HL n ->
  (forall k, member k -> i_phase (n_inst n k) <> INITIAL) -> saturated n ->
  forall k, member k -> i_phase (n_inst n k) = TERMINATED /\ exists j, i_term (n_inst n k) = Some j /\ j_value j = v.
Proof.
  intros HNI (HV & HS) HHL Hst Hsat.
  destruct (committee_wf_ok c Hwf) as (Htot & Hpow & Hsum).
  assert (full : forall p, four p -> (forall s, member s -> In (voteS s 0 p v) (n_votes n)) ->
            forall k, member k -> i_phase (n_inst n k) <> TERMINATED ->
            In k (sndrs (n_inst n k) p) /\ strong (sum_power c (sndrs (n_inst n k) p)) = true).
  { intros p Hp Hall k Hk Hnt.
    assert (Hincl : incl hs (sndrs (n_inst n k) p)).
    { intros s Hs. apply Hhs in Hs. destruct (Hsat k s p Hk Hs Hp (Hall s Hs)) as [H|H]; [contradiction|exact H]. }
    split; [apply Hincl; apply Hhs; exact Hk|].
    apply (strong_mono c Htot Hpow (sum_power c hs)); [|exact Hhstrong].
    exact (sum_sub (power_of c) Hpow hs _ Hhnd Hincl). }
  assert (L : forall k, member k -> HLk (n_votes n) k (n_inst n k)) by (intros k Hk; exact (HHL k Hk (Hst k Hk))).
  assert (Sh : forall k, member k -> shape (n_inst n k)) by (intros k Hk; exact (HS k Hk (Hst k Hk))).
  (* nobody is still in QUALITY *)
  assert (notq : forall k, member k -> i_phase (n_inst n k) <> QUALITY).
  { intros k Hk Hq. destruct (full QUALITY (or_introl eq_refl) (fun s Hs => hl_q _ _ _ (L s Hs)) k Hk ltac:(congruence)) as (A & B).
    pose proof (hl_j _ _ _ (L k Hk)) as J. rewrite Hq in J. rewrite (J (or_introl eq_refl) A) in B. discriminate B. }
  (* one late member makes everybody late; and if everybody is late, everybody has terminated *)
  assert (lateall : forall k0, member k0 -> late (n_inst n k0) -> forall k, member k -> late (n_inst n k)).
  { intros k0 Hk0 Hl k Hk. pose proof (hl_d _ _ _ (L k0 Hk0) Hl) as Hd.
    destruct (Hsat k k0 DECIDE Hk Hk0 (or_intror (or_intror (or_intror eq_refl))) Hd) as [H|H]; [right; exact H|].
    apply (hl_dec _ _ _ (L k Hk)). intros E0. rewrite E0 in H. exact H. }
  assert (allterm : (forall s, member s -> late (n_inst n s)) -> forall k, member k -> i_phase (n_inst n k) = TERMINATED).
  { intros Hall k Hk. destruct (Hall k Hk) as [Hd|Ht]; [|exact Ht]. exfalso.
    destruct (full DECIDE (or_intror (or_intror (or_intror eq_refl))) (fun s Hs => hl_d _ _ _ (L s Hs) (Hall s Hs)) k Hk ltac:(congruence)) as (A & B).
    pose proof (hl_j _ _ _ (L k Hk)) as J. rewrite Hd in J. rewrite (J (or_intror (or_intror (or_intror eq_refl))) A) in B. discriminate B. }
  assert (term : forall k, member k -> i_phase (n_inst n k) = TERMINATED).
  { intros k Hk. pose proof (sh_phase c v _ (Sh k Hk)) as Vp.
    destruct Vp as [Vp|[Vp|[Vp|[Vp|Vp]]]].
    - exfalso. exact (notq k Hk Vp).
    - exfalso.
      assert (nolate : forall s, member s -> ~ late (n_inst n s)).
      { intros s Hs Hl. destruct (lateall s Hs Hl k Hk) as [H|H]; congruence. }
      assert (pc : forall s, member s -> i_phase (n_inst n s) = PREPARE \/ i_phase (n_inst n s) = COMMIT).
      { intros s Hs. pose proof (sh_phase c v _ (Sh s Hs)) as Vs. destruct Vs as [Vs|[Vs|[Vs|[Vs|Vs]]]];
          [exfalso; exact (notq s Hs Vs)|left; exact Vs|right; exact Vs|exfalso; apply (nolate s Hs); left; exact Vs|exfalso; apply (nolate s Hs); right; exact Vs]. }
      destruct (full PREPARE (or_intror (or_introl eq_refl)) (fun s Hs => hl_p _ _ _ (L s Hs) (pc s Hs)) k Hk ltac:(congruence)) as (A & B).
      pose proof (hl_j _ _ _ (L k Hk)) as J. rewrite Vp in J. rewrite (J (or_intror (or_introl eq_refl)) A) in B. discriminate B.
    - exfalso.
      assert (nolate : forall s, member s -> ~ late (n_inst n s)).
      { intros s Hs Hl. destruct (lateall s Hs Hl k Hk) as [H|H]; congruence. }
      assert (pc : forall s, member s -> i_phase (n_inst n s) = PREPARE \/ i_phase (n_inst n s) = COMMIT).
      { intros s Hs. pose proof (sh_phase c v _ (Sh s Hs)) as Vs. destruct Vs as [Vs|[Vs|[Vs|[Vs|Vs]]]];
          [exfalso; exact (notq s Hs Vs)|left; exact Vs|right; exact Vs|exfalso; apply (nolate s Hs); left; exact Vs|exfalso; apply (nolate s Hs); right; exact Vs]. }
      assert (allc : forall s, member s -> i_phase (n_inst n s) = COMMIT).
      { intros s Hs. destruct (pc s Hs) as [Hp|Hc]; [|exact Hc]. exfalso.
        destruct (full PREPARE (or_intror (or_introl eq_refl)) (fun s Hs => hl_p _ _ _ (L s Hs) (pc s Hs)) s Hs ltac:(congruence)) as (A & B).
        pose proof (hl_j _ _ _ (L s Hs)) as J. rewrite Hp in J. rewrite (J (or_intror (or_introl eq_refl)) A) in B. discriminate B. }
      destruct (full COMMIT (or_intror (or_intror (or_introl eq_refl))) (fun s Hs => hl_c _ _ _ (L s Hs) (allc s Hs)) k Hk ltac:(congruence)) as (A & B).
      pose proof (hl_j _ _ _ (L k Hk)) as J. rewrite Vp in J. rewrite (J (or_intror (or_intror (or_introl eq_refl))) A) in B. discriminate B.
    - apply allterm; [|exact Hk]. intros s Hs. apply (lateall k Hk); [left; exact Vp|exact Hs].
    - exact Vp. }
  intros k Hk. split; [exact (term k Hk)|].
  pose proof (hl_t _ _ _ (L k Hk) (term k Hk)) as Ht. destruct (i_term (n_inst n k)) as [j|] eqn:Ej; [|contradiction].
  exists j. split; [reflexivity|]. exact (sh_term c v _ (Sh k Hk) j Ej).
Qed.

(* ---------- the statement over schedules ----------
   every honest member proposes v and together they hold a strong quorum; no faulty vote, no timer, deliveries timely
   (all_happy).  If every honest member has started and every vote cast has been delivered to every honest member --
   in whatever order, interleaved in whatever way with the starts -- then every honest member has decided v. *)
Theorem happy_all_decide acts :
  all_ok c honest (net0 input) acts -> all_happy c (net0 input) acts ->
  let n := nrun c (net0 input) acts in
  (forall k, member k -> i_phase (n_inst n k) <> INITIAL) ->
  (forall k s p, member k -> member s -> four p -> In (voteS s 0 p v) (n_votes n) -> delivered acts k s p) ->
  forall k, member k -> i_phase (n_inst n k) = TERMINATED /\ exists j, i_term (n_inst n k) = Some j /\ j_value j = v.
Proof.
  intros Hok Hh n Hst Hdel.
  destruct (live_run acts (net0 input) (NI_net0 c honest input) (HN_net0 c honest input v) HL_net0 Hok Hh) as (HNI & HHN & HHL).
  apply saturated_decided; try assumption.
  intros k s p Hk Hs Hp Hin.
  apply (delivered_rcd acts k s p Hk (net0 input) (NI_net0 c honest input) (HN_net0 c honest input v) HL_net0 Hok Hh).
  left. exact (Hdel k s p Hk Hs Hp Hin).
Qed.
End Net.

(* ---------- executable form of the delivery hypothesis (for the non-vacuity example) ---------- *)
Definition deliveredb (acts : list action) (k s : Z) (p : phase) : bool :=
  existsb (fun a => match a with
                    | ADeliver k' _ m _ => (k' =? k) && (m_sender m =? s) && phase_eqb (m_phase m) p
                    | _ => false end) acts.
Lemma deliveredb_sound acts k s p : deliveredb acts k s p = true -> delivered acts k s p.
Proof.
  unfold deliveredb. rewrite existsb_exists. intros (a & Hin & Ha). destruct a as [|k' now m sway| |]; try discriminate Ha.
  apply andb_true_iff in Ha. destruct Ha as [Ha Hp]. apply andb_true_iff in Ha. destruct Ha as [Hk Hs].
  apply Z.eqb_eq in Hk. apply Z.eqb_eq in Hs. apply HappyNet.phase_eqb_true in Hp. subst k' s p.
  exists now, m, sway. repeat split. exact Hin.
Qed.
