(* Proofs about the GENERATED quorum arithmetic (Gen/QuorumGen.v, regenerated from
   gpbft/gpbft.go and gpbft/powertable.go on every run). *)
From Coq Require Import ZArith Lia Bool List.
From F3 Require Import GoInt QuorumGen.
Import ListNotations.
Open Scope Z_scope.

Ltac Zify.zify_post_hook ::= Z.to_euclidean_division_equations.

Definition two62 : Z := 4611686018427387904.

Ltac unwrap :=
  unfold add_i64, sub_i64, mul_i64, quo_i64, rem_i64 in *;
  repeat match goal with
  | |- context [wrap_i64 ?x] => rewrite (wrap_i64_id x) by (unfold in_i64, two63; lia)
  end.

Lemma divCeil_3_spec a : 0 <= a < two63 - 1 ->
  3 * divCeil a 3 >= a /\ 3 * divCeil a 3 < a + 3.
Proof.
  intros H. unfold divCeil, two63 in *. unwrap.
  destruct (Z.eqb (Z.rem a 3) 0) eqn:E; cbn [negb].
  - apply Z.eqb_eq in E. lia.
  - apply Z.eqb_neq in E. unwrap. lia.
Qed.

(* strong quorum  <->  at least two thirds, on the whole non-overflowing domain *)
Theorem strong_iff part whole : 0 <= whole < two62 ->
  isStrongQuorum part whole = true <-> 3 * part >= 2 * whole.
Proof.
  intros H. unfold isStrongQuorum, two62 in *.
  assert (Hm : mul_i64 2 whole = 2 * whole).
  { unfold mul_i64. apply wrap_i64_id. unfold in_i64, two63. lia. }
  rewrite Hm.
  pose proof (divCeil_3_spec (2 * whole) ltac:(unfold two63; lia)) as [H1 H2].
  rewrite Z.geb_le. lia.
Qed.

(* the int64 hazard of 2*whole is real outside that domain (kept visible) *)
Theorem strong_overflow_refuted :
  exists part whole, 0 <= whole /\ isStrongQuorum part whole = true /\ ~ (3 * part >= 2 * whole).
Proof. exists 0, two62. split; [unfold two62; lia|]. split; [vm_compute; reflexivity|]. unfold two62. lia. Qed.

Theorem weak_gt_third part whole : 0 <= whole < two63 - 1 ->
  hasWeakQuorum part whole = true -> 3 * part > whole.
Proof.
  intros H Hw. unfold hasWeakQuorum in Hw.
  pose proof (divCeil_3_spec whole H) as [H1 H2].
  apply Z.gtb_lt in Hw. lia.
Qed.

Theorem weak_iff part whole : 0 <= whole < two63 - 1 ->
  hasWeakQuorum part whole = true <-> (3 * part > whole + 2 \/ (3 * part > whole /\ 3 * (part - 1) >= whole)).
Proof.
  intros H. unfold hasWeakQuorum.
  pose proof (divCeil_3_spec whole H) as [H1 H2].
  rewrite Z.gtb_lt. lia.
Qed.

(* two strong quorums overlap in at least one third of the total *)
Theorem strong_intersect a b whole : 0 <= whole < two62 -> a <= whole -> b <= whole ->
  isStrongQuorum a whole = true -> isStrongQuorum b whole = true ->
  3 * (a + b - whole) >= whole.
Proof.
  intros H Ha Hb Sa Sb. apply strong_iff in Sa; auto. apply strong_iff in Sb; auto. lia.
Qed.

Corollary strong_intersect_exceeds_faulty a b whole f : 0 <= whole < two62 -> a <= whole -> b <= whole ->
  3 * f < whole ->
  isStrongQuorum a whole = true -> isStrongQuorum b whole = true -> a + b - whole > f.
Proof. intros. pose proof (strong_intersect a b whole); lia. Qed.

(* a weak quorum against v excludes a strong quorum among the rest *)
Theorem weak_blocks_strong p whole : 0 <= whole < two62 -> 0 <= p <= whole ->
  hasWeakQuorum p whole = true -> isStrongQuorum (whole - p) whole = false.
Proof.
  intros H Hp Hw. apply weak_gt_third in Hw; [|unfold two62, two63 in *; lia].
  destruct (isStrongQuorum (whole - p) whole) eqn:E; auto.
  apply strong_iff in E; auto. lia.
Qed.

(* could-reach: a "false" answer is sound — no completion of the tally reaches a
   strong quorum.  support = power already voting for the value (0 if none),
   senders = power of everybody who voted in this (round, phase), total = scaled total. *)
Theorem could_reach_sound support found senders total :
  0 <= total <= 65535 -> 0 <= support <= senders -> senders <= total ->
  couldReachStrongQuorumFor false support found senders total = false ->
  forall extra, 0 <= extra <= total - senders ->
    isStrongQuorum ((if found then support else 0) + extra) total = false.
Proof.
  intros Ht Hs Hse Hc extra He.
  unfold couldReachStrongQuorumFor in Hc. cbv zeta in Hc.
  assert (Hw : forall x, -two62 <= x < two62 -> wrap_i64 x = x).
  { intros x Hx. apply wrap_i64_id. unfold in_i64, two63, two62 in *. lia. }
  unfold add_i64, sub_i64 in Hc.
  destruct (isStrongQuorum ((if found then support else 0) + extra) total) eqn:E; auto.
  apply strong_iff in E; [|unfold two62; lia].
  exfalso.
  destruct found; repeat match type of Hc with context [wrap_i64 ?x] => rewrite (Hw x) in Hc by (unfold two62; lia) end.
  - destruct (isStrongQuorum (Z.min (support + (total - senders) + 0) total) total) eqn:F; [discriminate|].
    assert (isStrongQuorum (Z.min (support + (total - senders) + 0) total) total = true).
    { apply strong_iff; [unfold two62; lia|]. lia. }
    congruence.
  - destruct (isStrongQuorum (Z.min (0 + (total - senders) + 0) total) total) eqn:F; [discriminate|].
    assert (isStrongQuorum (Z.min (0 + (total - senders) + 0) total) total = true).
    { apply strong_iff; [unfold two62; lia|]. lia. }
    congruence.
Qed.

(* with the adversary allowance: also sound when up to total/3 of the already-counted
   senders may additionally (double-)vote for the value *)
Theorem could_reach_sound_adv support found senders total :
  0 <= total <= 65535 -> 0 <= support <= senders -> senders <= total ->
  couldReachStrongQuorumFor true support found senders total = false ->
  forall extra adv, 0 <= extra <= total - senders -> 0 <= 3 * adv <= total ->
    isStrongQuorum (Z.min ((if found then support else 0) + extra + adv) total) total = false.
Proof.
  intros Ht Hs Hse Hc extra adv He Ha.
  unfold couldReachStrongQuorumFor in Hc. cbv zeta in Hc.
  assert (Hw : forall x, -two62 <= x < two62 -> wrap_i64 x = x).
  { intros x Hx. apply wrap_i64_id. unfold in_i64, two63, two62 in *. lia. }
  unfold add_i64, sub_i64, quo_i64 in Hc.
  match goal with |- ?g = false => destruct g eqn:E; auto end.
  apply strong_iff in E; [|unfold two62; lia].
  exfalso.
  destruct found; repeat match type of Hc with context [wrap_i64 ?x] => rewrite (Hw x) in Hc by (unfold two62; lia) end.
  - match type of Hc with ?g = false => assert (g = true) end; [|congruence].
    apply strong_iff; [unfold two62; lia|]. lia.
  - match type of Hc with ?g = false => assert (g = true) end; [|congruence].
    apply strong_iff; [unfold two62; lia|]. lia.
Qed.

(* never more than the total is considered *)
Theorem could_reach_complete support found senders total adv :
  0 <= total <= 65535 -> 0 <= support <= senders -> senders <= total ->
  couldReachStrongQuorumFor adv support found senders total = true ->
  3 * ((if found then support else 0) + (total - senders) + (if adv then Z.quot total 3 else 0)) >= 2 * total.
Proof.
  intros Ht Hs Hse Hc.
  unfold couldReachStrongQuorumFor in Hc. cbv zeta in Hc.
  assert (Hw : forall x, -two62 <= x < two62 -> wrap_i64 x = x).
  { intros x Hx. apply wrap_i64_id. unfold in_i64, two63, two62 in *. lia. }
  unfold add_i64, sub_i64, quo_i64 in Hc.
  destruct found, adv; repeat match type of Hc with context [wrap_i64 ?x] => rewrite (Hw x) in Hc by (unfold two62; lia) end;
  apply strong_iff in Hc; try (unfold two62; lia); lia.
Qed.

(* ---------- power scaling ---------- *)

(* model of PowerEntries.Scaled / PowerTable.rescale over the translated scalePower *)
Definition sumZ (l : list Z) : Z := fold_right Z.add 0 l.
Definition scaled_of (total : Z) (p : Z) : Z := fst (scalePower p total).
Definition scaled_list (ps : list Z) : list Z := map (scaled_of (sumZ ps)) ps.

Lemma scalePower_ok p total : 0 < p <= total ->
  scalePower p total = ((65535 * p) / total, None) /\ 0 <= (65535 * p) / total <= 65535.
Proof.
  intros H. unfold scalePower.
  assert (Z.ltb total p = false) as -> by (apply Z.ltb_ge; lia).
  assert (0 <= 65535 * p / total <= 65535).
  { split. apply Z.div_pos; lia. apply Z.div_le_upper_bound; lia. }
  split; auto. unfold big_int64, big_div. rewrite wrap_i64_id; auto.
  unfold in_i64, two63. lia.
Qed.

Lemma sumZ_pos_ge l x : (forall y, In y l -> 0 < y) -> In x l -> x <= sumZ l.
Proof.
  induction l as [|a l IH]; simpl; intros Hp Hin; [tauto|].
  assert (0 <= sumZ l).
  { clear -Hp. induction l; simpl; [lia|]. assert (0 < a0) by (apply Hp; simpl; auto).
    assert (0 <= sumZ l) by (apply IHl; intros; apply Hp; simpl in *; tauto). lia. }
  destruct Hin as [->|Hin]. lia.
  assert (0 < a) by (apply Hp; simpl; auto).
  assert (x <= sumZ l) by (apply IH; auto; intros; apply Hp; simpl; auto). lia.
Qed.

Theorem scaled_bounds ps s : (forall y, In y ps -> 0 < y) -> In s (scaled_list ps) -> 0 <= s <= 65535.
Proof.
  intros Hp Hin. unfold scaled_list in Hin. apply in_map_iff in Hin. destruct Hin as [p [<- Hin]].
  unfold scaled_of. pose proof (sumZ_pos_ge ps p Hp Hin). assert (0 < p) by auto.
  destruct (scalePower_ok p (sumZ ps)) as [-> Hb]; [lia|]. exact Hb.
Qed.

Lemma sum_div_le (T : Z) (l : list Z) : 0 < T -> (forall y, In y l -> 0 <= y) ->
  sumZ (map (fun p => (65535 * p) / T) l) * T <= 65535 * sumZ l.
Proof.
  intros HT. unfold sumZ. induction l as [|a l IH]; cbn [map fold_right]; intros Hp; [lia|].
  assert (H : fold_right Z.add 0 (map (fun p => 65535 * p / T) l) * T <= 65535 * fold_right Z.add 0 l)
    by (apply IH; intros; apply Hp; simpl; auto).
  pose proof (Z.mul_div_le (65535 * a) T HT) as H0.
  set (q := 65535 * a / T) in *. set (S := fold_right Z.add 0 (map (fun p => 65535 * p / T) l)) in *.
  set (L := fold_right Z.add 0 l) in *.
  clearbody q S L. clear IH Hp. nia.
Qed.

Theorem scaled_sum_le ps : (forall y, In y ps -> 0 < y) -> sumZ (scaled_list ps) <= 65535.
Proof.
  intros Hp. destruct ps as [|p0 ps']; [simpl; lia|].
  set (ps := p0 :: ps') in *.
  assert (HT : 0 < sumZ ps).
  { assert (0 < p0) by (apply Hp; simpl; auto). pose proof (sumZ_pos_ge ps p0 Hp ltac:(simpl; auto)). lia. }
  assert (E : scaled_list ps = map (fun p => (65535 * p) / sumZ ps) ps).
  { unfold scaled_list. apply map_ext_in. intros p Hin. unfold scaled_of.
    destruct (scalePower_ok p (sumZ ps)) as [-> _]; auto.
    split; [auto | apply sumZ_pos_ge; auto]. }
  rewrite E.
  pose proof (sum_div_le (sumZ ps) ps HT ltac:(intros y Hy; apply Hp in Hy; lia)).
  nia.
Qed.

Theorem scaled_monotone ps p q : (forall y, In y ps -> 0 < y) -> In p ps -> In q ps -> p <= q ->
  scaled_of (sumZ ps) p <= scaled_of (sumZ ps) q.
Proof.
  intros Hp Hi Hj Hle. unfold scaled_of.
  pose proof (sumZ_pos_ge ps p Hp Hi). pose proof (sumZ_pos_ge ps q Hp Hj).
  assert (0 < p) by auto. assert (0 < q) by auto.
  destruct (scalePower_ok p (sumZ ps)) as [-> _]; [lia|].
  destruct (scalePower_ok q (sumZ ps)) as [-> _]; [lia|]. cbn [fst].
  apply Z.div_le_mono; [lia | nia].
Qed.

(* scalePower refuses (error) exactly when the part exceeds the total *)
Theorem scalePower_err p total : snd (scalePower p total) <> None <-> total < p.
Proof.
  unfold scalePower. destruct (Z.ltb total p) eqn:E; simpl.
  - apply Z.ltb_lt in E. split; auto; congruence.
  - apply Z.ltb_ge in E. split; [congruence | lia].
Qed.

(* no intermediate of the three predicates overflows on the scaled-power domain *)
Theorem no_overflow part whole : 0 <= whole <= 65535 -> 0 <= part <= whole ->
  mul_i64 2 whole = 2 * whole /\
  divCeil (2 * whole) 3 = (2 * whole + 2) / 3 /\
  divCeil whole 3 = (whole + 2) / 3.
Proof.
  intros Hw Hp. split; [|split].
  - unfold mul_i64. apply wrap_i64_id. unfold in_i64, two63. lia.
  - pose proof (divCeil_3_spec (2 * whole) ltac:(unfold two63; lia)). lia.
  - pose proof (divCeil_3_spec whole ltac:(unfold two63; lia)). lia.
Qed.

(* non-vacuity *)
Example strong_example : isStrongQuorum 43690 65535 = true /\ isStrongQuorum 43689 65535 = false.
Proof. split; vm_compute; reflexivity. Qed.
Example scaled_example : scaled_list [1; 1; 1] = [21845; 21845; 21845] /\ scaled_list [2^200; 1] = [65534; 0].
Proof. split; vm_compute; reflexivity. Qed.
