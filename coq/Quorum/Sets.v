(* Quorum intersection over duplicate-free signer lists (weights from any non-negative power function). *)
From Coq Require Import ZArith Lia Bool List Arith.
From F3 Require Import GoInt QuorumGen QuorumProofs.
Import ListNotations.
Open Scope Z_scope.

Section Sets.
Variable pw : nat -> Z.
Hypothesis pw_nonneg : forall n, 0 <= pw n.

Fixpoint wsum (l : list nat) : Z := match l with [] => 0 | x :: t => pw x + wsum t end.

Lemma wsum_nonneg l : 0 <= wsum l.
Proof. induction l; simpl; [lia|]. pose proof (pw_nonneg a); lia. Qed.

Lemma wsum_app l1 l2 : wsum (l1 ++ l2) = wsum l1 + wsum l2.
Proof. induction l1; simpl; lia. Qed.

Lemma wsum_filter_split (f : nat -> bool) l :
  wsum l = wsum (filter f l) + wsum (filter (fun n => negb (f n)) l).
Proof. induction l; simpl; [lia|]. destruct (f a); simpl; lia. Qed.

Lemma wsum_incl_nodup : forall A B, NoDup A -> incl A B -> wsum A <= wsum B.
Proof.
  induction A as [|a A IH]; intros B HA Hi; simpl. { apply wsum_nonneg. }
  inversion HA; subst.
  assert (Hin : In a B) by (apply Hi; left; auto).
  apply in_split in Hin. destruct Hin as [l1 [l2 ->]].
  assert (E : wsum (l1 ++ a :: l2) = pw a + wsum (l1 ++ l2)).
  { rewrite !wsum_app. simpl. lia. }
  rewrite E.
  assert (wsum A <= wsum (l1 ++ l2)).
  { apply IH; auto.
    intros x Hx. assert (Hx' : In x (l1 ++ a :: l2)) by (apply Hi; right; auto).
    apply in_app_or in Hx'. apply in_or_app. destruct Hx' as [|[|]]; auto. subst; contradiction. }
  lia.
Qed.

Definition memb (x : nat) (l : list nat) : bool := existsb (Nat.eqb x) l.
Lemma memb_true x l : memb x l = true <-> In x l.
Proof.
  unfold memb. rewrite existsb_exists. split.
  - intros [y [Hy E]]. apply Nat.eqb_eq in E. subst; auto.
  - intros H. exists x. split; auto. apply Nat.eqb_refl.
Qed.

Lemma nodup_app_disj (l1 l2 : list nat) :
  NoDup l1 -> NoDup l2 -> (forall x, In x l1 -> ~ In x l2) -> NoDup (l1 ++ l2).
Proof.
  induction l1 as [|a l1 IH]; simpl; intros H1 H2 Hd; auto.
  inversion H1; subst. constructor.
  - intro Hin. apply in_app_or in Hin. destruct Hin; [contradiction|]. apply (Hd a); auto.
  - apply IH; auto.
Qed.

Lemma inter_bound committee A B : NoDup A -> NoDup B -> incl A committee -> incl B committee ->
  wsum A + wsum B <= wsum committee + wsum (filter (fun x => memb x B) A).
Proof.
  intros HA HB IA IB.
  rewrite (wsum_filter_split (fun x => memb x B) A).
  assert (wsum (filter (fun n => negb (memb n B)) A ++ B) <= wsum committee).
  { apply wsum_incl_nodup.
    - apply nodup_app_disj; auto. { apply NoDup_filter; auto. }
      intros x Hx. apply filter_In in Hx. destruct Hx as [_ Hx].
      apply negb_true_iff in Hx. intro Hin. apply memb_true in Hin. congruence.
    - intros x Hx. apply in_app_or in Hx. destruct Hx as [Hx|Hx]; auto.
      apply filter_In in Hx. apply IA. tauto. }
  rewrite wsum_app in H. lia.
Qed.

Theorem signer_sets_intersect_sec committee A B :
  NoDup committee -> NoDup A -> NoDup B -> incl A committee -> incl B committee ->
  0 <= wsum committee < two62 ->
  isStrongQuorum (wsum A) (wsum committee) = true ->
  isStrongQuorum (wsum B) (wsum committee) = true ->
  3 * wsum (filter (fun x => existsb (Nat.eqb x) B) A) >= wsum committee.
Proof.
  intros _ HA HB IA IB Ht SA SB.
  apply strong_iff in SA; auto. apply strong_iff in SB; auto.
  pose proof (inter_bound committee A B HA HB IA IB) as Hb. unfold memb in Hb. lia.
Qed.
End Sets.

Definition signer_sets_intersect (pw : nat -> Z) (committee A B : list nat)
  (Hn : forall n, 0 <= pw n) := signer_sets_intersect_sec pw Hn committee A B.
