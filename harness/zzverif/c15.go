//go:build verif

package main

import (
	"path/filepath"
	"os"
	"bytes"
	"context"
	"fmt"
	"strings"
	"time"

	f3 "github.com/filecoin-project/go-f3"
	"github.com/filecoin-project/go-f3/certs"
	"github.com/filecoin-project/go-f3/gpbft"
	"github.com/filecoin-project/go-f3/internal/clock"
	"github.com/filecoin-project/go-f3/manifest"
)

func init() { runners["C15"] = runC15 }

// C15: proposals extend the finalized head along EC; committees derive from finality
// rosterVerifier records the key list the committee's aggregate is pre-computed over
type rosterVerifier struct {
	gpbft.Verifier
	last []gpbft.PubKey
}

func (v *rosterVerifier) Aggregate(keys []gpbft.PubKey) (gpbft.Aggregate, error) {
	v.last = append([]gpbft.PubKey{}, keys...)
	return v.Verifier.Aggregate(keys)
}

func runC15(o *out, r *rng, thorough bool, rp string) {
	n := 80
	if thorough {
		n = 600
	}
	runInputs(o, r, n, "c15")
	o.finish("From F3 Require Import Proposal ProposalRun.")
}

// runInputsRoster: the same executions of the real gpbftInputs, for the sake of ONE monitor (C03): the aggregate a
// participant signs and verifies with is computed over the SAME key list as the one certificate validation uses (all
// entries of the power table, in table order, members without effective power included)
func runInputsRoster(o *out, r *rng, n int, prefix string) {
	scratch := newOut("scratch", o.Seed, o.Tier, filepath.Join(o.dir, "inputs-scratch"))
	runInputs(scratch, r, n, prefix)
	for _, v := range scratch.Violations {
		if strings.HasPrefix(v.Signature, prefix+"-aggregate-roster") {
			o.Violations = append(o.Violations, v)
		}
	}
	o.Dist["committees-roster-checked"] += scratch.Dist["committees-roster-checked"]
	o.Dist["committees-with-powerless-members"] += scratch.Dist["committees-with-powerless-members"]
	os.RemoveAll(filepath.Join(o.dir, "inputs-scratch"))
}

func runInputs(o *out, r *rng, n int, prefix string) {
	o.Rule = "random EC block trees (null rounds, forks before / at / after the base, heads on the main chain, on a fork, behind the base, chains longer than 128), certificate histories stored in a real certstore whose chains are segments of the finalized line, manifests with head-lookback 0..3, proposal length 1..200, committee look-back 1..3, initial instance 0 or 7, clock positions around the freshness bound; the real gpbftInputs (accessor over the model EC backend) is asked for the proposal and committee of every instance the store allows; results are compared with the Proposal.v model inside Coq and with the clauses of the property evaluated on the tree; non-trivial = the head is not the base and a certificate exists"
	ctx := context.Background()
	t := newTok()
	for hi := 0; hi < n; hi++ {
		g := newCertGen(r, 3+r.intn(4), 0)
		if hi%3 == 1 {
			// a whale and a member whose power rounds down to nothing: part of the table, of the key list, never a signer
			g.table = sortEntries(append(append(gpbft.PowerEntries{}, g.table...), g.newEntry(1<<44), g.newEntry(1)))
		}
		rv := &rosterVerifier{Verifier: g.backend}
		mec := newModelEC()
		t0 := time.Unix(1_700_000_000, 0)
		// tables attached to EC tipsets (sorted entries so that the committee's table CID equals EC's)
		var ecTables []gpbft.PowerEntries
		for k := 0; k < 3; k++ {
			tb := genTable(r, 2+r.intn(4), 500+100*k)
			if hi%3 == 1 {
				tb = append(tb, gpbft.PowerEntry{ID: gpbft.ActorID(900 + k), Power: gpbft.NewStoragePower(1 << 44), PubKey: []byte(fmt.Sprintf("pubkey::%08x", 9000+k))},
					gpbft.PowerEntry{ID: gpbft.ActorID(950 + k), Power: gpbft.NewStoragePower(1), PubKey: []byte(fmt.Sprintf("pubkey::%08x", 9500+k))})
			}
			ecTables = append(ecTables, sortEntries(tb))
		}
		// main line
		long := r.chance(8)
		mainLen := 8 + r.intn(25)
		if long {
			mainLen = 140 + r.intn(30)
		}
		var line []*mTipset
		epoch := int64(90 + r.intn(10))
		parent := ""
		for i := 0; i < mainLen; i++ {
			ts := &mTipset{key: fmt.Sprintf("m%d", i), epoch: epoch, parent: parent, ts: t0.Add(time.Duration(epoch) * 30 * time.Second),
				pt: ecTables[r.intn(len(ecTables))], beacon: []byte(fmt.Sprintf("beacon-m%d", i))}
			mec.add(ts)
			line = append(line, ts)
			parent = ts.key
			epoch += int64(1 + r.intn(3)*r.intn(2)) // null rounds
		}
		// forks off the main line
		var forkHeads []*mTipset
		for f := 0; f < 1+r.intn(3); f++ {
			at := r.intn(len(line))
			p := line[at]
			ep := p.epoch
			for k := 0; k < 1+r.intn(4); k++ {
				ep += int64(1 + r.intn(2))
				ts := &mTipset{key: fmt.Sprintf("f%d-%d", f, k), epoch: ep, parent: p.key, ts: t0.Add(time.Duration(ep) * 30 * time.Second),
					pt: ecTables[r.intn(len(ecTables))], beacon: []byte(fmt.Sprintf("beacon-f%d-%d", f, k))}
				mec.add(ts)
				p = ts
			}
			forkHeads = append(forkHeads, p)
		}
		// manifest
		m := manifest.LocalDevnetManifest()
		m.NetworkName = verifNet
		m.InitialInstance = []uint64{0, 7}[r.intn(2)]
		m.CommitteeLookback = uint64(1 + r.intn(3))
		m.EC.HeadLookback = r.intn(4)
		m.EC.Period = 30 * time.Second
		m.Gpbft.ChainProposedLength = 1 + r.intn(12)
		if r.chance(15) {
			m.Gpbft.ChainProposedLength = 100 + r.intn(101)
		}
		baseIdx := r.intn(min(6, len(line)-2))
		m.EC.Finality = int64(5 + r.intn(20))
		m.BootstrapEpoch = line[baseIdx].epoch + m.EC.Finality
		if r.chance(30) && baseIdx+1 < len(line) && line[baseIdx+1].epoch > line[baseIdx].epoch+1 {
			m.BootstrapEpoch++ // the bootstrap epoch minus finality falls into a null round
		}
		// certificates along the finalized line
		cs, _ := newMemStore(ctx, m.InitialInstance, g.table)
		g.next = m.InitialInstance
		ncerts := r.intn(5)
		finIdx := baseIdx
		type certInfo struct{ headKey, baseKey string }
		stored := map[uint64]certInfo{}
		tables := map[uint64]gpbft.PowerEntries{m.InitialInstance: g.table}
		mkTs := func(x *mTipset) *gpbft.TipSet {
			c, err := certs.MakePowerTableCID(x.pt)
			must(err)
			return &gpbft.TipSet{Epoch: x.epoch, Key: x.Key(), PowerTable: c}
		}
		for k := 0; k < ncerts && finIdx < len(line)-1; k++ {
			adv := r.intn(4) // a base decision finalizes nothing new
			if finIdx+adv >= len(line) {
				adv = len(line) - 1 - finIdx
			}
			var tss []*gpbft.TipSet
			for i := finIdx; i <= finIdx+adv; i++ {
				tss = append(tss, mkTs(line[i]))
			}
			chain := &gpbft.ECChain{TipSets: tss}
			nt := g.evolve()
			ptc, err := certs.MakePowerTableCID(nt)
			must(err)
			supp := gpbft.SupplementalData{PowerTable: ptc}
			j := signDecision(g.backend, verifNet, g.table, g.next, supp, chain, minimalQuorum(r, g.table))
			c, err := certs.NewFinalityCertificate(certs.MakePowerTableDiff(g.table, nt), j)
			must(err)
			must(cs.Put(ctx, c))
			stored[g.next] = certInfo{headKey: line[finIdx+adv].key, baseKey: line[finIdx].key}
			g.table = nt
			g.next++
			tables[g.next] = nt
			finIdx += adv
		}
		// head
		headKind := "main"
		head := line[finIdx+r.intn(len(line)-finIdx)]
		switch r.intn(10) {
		case 0:
			head = line[len(line)-1]
			headKind = "main-tip"
		case 1, 2:
			head = forkHeads[r.intn(len(forkHeads))]
			headKind = "fork"
		case 3:
			if finIdx > 0 {
				head = line[r.intn(finIdx)]
				headKind = "behind-base"
			}
		case 4:
			head = line[finIdx]
			headKind = "at-base"
		}
		if finIdx >= 1 && r.chance(30) {
			// a fork that left the line BEFORE the finalized base and has a tipset at exactly the base's epoch
			p := line[finIdx-1]
			ep := line[finIdx].epoch
			for k := 0; k < 2+r.intn(3); k++ {
				ts := &mTipset{key: fmt.Sprintf("s%d", k), epoch: ep, parent: p.key, ts: t0.Add(time.Duration(ep) * 30 * time.Second),
					pt: ecTables[r.intn(len(ecTables))], beacon: []byte(fmt.Sprintf("beacon-s%d", k))}
				mec.add(ts)
				p = ts
				ep += int64(1 + r.intn(2))
			}
			head = p
			headKind = "fork-sibling-at-base-epoch"
		}
		mec.head = head.key
		clk := clock.NewMock()
		now := head.ts.Add(time.Duration(r.intn(90)) * time.Second)
		if r.chance(20) {
			now = head.ts.Add(30 * time.Second) // exactly one period
		}
		clk.Set(now)
		in := f3.VerifNewInputs(m, cs, mec, rv, clk)

		// ---------- model terms ----------
		keyTok := func(k string) int64 {
			if k == "" {
				return 0
			}
			return t.of("ts", []byte(k))
		}
		tblTok := func(pe gpbft.PowerEntries) int64 {
			c, err := certs.MakePowerTableCID(pe)
			must(err)
			return t.cid(c)
		}
		var ecTerm []string
		for _, x := range mec.byKey {
			ecTerm = append(ecTerm, fmt.Sprintf("(mkT %d %d %d %d %d %d %d)", keyTok(x.key), x.epoch, keyTok(x.parent), x.ts.Unix(), tblTok(x.pt), t.of("beacon", x.beacon), tblTok(x.pt)))
		}
		sortStrings(ecTerm)
		certFn := "(fun i => "
		tblFn := "(fun i => "
		closeP := ""
		for inst, ci := range stored {
			certFn += fmt.Sprintf("if i =? %d then Some (%d, %d) else ", inst, keyTok(ci.headKey), keyTok(ci.baseKey))
		}
		certFn += "None)"
		for inst, tb := range tables {
			tblFn += fmt.Sprintf("if i =? %d then Some %d else ", inst, tblTok(tb))
		}
		tblFn += "None)" + closeP
		cfgTerm := fmt.Sprintf("(mkCfg %d %d %d %d %d %d %d)", m.InitialInstance, m.BootstrapEpoch, m.EC.Finality, m.CommitteeLookback, m.EC.HeadLookback, int64(m.EC.Period/time.Second), m.Gpbft.ChainProposedLength)
		csTerm := fmt.Sprintf("(mkCerts %s %s %s)", certFn, tblFn, cBool(len(stored) > 0))
		desc := map[string]any{"head": head.String(), "head_kind": headKind, "finalized": line[finIdx].String(), "certs": len(stored), "initial": m.InitialInstance,
			"lookback": m.CommitteeLookback, "head_lookback": m.EC.HeadLookback, "proposed_len": m.Gpbft.ChainProposedLength, "now-head": now.Sub(head.ts).String()}
		viol := func(clause, sig, detail string) { o.violate(clause, sig, desc, detail) }

		// ancestors of the head (for the monitors)
		anc := map[string]int{}
		for x, i := head, 0; x != nil; x, i = mec.byKey[x.parent], i+1 {
			anc[x.key] = i
		}
		for inst := m.InitialInstance; inst <= g.next+1; inst++ {
			// committee
			rv.last = nil
			cm, cerr := in.GetCommittee(ctx, inst)
			if cerr == nil && cm.PowerTable != nil {
				full := cm.PowerTable.Entries.PublicKeys()
				same := len(full) == len(rv.last)
				for k := 0; same && k < len(full); k++ {
					same = bytes.Equal(full[k], rv.last[k])
				}
				zero := 0
				for _, sp := range cm.PowerTable.ScaledPower {
					if sp == 0 {
						zero++
					}
				}
				if zero > 0 {
					o.Dist["committees-with-powerless-members"]++
				}
				o.Dist["committees-roster-checked"]++
				if !same {
					o.violate("a decision's aggregate signature verifies on any node that holds the same power table: the committee's aggregate is computed over the table's full key list, as certificate validation does",
						prefix+"-aggregate-roster", map[string]any{"instance": inst, "table_entries": len(full), "powerless_members": zero},
						fmt.Sprintf("the committee's aggregate was pre-computed over %d keys, the power table has %d (BLS aggregation coefficients depend on the whole list)", len(rv.last), len(full)))
				}
			}
			exp := "None"
			if cerr == nil {
				exp = fmt.Sprintf("(Some (%d, %d))", tblTok(cm.PowerTable.Entries), t.of("beacon", cm.Beacon))
			}
			o.coqCase(fmt.Sprintf("committee(%d) %v", inst, desc),
				fmt.Sprintf("opt_pair_eqb (committee %s %s %d %s %d) %s", cfgTerm, cList(ecTerm), keyTok(mec.head), csTerm, inst, exp))
			if cerr == nil {
				// the committee clause, evaluated on the generator's own books
				var wantTable gpbft.PowerEntries
				var wantTs *mTipset
				if inst < m.InitialInstance+m.CommitteeLookback {
					wantTable = tables[m.InitialInstance]
					if len(stored) == 0 {
						x, _ := mec.GetTipsetByEpoch(ctx, m.BootstrapEpoch-m.EC.Finality)
						wantTs = x.(*mTipset)
					} else {
						wantTs = mec.byKey[stored[m.InitialInstance].baseKey]
					}
				} else if ci, ok := stored[inst-m.CommitteeLookback]; ok {
					wantTs = mec.byKey[ci.headKey]
					wantTable = tables[inst]
					if wantTable == nil {
						wantTable = wantTs.pt
					}
				}
				if wantTs == nil || !bytes.Equal(cm.Beacon, wantTs.beacon) || !cm.PowerTable.Entries.Equal(sortEntries(cloneEntries(wantTable))) {
					viol("the committee of an instance is the initial table during the look-back window, afterwards the table and beacon at the head finalized look-back instances earlier", "c15-committee", fmt.Sprintf("instance %d", inst))
				}
			}
			// proposal
			supp, chain, perr := in.GetProposal(ctx, inst)
			pexp := "None"
			if perr == nil {
				var ts []string
				for _, x := range chain.TipSets {
					ts = append(ts, fmt.Sprintf("(%d, %d, %d)", keyTok(string(x.Key)), x.Epoch, t.cid(x.PowerTable)))
				}
				pexp = fmt.Sprintf("(Some (%d, %s))", t.cid(supp.PowerTable), cList(ts))
			}
			o.coqCase(fmt.Sprintf("proposal(%d) %v", inst, desc),
				fmt.Sprintf("opt_prop_eqb (proposal %s %s %d %s %d %d) %s", cfgTerm, cList(ecTerm), keyTok(mec.head), csTerm, now.Unix(), inst, pexp))
			o.count("C15-query", fmt.Sprint(desc, inst), head.key != line[finIdx].key && len(stored) > 0)
			if perr != nil {
				o.Dist["proposal-error"]++
				continue
			}
			// ---------- the clauses of the property on the real result ----------
			var wantBase *mTipset
			if inst == m.InitialInstance {
				x, _ := mec.GetTipsetByEpoch(ctx, m.BootstrapEpoch-m.EC.Finality)
				wantBase = x.(*mTipset)
			} else if ci, ok := stored[inst-1]; ok {
				wantBase = mec.byKey[ci.headKey]
			}
			if wantBase == nil || !bytes.Equal(chain.Base().Key, wantBase.Key()) {
				viol("the proposal starts at the tipset finalized by the previous instance (the bootstrap tipset for the first one)", "c15-base", fmt.Sprintf("instance %d: base %s", inst, chain.Base().Key))
				continue
			}
			if err := chain.Validate(); err != nil || chain.Len() > gpbft.ChainMaxLen || chain.Len() > max(1, m.Gpbft.ChainProposedLength) {
				viol("the proposal is well-formed and no longer than the configured and protocol maxima", "c15-length", fmt.Sprint(chain.Len(), err))
			}
			_, descends := anc[wantBase.key]
			if !descends && chain.Len() != 1 {
				viol("the proposal collapses to the base alone when the head does not descend from it", "c15-no-collapse", chain.String())
			}
			prev := wantBase
			for i, x := range chain.TipSets {
				mt := mec.byKey[string(x.Key)]
				if mt == nil {
					viol("the proposal continues only along the parent chain of the current EC head", "c15-unknown-tipset", string(x.Key))
					break
				}
				if i > 0 {
					if _, ok := anc[mt.key]; !ok || mt.parent != prev.key {
						viol("the proposal continues only along the parent chain of the current EC head", "c15-off-chain", fmt.Sprintf("tipset %d (%s) after %s", i, mt, prev))
					}
				}
				c, _ := certs.MakePowerTableCID(mt.pt)
				if x.PowerTable != c || x.Epoch != mt.epoch {
					viol("each tipset carries the CID of EC's power table at that tipset", "c15-tipset-ptcid", mt.String())
				}
				prev = mt
			}
			if cm2, err := in.GetCommittee(ctx, inst+1); err == nil {
				c, _ := certs.MakePowerTableCID(cm2.PowerTable.Entries)
				if supp.PowerTable != c {
					viol("the supplemental data commits to the next instance's committee", "c15-supplemental", "")
				}
			}
			o.Dist[fmt.Sprintf("proposal-len-%d", min(chain.Len(), 6))]++
		}
		// committees are a function of finalized history only: another node with the same certificates but a
		// different EC head / different unfinalized forks derives the same committees
		mec2 := newModelEC()
		for k, x := range mec.byKey {
			if strings.HasPrefix(k, "m") {
				mec2.add(x)
			}
		}
		mec2.head = line[len(line)-1].key
		in2 := f3.VerifNewInputs(m, cs, mec2, g.backend, clk)
		for inst := m.InitialInstance; inst <= g.next+1; inst++ {
			a, e1 := in.GetCommittee(ctx, inst)
			b, e2 := in2.GetCommittee(ctx, inst)
			if (e1 == nil) != (e2 == nil) {
				if headKind == "behind-base" && len(stored) == 0 {
					continue // before any certificate the bootstrap tipset is read from EC's current head line
				}
				viol("nodes holding the same certificates derive identical committees", "c15-committee-availability", fmt.Sprint(inst, e1, e2))
				continue
			}
			if e1 == nil && (!a.PowerTable.Entries.Equal(b.PowerTable.Entries) || !bytes.Equal(a.Beacon, b.Beacon)) {
				if len(stored) == 0 && headKind != "main" && headKind != "main-tip" {
					continue
				}
				viol("nodes holding the same certificates derive identical committees", "c15-committee-differs", fmt.Sprint(inst))
			}
		}
		if hi < 2 {
			o.sample(desc)
		}
	}
}

func sortStrings(s []string) {
	for i := 1; i < len(s); i++ {
		for j := i; j > 0 && s[j] < s[j-1]; j-- {
			s[j], s[j-1] = s[j-1], s[j]
		}
	}
}
