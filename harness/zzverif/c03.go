//go:build verif

package main

import (
	"fmt"
	"strings"

	"github.com/filecoin-project/go-f3/certs"
	"github.com/filecoin-project/go-f3/gpbft"
)

func init() { runners["C03"] = runC03 }

// C03: every reported decision is a self-contained, verifiable finality proof
func runC03(o *out, r *rng, thorough bool, rp string) {
	o.Rule = "single real gpbft.Participant driven to a decision by a puppet committee (random histories first, then DECIDE votes in every arrival order, minority DECIDEs for other values, own DECIDE looped back at a random point; tables with skewed powers and dust members of zero scaled power; the supplemental data commits to a DIFFERENT next power table): the reported justification is checked field by field against the harness's own record of the DECIDE votes delivered, turned into a certificate with certs.MakePowerTableDiff and validated by certs.ValidateFinalityCertificates from the same power table; the event trace (incl. the decision's value and signer set) is replayed against Layer N and the certificate against the certificate model inside Coq; plus multi-node adversarial executions with the c03 monitors; non-trivial = a decision was reported; every fourth committee has byte-scale raw powers with the total swept over the bit lengths next to the native integer widths, and all quorum arithmetic of the driver and its monitors is the harness's own"
	x := &c04ctx{t: newTok(), sigs: map[string]*sigRec{}}
	n := 160
	if thorough {
		n = 1500
	}
	decided := 0
	for i := 0; i < n; i++ {
		var local []violation
		viol := func(clause, sig, detail string) { local = append(local, violation{Clause: clause, Signature: sig, Detail: detail}) }
		var next gpbft.PowerEntries
		opt := instOpts{finale: true, skew: r.chance(35)}
		if i%4 == 3 {
			// byte-scale committees: total bit lengths next to the native integer widths first (48, 47, 49, 32, ...), then swept
			hb := []int{48, 47, 49, 32, 33, 31, 62, 56, 40, 46, 50, 45, 44, 52, 60}
			opt.skew = false
			opt.huge = hb[(i/4)%len(hb)]
			if i/4 >= len(hb) {
				opt.huge = 20 + (i/4)%43
			}
		}
		opt.supp = func(cur gpbft.PowerEntries) gpbft.SupplementalData {
			next = sortEntries(mutateTable(r, cloneEntries(cur)))
			if len(next) == 0 || r.chance(15) {
				next = cloneEntries(cur)
			}
			c, err := certs.MakePowerTableCID(next)
			must(err)
			s := gpbft.SupplementalData{PowerTable: c}
			if r.chance(30) {
				s.Commitments[3] = byte(1 + r.intn(200))
			}
			return s
		}
		d := genInstTraceOpt(r, viol, opt)
		desc := map[string]any{"events": d.desc}
		if dec := d.host.decision; dec != nil {
			decided++
			checkDecision(d, dec, next, x, o, i, viol)
		}
		for _, v := range local {
			if strings.HasPrefix(v.Signature, "c03") {
				o.violate(v.Clause, v.Signature, desc, v.Detail)
			}
		}
		o.coqCase(fmt.Sprintf("trace %d: %s", i, strings.Join(d.desc, " | ")),
			fmt.Sprintf("trace_ok %s %s %s", d.cfgTerm(), d.ct.raw(d.input), cList(d.events)))
		o.count("C03-trace", strings.Join(d.events, ";"), d.host.decision != nil)
		o.Dist[fmt.Sprintf("decided-%v", d.host.decision != nil)]++
		if i < 2 {
			o.sample(map[string]any{"events": d.desc, "decided": d.host.decision != nil})
		}
	}
	runNetMonitors(o, r, thorough, "c03")
	nr := 12
	if thorough {
		nr = 80
	}
	runInputsRoster(o, r, nr, "c03")
	o.finish("From F3 Require Import GoInt QuorumGen Instance InstanceRun Table Validate ValidateRun.")
}

func checkDecision(d *instDriver, dec *gpbft.Justification, next gpbft.PowerEntries, x *c04ctx, o *out, idx int, viol func(clause, sig, detail string)) {
	bad := func(what, detail string) {
		viol("every reported decision is a self-contained, verifiable finality proof: "+what, "c03-"+what, detail)
	}
	if dec.Vote.Instance != 0 || dec.Vote.Round != 0 || dec.Vote.Phase != gpbft.DECIDE_PHASE || !dec.Vote.SupplementalData.Eq(&d.supp) {
		bad("header", fmt.Sprintf("%+v", dec.Vote))
	}
	v := dec.Vote.Value
	if v.IsZero() {
		bad("bottom-decided", "")
		return
	}
	voters := d.decideBy[ckey(v)]
	var pw int64
	var mask []int
	_ = dec.Signers.ForEach(func(b uint64) error {
		if int(b) >= len(d.pt.Entries) {
			bad("signer-range", fmt.Sprint(b))
			return nil
		}
		if d.scaled[b] == 0 {
			bad("zero-power-signer", fmt.Sprint(b))
		}
		if !voters[d.pt.Entries[b].ID] {
			bad("signer-did-not-vote", fmt.Sprintf("member %d listed but no DECIDE for %s was delivered from it", d.pt.Entries[b].ID, v))
		}
		pw += d.scaled[b]
		mask = append(mask, int(b))
		return nil
	})
	if !indepStrong(pw, d.scaledTotal) {
		bad("no-strong-quorum", fmt.Sprintf("%d of %d", pw, d.scaledTotal))
	}
	agg, err := d.backend.Aggregate(d.pt.Entries.PublicKeys())
	must(err)
	if err := agg.VerifyAggregate(mask, dec.Vote.MarshalForSigning(verifNet), dec.Signature); err != nil {
		bad("aggregate", err.Error())
	}
	// structural descriptor of the aggregate: re-sign the same payload with the same signers
	if len(mask) > 0 {
		_, sig := x.sign(d.backend, verifNet, d.pt.Entries, 0, 0, gpbft.DECIDE_PHASE, d.supp, v, append([]int{}, mask...))
		if string(sig) != string(dec.Signature) {
			bad("aggregate-not-over-decided-value", "signature differs from the aggregate of the listed signers over (instance, round 0, DECIDE, supplemental data, decided value)")
		}
	}
	// certificate with the correct delta, validated from the same table
	cert, err := certs.NewFinalityCertificate(certs.MakePowerTableDiff(d.pt.Entries, next), dec)
	if err != nil {
		bad("certificate-construction", err.Error())
		return
	}
	nextInst, chain, tbl, err := certs.ValidateFinalityCertificates(d.backend, verifNet, d.pt.Entries, 0, nil, cert)
	if err != nil {
		bad("certificate-validation", err.Error())
	} else if nextInst != 1 || !tbl.Equal(sortEntries(next)) || chain.Len() != len(v.Suffix()) {
		bad("certificate-validation-result", fmt.Sprint(nextInst, chain.Len()))
	}
	// the same certificate against the Coq certificate model
	t := x.t
	c0, _ := certs.MakePowerTableCID(d.pt.Entries)
	c1, _ := certs.MakePowerTableCID(sortEntries(next))
	toks := cList([]string{cPair(t.table(d.pt.Entries), cZ(t.cid(c0))), cPair(t.table(sortEntries(next)), cZ(t.cid(c1)))})
	suffix := &gpbft.ECChain{TipSets: v.Suffix()}
	sfx := "[]"
	if len(v.Suffix()) > 0 {
		sfx = t.chain(suffix)
	}
	o.coqCase(fmt.Sprintf("decision certificate of trace %d", idx),
		fmt.Sprintf("check_validate %s %s %s 0 None [%s] 1 %s (Some %s) None", toks, cZ(t.of("net", []byte(verifNet))), t.table(d.pt.Entries), x.certTerm(cert), sfx, t.table(sortEntries(next))))
}
