//go:build verif

package main

import (
	"fmt"
	"math"
	"math/big"
	"runtime"
	"sync"

	"github.com/filecoin-project/go-f3/gpbft"
)

func init() { runners["C08"] = runC08 }

func runC08(o *out, r *rng, thorough bool, replay string) {
	o.Rule = "sweep: all (part,whole) with 0<=part<=whole<=65535 (exhaustive); correspondence: sampled int64 arguments incl. extremes and random power tables; non-trivial = table has >=2 distinct powers, or arguments not both zero"
	// 1. exhaustive sweep of the real predicates against the closed forms of the property text
	type bad struct {
		fn          string
		part, whole int64
	}
	var mu sync.Mutex
	var bads []bad
	var wg sync.WaitGroup
	workers := runtime.NumCPU()
	for w := 0; w < workers; w++ {
		wg.Add(1)
		go func(w int) {
			defer wg.Done()
			for whole := int64(w); whole <= 65535; whole += int64(workers) {
				for part := int64(0); part <= whole; part++ {
					s := gpbft.IsStrongQuorum(part, whole)
					if s != (3*part >= 2*whole) {
						mu.Lock()
						bads = append(bads, bad{"IsStrongQuorum", part, whole})
						mu.Unlock()
						return
					}
					wk := gpbft.VerifHasWeakQuorum(part, whole)
					if wk && !(3*part > whole) {
						mu.Lock()
						bads = append(bads, bad{"hasWeakQuorum", part, whole})
						mu.Unlock()
						return
					}
					// a weak quorum must block: the complement can never be strong
					if wk && gpbft.IsStrongQuorum(whole-part, whole) {
						mu.Lock()
						bads = append(bads, bad{"weak-blocks-strong", part, whole})
						mu.Unlock()
						return
					}
				}
			}
		}(w)
	}
	wg.Wait()
	o.Exhaustive = true
	o.Extra["sweep_pairs"] = int64(65536) * 65537 / 2
	for _, b := range bads {
		clause := "strong quorum iff at least two thirds"
		if b.fn != "IsStrongQuorum" {
			clause = "weak quorum strictly exceeds one third"
		}
		o.violate(clause, b.fn, map[string]any{"fn": b.fn, "part": b.part, "whole": b.whole}, "real predicate disagrees with the closed form of the property")
	}

	// 2. correspondence of the translated functions on sampled int64 arguments
	n := 1500
	if thorough {
		n = 20000
	}
	ext := []int64{0, 1, 2, 3, 65534, 65535, 65536, 1 << 31, 1 << 32, 1<<62 - 1, 1 << 62, 1<<62 + 1, math.MaxInt64 - 1, math.MaxInt64}
	arg := func() int64 {
		switch r.intn(4) {
		case 0:
			return pick(r, ext)
		case 1:
			return r.i64n(65536)
		case 2:
			return r.i64n(1 << 40)
		default:
			return int64(r.u64() >> 1)
		}
	}
	for i := 0; i < n; i++ {
		p, w := arg(), arg()
		s := gpbft.IsStrongQuorum(p, w)
		wk := gpbft.VerifHasWeakQuorum(p, w)
		dc := gpbft.VerifDivCeil(p, 3)
		o.coqCase(fmt.Sprintf("quorum part=%d whole=%d", p, w),
			fmt.Sprintf("andb (Bool.eqb (isStrongQuorum %s %s) %s) (andb (Bool.eqb (hasWeakQuorum %s %s) %s) (Z.eqb (divCeil %s 3) %s))",
				cZ(p), cZ(w), cBool(s), cZ(p), cZ(w), cBool(wk), cZ(p), cZ(dc)))
		o.count("quorum-args", fmt.Sprintf("q%d/%d", p, w), p != 0 || w != 0)
		if i < 2 {
			o.sample(map[string]any{"kind": "quorum", "part": p, "whole": w, "strong": s, "weak": wk})
		}
	}
	// 3. scalePower and Scaled()/PowerTable.Add against the model, plus the scaling facts themselves
	nt := 150
	if thorough {
		nt = 1500
	}
	for i := 0; i < nt; i++ {
		sz := 1 + r.intn(12)
		if r.chance(10) {
			sz = 50 + r.intn(300)
		}
		ps := genPowers(r, sz)
		if i%3 == 1 {
			ps = genPowersDominant(r, 2+r.intn(6), sweepBits(i/3)) // total bit length: native widths first, then swept
		}
		pt, err := mkPowerTable(ps)
		if i%4 == 2 && len(ps) >= 2 {
			// the same table built INCREMENTALLY: members are added in several Add calls (shuffled batches), the dominant
			// member possibly last, so that earlier members are re-scaled -- possibly down to zero -- by a later Add
			pt, err = mkPowerTableIncremental(r, ps)
			o.Dist["tables-built-by-several-adds"]++
		}
		if err != nil {
			o.violate("power table of positive powers is accepted", "PowerTable.Add", fmt.Sprint(ps), err.Error())
			continue
		}
		if verr := pt.Validate(); verr != nil {
			o.violate("a table built by Add is valid (its scaled powers are the protocol's)", "PowerTable.Validate", fmt.Sprint(ps), verr.Error())
		}
		scaled, total, err := pt.Entries.Scaled()
		if err != nil {
			o.violate("Scaled succeeds on positive powers", "Scaled", fmt.Sprint(ps), err.Error())
			continue
		}
		// the facts
		var sum int64
		for j, s := range scaled {
			sum += s
			if s < 0 || s > 65535 {
				o.violate("scaled power individually at most 65535", "scaled-range", fmt.Sprint(ps), fmt.Sprint(s))
			}
			if pt.ScaledPower[j] != s {
				o.violate("validator/tally agree on scaled powers", "scaled-agree", fmt.Sprint(ps), "")
			}
			if j > 0 && pt.Entries[j-1].Power.Cmp(pt.Entries[j].Power.Int) >= 0 && scaled[j-1] < s {
				o.violate("scaled powers are order-preserving", "scaled-order", fmt.Sprint(ps), "")
			}
		}
		if sum != total || total != pt.ScaledTotal || total > 65535 {
			o.violate("scaled powers sum to at most 65535", "scaled-sum", fmt.Sprint(ps), fmt.Sprint(sum, total, pt.ScaledTotal))
		}
		// model: entries in table order
		ordered := make([]string, len(pt.Entries))
		distinct := map[string]bool{}
		for j, e := range pt.Entries {
			ordered[j] = cBig(e.Power.Int)
			distinct[e.Power.String()] = true
		}
		o.coqCase(fmt.Sprintf("scaled table %v", ps),
			fmt.Sprintf("if list_eq_dec Z.eq_dec (scaled_list %s) %s then true else false", cList(ordered), cListZ(scaled)))
		o.count("power-table", fmt.Sprint(ordered), len(distinct) >= 2)
		if i < 2 {
			o.sample(map[string]any{"kind": "scaled", "powers": fmt.Sprint(ps), "scaled": scaled})
		}
		// scalePower incl. the error branch
		a, b := ps[r.intn(len(ps))], ps[r.intn(len(ps))]
		sp, serr := gpbft.VerifScalePower(bigOf(a), bigOf(b))
		o.coqCase(fmt.Sprintf("scalePower %v %v", a, b),
			fmt.Sprintf("let '(s, e) := scalePower %s %s in andb (Z.eqb s %s) (Bool.eqb (match e with None => true | _ => false end) %s)",
				cBig(a), cBig(b), cZ(sp), cBool(serr == nil)))
		o.count("scalePower", fmt.Sprint(a, b), a.Cmp(b) != 0)

		// 4. could-reach on a real tally vs the translated model + soundness monitor
		q := gpbft.VerifNewQuorum(pt)
		chains := []*gpbft.ECChain{mkChain("a", 2), mkChain("b", 1), mkChain("c", 3)}
		nvotes := r.intn(len(pt.Entries) + 1)
		perm := make([]int, len(pt.Entries))
		for j := range perm {
			perm[j] = j
		}
		for j := len(perm) - 1; j > 0; j-- {
			k := r.intn(j + 1)
			perm[j], perm[k] = perm[k], perm[j]
		}
		for _, j := range perm[:nvotes] {
			q.Receive(pt.Entries[j].ID, chains[r.intn(3)], []byte{1})
		}
		for _, c := range chains {
			for _, adv := range []bool{false, true} {
				got := q.CouldReach(c.Key(), adv)
				sup, found := q.Support(c.Key())
				o.coqCase(fmt.Sprintf("couldReach table=%v votes=%d", ps, nvotes),
					fmt.Sprintf("Bool.eqb (couldReachStrongQuorumFor %s %s %s %s %s) %s",
						cBool(adv), cZ(sup), cBool(found), cZ(q.SendersTotalPower()), cZ(pt.ScaledTotal), cBool(got)))
				o.count("couldReach", fmt.Sprint(ordered, sup, found, q.SendersTotalPower(), adv), q.SendersTotalPower() > 0)
				if !got && !adv {
					// soundness on the implementation: even if every silent member votes for c, no strong quorum
					if gpbft.IsStrongQuorum(sup+(pt.ScaledTotal-q.SendersTotalPower()), pt.ScaledTotal) {
						o.violate("could-not-reach is sound", "couldReach-unsound", fmt.Sprint(ps), "reported impossible but reachable")
					}
				}
			}
		}
	}
	_ = big.NewInt
	o.finish("From F3 Require Import GoInt QuorumGen QuorumProofs.")
}
