//go:build verif

package main

import (
	"strings"
	"context"
	"fmt"
	"time"

	f3 "github.com/filecoin-project/go-f3"
	"github.com/filecoin-project/go-bitfield"
	"github.com/filecoin-project/go-f3/certchain"
	"github.com/filecoin-project/go-f3/certs"
	"github.com/filecoin-project/go-f3/gpbft"
	"github.com/filecoin-project/go-f3/internal/clock"
	"github.com/filecoin-project/go-f3/manifest"
	"github.com/filecoin-project/go-f3/sim"
	"github.com/filecoin-project/go-f3/sim/signing"
)

func init() { runners["C19"] = runC19 }

var oracleErrClasses = [][2]string{
	{"instance mismatch", "1"}, {"decision for wrong phase", "2"}, {"decision for wrong round", "3"}, {"decided empty tipset", "4"},
	{"decided tipset with wrong base", "5"}, {"invalid signer index", "6"}, {"decision lacks strong quorum", "7"}, {"invalid aggregate signature", "8"},
}

func runC19(o *out, r *rng, thorough bool, replay string) {
	o.Rule = "oracle: honestly produced decisions and forged / under-powered variants (wrong instance, step, round, empty, wrong base, signer out of range, signer set below 2/3 signed by exactly those signers, bad aggregate) are reported through the simulator's decision-notification path, for skewed power tables incl. zero-scaled members; certchain: certificate chains generated over a model EC whose power table changes every epoch, for all (look-back, initial instance) settings, committee of every instance compared with the table at the head finalized look-back instances earlier and with the node's GetCommittee; non-trivial = decision differs from an honest one in exactly the quorum weight or one header field; after every accepted honest decision, forgeries re-using its signers and aggregate for another value / other supplemental data are presented to the same oracle"
	x := &c04ctx{t: newTok(), sigs: map[string]*sigRec{}}
	t := x.t
	ctx := context.Background()
	n := 60
	if thorough {
		n = 600
	}
	for i := 0; i < n; i++ {
		backend := signing.NewFakeBackend()
		g := &certGen{r: r, backend: backend, keys: map[gpbft.ActorID]gpbft.PubKey{}, nextID: 1}
		members := 3 + r.intn(6)
		var entries gpbft.PowerEntries
		for k := 0; k < members; k++ {
			p := int64(1 + r.intn(30))
			if r.chance(15) {
				p = 1 << 40
			}
			entries = append(entries, g.newEntry(p))
		}
		boundary := i%5 == 4 // a table whose scaled total is not a multiple of 3 and a signer set exactly one unit short of 2/3
		if boundary {
			total := int64(65534)
			if r.bool() {
				total = 65533
			}
			xx := (total + 2) / 3
			entries = gpbft.PowerEntries{g.newEntry(xx), g.newEntry(xx), g.newEntry(total - 2*xx)}
		}
		pt := gpbft.NewPowerTable()
		must(pt.Add(entries...))
		prior := r.intn(3)
		baseChain := mkChain("b", 1+r.intn(2))
		orc := sim.VerifNewOracle(verifNet, backend, prior, baseChain, pt)
		inst := orc.Inst.Instance
		supp := *orc.Inst.SupplementalData
		value := &gpbft.ECChain{TipSets: append([]*gpbft.TipSet{baseChain.Head()}, mkTipset(baseChain.Head().Epoch+1, fmt.Sprintf("v-%d", i)))}
		signers := minimalQuorum(r, pt.Entries)
		kind := "honest"
		dInst, dRound, dPhase := inst, uint64(0), gpbft.DECIDE_PHASE
		dValue := value
		tamperSig := false
		extraSigner := -1
		pick := r.intn(11)
		if boundary {
			pick = 100
			// the largest member and the smallest one: power = total - ceil(total/3) = floor(2*total/3) < 2/3 of the total
			small, large := 0, 0
			for k := range pt.Entries {
				if pt.ScaledPower[k] < pt.ScaledPower[small] {
					small = k
				}
				if pt.ScaledPower[k] > pt.ScaledPower[large] {
					large = k
				}
			}
			signers = []int{large, small}
			if 3*(pt.ScaledPower[large]+pt.ScaledPower[small]) < 2*pt.ScaledTotal {
				kind = "under-powered"
				o.Dist["oracle-boundary-one-unit-short"]++
			}
		}
		switch pick {
		case 0:
			dInst = inst + 1
			kind = "instance"
		case 1:
			dPhase = gpbft.COMMIT_PHASE
			kind = "phase"
		case 2:
			dRound = 1
			kind = "round"
		case 3:
			dValue = &gpbft.ECChain{}
			kind = "empty"
		case 4:
			dValue = &gpbft.ECChain{TipSets: []*gpbft.TipSet{mkTipset(0, "otherbase"), mkTipset(5, "x")}}
			kind = "base"
		case 5:
			extraSigner = len(pt.Entries) + r.intn(3)
			kind = "signer-range"
		case 6, 7:
			// under-powered: drop signers until below 2/3, sign honestly with the remaining ones
			for len(signers) > 0 {
				var pw int64
				for _, s := range signers {
					pw += pt.ScaledPower[s]
				}
				if !indepStrong(pw, pt.ScaledTotal) {
					break
				}
				signers = signers[:len(signers)-1]
			}
			kind = "under-powered"
		case 8:
			tamperSig = true
			kind = "signature"
		}
		bf, sig := x.sign(backend, verifNet, pt.Entries, dInst, dRound, dPhase, supp, dValue, signers)
		if extraSigner >= 0 {
			bf.Set(uint64(extraSigner))
		}
		if tamperSig {
			sig = append([]byte{}, sig...)
			sig[3] ^= 1
		}
		d := &gpbft.Justification{Vote: gpbft.Payload{Instance: dInst, Round: dRound, Phase: dPhase, SupplementalData: supp, Value: dValue}, Signers: bf, Signature: sig}
		err := orc.Validate(d)
		code := 0
		if err != nil {
			c := errClass(err, oracleErrClasses)
			fmt.Sscan(c, &code)
			if code == 0 {
				o.violate("oracle errors are classified", "oracle-unknown-error", kind, err.Error())
				continue
			}
		}
		// the property on the implementation: a decision that is not backed by a strong quorum (or is otherwise wrong) is an error of the run
		orc.Notify(pt.Entries[0].ID, d)
		in := map[string]any{"kind": kind, "powers": fmt.Sprint(pt.ScaledPower), "signers": signers, "instance": inst}
		if kind != "honest" && orc.Err() == nil {
			o.violate("the simulator reports an error for a decision that is "+kind, "oracle-accepts:"+kind, in, "sim oracle accepted it")
		}
		if kind == "honest" && orc.Err() != nil {
			o.violate("honest decisions are accepted", "oracle-rejects-honest", in, orc.Err().Error())
		}
		// model
		var sl []int64
		_ = d.Signers.ForEach(func(b uint64) error { sl = append(sl, int64(b)); return nil })
		keys := make([]int64, len(pt.Entries))
		for k, e := range pt.Entries {
			keys[k] = t.of("key", e.PubKey)
		}
		sigTerm := "None"
		if rec, ok := x.sigs[string(sig)]; ok {
			ss := make([]int64, len(rec.signers))
			for k, s := range rec.signers {
				ss[k] = int64(s)
			}
			sigTerm = fmt.Sprintf("(Some (mkSig %s %s %s %s %s %d %s %s %s))", cListZ(rec.keys), cListZ(ss), cZ(rec.net), cU(rec.inst), cU(rec.round), rec.phase, cZ(rec.commit), cZ(rec.pt), rec.chain)
		}
		exp := "None"
		if code != 0 {
			exp = fmt.Sprintf("(Some %d)", code)
		}
		o.coqCase(fmt.Sprintf("oracle %v", in),
			fmt.Sprintf("match validate_decision %s %s %s %s %s %s (mkDec %s %s %d %s %s %s %s %s), %s with None, None => true | Some e, Some c => Z.eqb (oerr_code e) c | _, _ => false end",
				cU(inst), t.tipset(baseChain.Head()), cListZ(pt.ScaledPower), cZ(pt.ScaledTotal), cListZ(keys), cZ(t.of("net", []byte(verifNet))),
				cU(dInst), cU(dRound), int(dPhase), t.chain(dValue), cZ(t.of("commit", supp.Commitments[:])), cZ(t.cid(supp.PowerTable)), cListZ(sl), sigTerm, exp))
		o.count("oracle-"+kind, fmt.Sprint(in), kind != "honest")
		if kind == "honest" && orc.Err() == nil {
			// the oracle's verdict must not depend on what it accepted before: a forgery that re-uses the signers and the
			// aggregate of the genuine decision just accepted -- for another value, or under other supplemental data --
			// is still "not backed by a verifying aggregate"
			for fk := 0; fk < 2; fk++ {
				d2 := &gpbft.Justification{Vote: d.Vote, Signers: d.Signers, Signature: d.Signature}
				fkind := "replayed-aggregate-other-value"
				if fk == 0 {
					d2.Vote.Value = &gpbft.ECChain{TipSets: append([]*gpbft.TipSet{baseChain.Head()}, mkTipset(baseChain.Head().Epoch+1, fmt.Sprintf("forged-%d", i)))}
				} else {
					d2.Vote.SupplementalData.PowerTable = gpbft.MakeCid([]byte(fmt.Sprintf("forged-table-%d", i)))
					fkind = "replayed-aggregate-other-supplement"
				}
				err2 := orc.Validate(d2)
				code2 := 0
				if err2 != nil {
					fmt.Sscan(errClass(err2, oracleErrClasses), &code2)
				}
				in2 := map[string]any{"kind": fkind, "powers": fmt.Sprint(pt.ScaledPower), "signers": signers, "instance": inst}
				if err2 == nil {
					o.violate("the simulator reports an error for a decision whose aggregate does not verify over the reported value and supplemental data", "oracle-accepts:"+fkind, in2,
						"after accepting the genuine decision the oracle accepted a forgery carrying the same signers and signature")
				}
				exp2 := "None"
				if code2 != 0 {
					exp2 = fmt.Sprintf("(Some %d)", code2)
				}
				o.coqCase(fmt.Sprintf("oracle %v", in2),
					fmt.Sprintf("match validate_decision %s %s %s %s %s %s (mkDec %s %s %d %s %s %s %s %s), %s with None, None => true | Some e, Some c => Z.eqb (oerr_code e) c | _, _ => false end",
						cU(inst), t.tipset(baseChain.Head()), cListZ(pt.ScaledPower), cZ(pt.ScaledTotal), cListZ(keys), cZ(t.of("net", []byte(verifNet))),
						cU(dInst), cU(dRound), int(dPhase), t.chain(d2.Vote.Value), cZ(t.of("commit", d2.Vote.SupplementalData.Commitments[:])), cZ(t.cid(d2.Vote.SupplementalData.PowerTable)), cListZ(sl), sigTerm, exp2))
				o.count("oracle-"+fkind, fmt.Sprint(in2), true)
			}
		}
		if i < 3 {
			o.sample(map[string]any{"kind": "oracle", "input": in, "verdict_code": code})
		}
	}

	// ---------- the consensus check over the reported decisions (HasReachedConsensus) ----------
	// genuinely quorum-signed decisions are notified for every member; some members are given ANOTHER chain: one with a
	// different head, or a different chain that ends at the SAME head (a tipset skipped); some members report nothing
	nc := 30
	if thorough {
		nc = 300
	}
	for i := 0; i < nc; i++ {
		backend := signing.NewFakeBackend()
		g := &certGen{r: r, backend: backend, keys: map[gpbft.ActorID]gpbft.PubKey{}, nextID: 1}
		members := 3 + r.intn(4)
		var entries gpbft.PowerEntries
		for k := 0; k < members; k++ {
			entries = append(entries, g.newEntry(int64(5+r.intn(20))))
		}
		pt := gpbft.NewPowerTable()
		must(pt.Add(entries...))
		baseChain := mkChain("cb", 1)
		orc := sim.VerifNewOracle(verifNet, backend, 0, baseChain, pt)
		inst := orc.Inst.Instance
		supp := *orc.Inst.SupplementalData
		e0 := baseChain.Head().Epoch
		x1 := mkTipset(e0+1, fmt.Sprintf("x-%d", i))
		y2 := mkTipset(e0+2, fmt.Sprintf("y-%d", i))
		z2 := mkTipset(e0+2, fmt.Sprintf("z-%d", i))
		chains := []*gpbft.ECChain{
			{TipSets: []*gpbft.TipSet{baseChain.Head(), x1, y2}}, // the common decision
			{TipSets: []*gpbft.TipSet{baseChain.Head(), y2}},     // another chain, same head
			{TipSets: []*gpbft.TipSet{baseChain.Head(), x1, z2}}, // another head
		}
		mode := r.intn(4) // 0 unanimous, 1 one member on the same-head chain, 2 one member on another head, 3 one member silent
		odd := r.intn(members)
		var decTerms []string
		var mem []int64
		reported := map[gpbft.ActorID]*gpbft.ECChain{}
		for k, en := range pt.Entries {
			ch := chains[0]
			if k == odd && mode == 1 {
				ch = chains[1]
			}
			if k == odd && mode == 2 {
				ch = chains[2]
			}
			mem = append(mem, int64(en.ID))
			if k == odd && mode == 3 {
				continue
			}
			bf, sig := x.sign(backend, verifNet, pt.Entries, inst, 0, gpbft.DECIDE_PHASE, supp, ch, minimalQuorum(r, pt.Entries))
			orc.Notify(en.ID, &gpbft.Justification{Vote: gpbft.Payload{Instance: inst, Round: 0, Phase: gpbft.DECIDE_PHASE, SupplementalData: supp, Value: ch}, Signers: bf, Signature: sig})
			reported[en.ID] = ch
			decTerms = append(decTerms, fmt.Sprintf("if k =? %d then Some %s else", en.ID, t.chain(ch)))
		}
		if orc.Err() != nil {
			o.violate("honest decisions are accepted", "oracle-rejects-honest", map[string]any{"mode": mode}, orc.Err().Error())
			continue
		}
		got, ok := orc.ReachedConsensus()
		in := map[string]any{"kind": "consensus-check", "mode": []string{"unanimous", "one member decides another chain with the same head", "one member decides another head", "one member silent"}[mode], "members": members}
		agree := len(reported) == members
		for _, ch := range reported {
			if !ch.Eq(chains[0]) {
				agree = false
			}
		}
		if ok && !agree {
			o.violate("the simulator reports an error when honest participants that completed an instance disagree", "oracle-misses-disagreement", in,
				fmt.Sprintf("HasReachedConsensus = (%v, true) although the reported decisions differ / are incomplete", got))
		}
		if !ok && agree {
			o.violate("a unanimous instance is recognised as such", "oracle-rejects-consensus", in, "")
		}
		exp := "None"
		if ok {
			exp = "(Some (Some " + t.chain(got) + "))"
		}
		o.coqCase(fmt.Sprintf("consensus check %v", in),
			fmt.Sprintf("match reached_consensus %s (fun k => %s None) None, %s with Some (Some a), Some (Some b) => chain_eqb a b | None, None => true | _, _ => false end",
				cListZ(mem), strings.Join(decTerms, " "), exp))
		o.count("oracle-consensus-"+fmt.Sprint(mode), fmt.Sprint(in, i), mode != 0)
	}

	// ---------- certchain vs the node's committee rule ----------
	// look-back >= 2: with 0 or 1 a node itself cannot derive the next committee while an instance is running
	settings := [][2]uint64{{3, 5}, {5, 2}, {10, 1}, {2, 0}, {2, 7}}
	if thorough {
		settings = append(settings, [2]uint64{4, 17}, [2]uint64{7, 3}, [2]uint64{6, 9})
	}
	for si, st := range settings {
		lookback, initial := st[0], st[1]
		backend := signing.NewFakeBackend()
		mec := newModelEC()
		// linear EC, one tipset per epoch, the power table changes at EVERY epoch
		var keysPool []gpbft.PubKey
		for k := 0; k < 6; k++ {
			pk, _ := backend.GenerateKey()
			keysPool = append(keysPool, pk)
		}
		nEpochs := int64(400)
		prev := ""
		for e := int64(0); e < nEpochs; e++ {
			var pe gpbft.PowerEntries
			for k := 0; k < 4+int(e%3); k++ {
				pe = append(pe, gpbft.PowerEntry{ID: gpbft.ActorID(k + 1), Power: gpbft.NewStoragePower(10 + e*int64(k+1)%97 + int64(k)), PubKey: keysPool[k]})
			}
			key := fmt.Sprintf("ts%04d", e)
			mec.add(&mTipset{key: key, epoch: e, parent: prev, ts: time.Unix(e*30, 0), pt: sortEntries(pe), beacon: []byte(key)})
			prev = key
		}
		mec.head = prev
		m := manifest.LocalDevnetManifest()
		m.NetworkName = verifNet
		m.InitialInstance = initial
		m.CommitteeLookback = lookback
		m.BootstrapEpoch = 20
		m.EC.Finality = 10
		cc, err := certchain.New(certchain.WithEC(mec), certchain.WithManifest(m), certchain.WithSignVerifier(backend), certchain.WithSeed(int64(si)+int64(o.Seed)))
		must(err)
		// short proposals keep epochs in range
		ncerts := uint64(12)
		crts, err := genShortChain(ctx, cc, mec, ncerts)
		if err != nil {
			o.violate("certchain generates a chain", "certchain-generate-failed", map[string]any{"lookback": lookback, "initial": initial}, err.Error())
			continue
		}
		bootstrapTs, _ := mec.GetTipsetByEpoch(ctx, m.BootstrapEpoch-m.EC.Finality)
		initialTable, _ := mec.GetPowerTable(ctx, bootstrapTs.Key())
		cstore, _ := newMemStore(ctx, initial, initialTable)
		in := map[string]any{"lookback": lookback, "initial": initial}
		for k, c := range crts {
			instance := initial + uint64(k)
			cm, err := cc.GetCommittee(ctx, instance)
			if err != nil {
				o.violate("certchain derives a committee for every generated instance", "certchain-committee-error", in, err.Error())
				break
			}
			var want gpbft.PowerEntries
			if instance < initial+lookback {
				want = initialTable
			} else {
				head := crts[instance-lookback-initial].ECChain.Head()
				want, _ = mec.GetPowerTable(ctx, head.Key)
			}
			if !cm.PowerTable.Entries.Equal(want) {
				o.violate("the certificate-chain generator derives the committee of an instance by the node's look-back rule (table at the head finalized look-back instances earlier)",
					"certchain-lookback", map[string]any{"lookback": lookback, "initial": initial, "instance": instance}, "committee differs from the table at the head finalized by instance-lookback")
				break
			}
			// the node's rule on the same history: a node holding exactly the certificates up to instance-lookback
			if instance >= initial+lookback && lookback > 0 {
				ns, _ := newMemStore(ctx, initial, initialTable)
				okPut := true
				for _, pc := range crts[:instance-lookback-initial+1] {
					if err := ns.Put(ctx, pc); err != nil {
						okPut = false
						break
					}
				}
				if okPut {
					_, clk := clock.WithMockClock(ctx)
					inp := f3.VerifNewInputs(m, ns, mec, backend, clk)
					nc, err := inp.GetCommittee(ctx, instance)
					if err == nil && !nc.PowerTable.Entries.Equal(cm.PowerTable.Entries) {
						o.violate("nodes and the certificate-chain generator derive identical committees", "certchain-vs-node", map[string]any{"lookback": lookback, "initial": initial, "instance": instance}, "")
						break
					}
				}
			}
			_ = c
			// the translated arithmetic on the same numbers
			if instance >= initial+lookback {
				o.coqCase(fmt.Sprintf("lookback instance=%d lookback=%d initial=%d", instance, lookback, initial),
					fmt.Sprintf("andb (Z.eqb (%d + certchain_lookback_index %d %d %d) (node_lookback_instance %d %d %d)) (certchain_uses_cert %d %d %d)",
						initial, instance, lookback, initial, instance, lookback, initial, instance, lookback, initial))
			} else {
				o.coqCase(fmt.Sprintf("bootstrap instance=%d lookback=%d initial=%d", instance, lookback, initial),
					fmt.Sprintf("andb (negb (certchain_uses_cert %d %d %d)) (node_bootstrap %d %d %d)", instance, lookback, initial, instance, lookback, initial))
			}
			o.count("certchain-instance", fmt.Sprint(instance, lookback, initial), lookback > 0)
		}
		// the chains it generates are accepted by certificate validation with the node's tables
		if _, _, _, err := certs.ValidateFinalityCertificates(backend, verifNet, initialTable, initial, nil, crts...); err != nil {
			o.violate("generated chains are accepted by certificate validation", "certchain-invalid-chain", in, err.Error())
		}
		_ = cstore
		if si < 2 {
			o.sample(map[string]any{"kind": "certchain", "lookback": lookback, "initial": initial, "certificates": len(crts)})
		}
	}
	_ = bitfield.New
	o.finish("From F3 Require Import GoInt QuorumGen ToolingGen Table Validate Tooling.")
}

// genShortChain drives the generator one certificate at a time so proposals stay short
func genShortChain(ctx context.Context, cc *certchain.CertChain, mec *modelEC, n uint64) ([]*certs.FinalityCertificate, error) {
	// Generate() picks proposal lengths up to 128; the model EC has 400 epochs, enough for 12 instances only if
	// we retry seeds whose chains run out of epochs.
	return cc.Generate(ctx, n)
}
