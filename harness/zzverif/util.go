//go:build verif

package main

import (
	"encoding/json"
	"fmt"
	"math/big"
	"os"
	"path/filepath"
	"sort"
	"strings"
)

// ---- deterministic PRNG (splitmix64); every random choice derives from VERIF_SEED ----
type rng struct{ s uint64 }

func newRng(seed uint64) *rng { return &rng{s: seed*0x9E3779B97F4A7C15 + 0x1234567} }
func (r *rng) u64() uint64 {
	r.s += 0x9E3779B97F4A7C15
	z := r.s
	z = (z ^ (z >> 30)) * 0xBF58476D1CE4E5B9
	z = (z ^ (z >> 27)) * 0x94D049BB133111EB
	return z ^ (z >> 31)
}
func (r *rng) intn(n int) int {
	if n <= 0 {
		return 0
	}
	return int(r.u64() % uint64(n))
}
func (r *rng) i64n(n int64) int64 {
	if n <= 0 {
		return 0
	}
	return int64(r.u64() % uint64(n))
}
func (r *rng) bool() bool       { return r.u64()&1 == 1 }
func (r *rng) chance(p int) bool { return r.intn(100) < p }
func (r *rng) bytes(n int) []byte {
	b := make([]byte, n)
	for i := range b {
		b[i] = byte(r.u64())
	}
	return b
}
func pick[T any](r *rng, xs []T) T { return xs[r.intn(len(xs))] }

// ---- Coq term printers ----
func cZ(x int64) string {
	if x < 0 {
		return fmt.Sprintf("(%d)", x)
	}
	return fmt.Sprintf("%d", x)
}
func cU(x uint64) string { return fmt.Sprintf("%d", x) }
func cBig(x *big.Int) string {
	if x.Sign() < 0 {
		return "(" + x.String() + ")"
	}
	return x.String()
}
func cBool(b bool) string {
	if b {
		return "true"
	}
	return "false"
}
func cList(xs []string) string { return "[" + strings.Join(xs, "; ") + "]" }
func cListZ(xs []int64) string {
	s := make([]string, len(xs))
	for i, x := range xs {
		s[i] = cZ(x)
	}
	return cList(s)
}
func cBytes(b []byte) string {
	s := make([]string, len(b))
	for i, x := range b {
		s[i] = fmt.Sprintf("%d", x)
	}
	return "[" + strings.Join(s, ";") + "]"
}
func cOpt(some bool, s string) string {
	if !some {
		return "None"
	}
	return "(Some " + s + ")"
}
func cPair(a, b string) string { return "(" + a + ", " + b + ")" }

// ---- output bundle ----
type violation struct {
	Clause string `json:"clause"`
	Input  any    `json:"input"`
	Detail string `json:"detail"`
	// Signature identifies a *class* of failures for the known-findings file.
	Signature string `json:"signature"`
}

type out struct {
	dir        string
	ID         string           `json:"property_id"`
	Seed       uint64           `json:"seed"`
	Tier       string           `json:"tier"`
	Evals      int              `json:"evaluations"`
	Distinct   int              `json:"distinct_nontrivial"`
	Rule       string           `json:"rule"`
	Samples    []any            `json:"samples"`
	Dist       map[string]int   `json:"distribution"`
	Violations []violation      `json:"violations"`
	Exhaustive bool             `json:"exhaustive"`
	Extra      map[string]any   `json:"extra"`
	seen       map[string]bool
	coq        strings.Builder
	ncases     int
	caseDesc   []string // human description of every coq case (index = case id)
}

func newOut(id string, seed uint64, tier, dir string) *out {
	os.MkdirAll(dir, 0o755)
	return &out{dir: dir, ID: id, Seed: seed, Tier: tier, Dist: map[string]int{}, Extra: map[string]any{}, seen: map[string]bool{}}
}

// count registers one evaluated case; canonical is its canonical text; nontrivial by the property's rule.
func (o *out) count(kind, canonical string, nontrivial bool) {
	o.Evals++
	o.Dist[kind]++
	if nontrivial && !o.seen[canonical] {
		o.seen[canonical] = true
		o.Distinct++
	}
}
func (o *out) sample(x any) {
	if len(o.Samples) < 6 {
		o.Samples = append(o.Samples, x)
	}
}
func (o *out) violate(clause, signature string, input any, detail string) {
	if len(o.Violations) < 20 {
		o.Violations = append(o.Violations, violation{Clause: clause, Input: input, Detail: detail, Signature: signature})
	}
}

// coqCase appends one correspondence case: `term` must be a Coq boolean expression that
// is true iff the model agrees with what the implementation produced.
func (o *out) coqCase(desc, term string) {
	fmt.Fprintf(&o.coq, "Definition c%d : bool := %s.\n", o.ncases, term)
	o.caseDesc = append(o.caseDesc, desc)
	o.ncases++
}

func (o *out) finish(imports string) {
	if o.Violations == nil {
		o.Violations = []violation{}
	}
	if o.Samples == nil {
		o.Samples = []any{}
	}
	o.Extra["coq_cases"] = o.ncases
	var v strings.Builder
	v.WriteString("(* written by verifharness: implementation results embedded; evaluated by coqc *)\n")
	v.WriteString("From Coq Require Import ZArith List Bool.\nImport ListNotations.\n")
	v.WriteString(imports + "\nOpen Scope Z_scope.\n")
	v.WriteString(o.coq.String())
	// the case list is written in chunks: one literal of tens of thousands of elements overflows coqc's stack
	const chunk = 500
	nchunks := 0
	for start := 0; start < o.ncases; start += chunk {
		fmt.Fprintf(&v, "Definition cases_%d : list (Z * bool) := [", nchunks)
		for i := start; i < o.ncases && i < start+chunk; i++ {
			if i > start {
				v.WriteString("; ")
			}
			fmt.Fprintf(&v, "(%d, c%d)", i, i)
		}
		v.WriteString("].\n")
		nchunks++
	}
	v.WriteString("Definition cases : list (Z * bool) := ")
	for k := 0; k < nchunks; k++ {
		fmt.Fprintf(&v, "cases_%d ++ ", k)
	}
	v.WriteString("[].\n")
	v.WriteString("Definition mismatches := Eval vm_compute in map fst (filter (fun c => negb (snd c)) cases).\n")
	v.WriteString("Definition ncases := Eval vm_compute in Z.of_nat (length cases).\n")
	v.WriteString("Print mismatches.\nPrint ncases.\n")
	must(os.WriteFile(filepath.Join(o.dir, "cases.v"), []byte(v.String()), 0o644))
	must(os.WriteFile(filepath.Join(o.dir, "case_desc.json"), mustJSON(o.caseDesc), 0o644))
	must(os.WriteFile(filepath.Join(o.dir, "stats.json"), mustJSON(o), 0o644))
}

func must(err error) {
	if err != nil {
		panic(err)
	}
}
func mustJSON(x any) []byte {
	b, err := json.MarshalIndent(x, "", " ")
	must(err)
	return b
}
func sortedKeys[V any](m map[string]V) []string {
	ks := make([]string, 0, len(m))
	for k := range m {
		ks = append(ks, k)
	}
	sort.Strings(ks)
	return ks
}
