//go:build verif

package main

import (
	"context"
	"errors"
	"fmt"
	"time"

	"github.com/filecoin-project/go-f3/ec"
	"github.com/filecoin-project/go-f3/gpbft"
)

// modelEC: an explicit EC block tree (null rounds = missing epochs, forks = several children) implementing ec.Backend.
type mTipset struct {
	key    string
	epoch  int64
	parent string
	ts     time.Time
	pt     gpbft.PowerEntries
	beacon []byte
}

func (t *mTipset) Key() gpbft.TipSetKey { return []byte(t.key) }
func (t *mTipset) Beacon() []byte       { return t.beacon }
func (t *mTipset) Epoch() int64         { return t.epoch }
func (t *mTipset) Timestamp() time.Time { return t.ts }
func (t *mTipset) String() string       { return fmt.Sprintf("%s@%d", t.key, t.epoch) }

type modelEC struct {
	byKey map[string]*mTipset
	head  string
}

var _ ec.Backend = (*modelEC)(nil)

func newModelEC() *modelEC { return &modelEC{byKey: map[string]*mTipset{}} }
func (m *modelEC) add(t *mTipset) *mTipset {
	m.byKey[t.key] = t
	return t
}
func (m *modelEC) GetTipset(_ context.Context, k gpbft.TipSetKey) (ec.TipSet, error) {
	t, ok := m.byKey[string(k)]
	if !ok {
		return nil, fmt.Errorf("tipset %q not found", string(k))
	}
	return t, nil
}
func (m *modelEC) GetHead(context.Context) (ec.TipSet, error) {
	t, ok := m.byKey[m.head]
	if !ok {
		return nil, errors.New("no head")
	}
	return t, nil
}
func (m *modelEC) GetParent(_ context.Context, t ec.TipSet) (ec.TipSet, error) {
	x, ok := m.byKey[string(t.Key())]
	if !ok {
		return nil, errors.New("unknown tipset")
	}
	p, ok := m.byKey[x.parent]
	if !ok {
		return nil, errors.New("no parent")
	}
	return p, nil
}

// GetTipsetByEpoch: the tipset at that epoch on the head's ancestry, or the latest non-null one before it
func (m *modelEC) GetTipsetByEpoch(_ context.Context, epoch int64) (ec.TipSet, error) {
	cur, ok := m.byKey[m.head]
	for ok {
		if cur.epoch <= epoch {
			return cur, nil
		}
		cur, ok = m.byKey[cur.parent]
	}
	return nil, fmt.Errorf("no tipset at or before epoch %d", epoch)
}
func (m *modelEC) GetPowerTable(_ context.Context, k gpbft.TipSetKey) (gpbft.PowerEntries, error) {
	t, ok := m.byKey[string(k)]
	if !ok {
		return nil, fmt.Errorf("tipset %q not found", string(k))
	}
	return t.pt, nil
}
func (m *modelEC) Finalize(context.Context, gpbft.TipSetKey) error { return nil }
