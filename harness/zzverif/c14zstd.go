//go:build verif

package main

import "github.com/klauspost/compress/zstd"

// a valid zstd frame that expands to 64 MiB of zeros
func zstdBomb() []byte {
	enc, err := zstd.NewWriter(nil)
	if err != nil {
		return nil
	}
	return enc.EncodeAll(make([]byte, 64<<20), nil)
}

// a well-formed zstd frame around arbitrary content
func zstdFrame(content []byte) []byte {
	enc, err := zstd.NewWriter(nil)
	if err != nil {
		return nil
	}
	return enc.EncodeAll(content, nil)
}
