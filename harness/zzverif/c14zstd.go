//go:build verif

package main

import (
	"bytes"
	"fmt"
	"io"
	"runtime"
	"runtime/debug"
	"sync"
	"time"

	"github.com/filecoin-project/go-f3/gpbft"
	"github.com/filecoin-project/go-f3/internal/encoding"
	"github.com/klauspost/compress/zstd"
)

// a valid zstd frame that expands to 64 MiB of zeros
func zstdBomb() []byte {
	enc, err := zstd.NewWriter(nil)
	if err != nil {
		return nil
	}
	return enc.EncodeAll(make([]byte, 64<<20), nil)
}

// a well-formed zstd frame around arbitrary content
func zstdFrame(content []byte) []byte {
	enc, err := zstd.NewWriter(nil)
	if err != nil {
		return nil
	}
	return enc.EncodeAll(content, nil)
}

// gatedMsg is a PartialGMessage whose CBOR decoder can be held at its very first byte: the compressed decoder has then
// produced the decompressed bytes and is about to parse them.
type gatedMsg struct {
	gpbft.PartialGMessage
	arrived, release chan struct{}
}

func (m *gatedMsg) UnmarshalCBOR(r io.Reader) error {
	if m.arrived != nil {
		m.arrived <- struct{}{}
		<-m.release
	}
	return m.PartialGMessage.UnmarshalCBOR(r)
}

// zstdInFlight: decoding is safe for concurrent use -- while one compressed message is between decompression and the
// end of CBOR parsing, other compressed messages are decoded completely; everybody must get its own message back.
// Scripted interleaving (one P, no GC, so that a pooled scratch buffer released too early is handed out again at once),
// then a plain multi-goroutine stress run.
func zstdInFlight(o *out, msgs []*gpbft.PartialGMessage) {
	if len(msgs) < 2 {
		return
	}
	canon := func(m *gpbft.PartialGMessage) []byte {
		var b bytes.Buffer
		if err := m.MarshalCBOR(&b); err != nil {
			return nil
		}
		return b.Bytes()
	}
	codec, err := encoding.NewZSTD[*gatedMsg]()
	must(err)
	prev := runtime.GOMAXPROCS(1)
	gc := debug.SetGCPercent(-1)
	for i := 0; i+1 < len(msgs) && i < 24; i++ {
		a, b := msgs[i], msgs[i+1]
		ca, cbb := canon(a), canon(b)
		if ca == nil || cbb == nil || bytes.Equal(ca, cbb) {
			continue
		}
		wa, err1 := codec.Encode(&gatedMsg{PartialGMessage: *a})
		wb, err2 := codec.Encode(&gatedMsg{PartialGMessage: *b})
		if err1 != nil || err2 != nil {
			continue
		}
		first := &gatedMsg{arrived: make(chan struct{}, 1), release: make(chan struct{})}
		done := make(chan error, 1)
		go func() { done <- codec.Decode(wa, first) }()
		select {
		case <-first.arrived:
		case err := <-done:
			o.violate("wire types decode to an equal value after encoding, with compression", "c14-zstd-in-flight", map[string]any{"pair": i}, fmt.Sprintf("first decode failed early: %v", err))
			continue
		case <-time.After(20 * time.Second):
			o.Dist["zstd-in-flight-inconclusive"]++ // the decoder goroutine was not scheduled in time (machine overloaded): nothing observed
			continue
		}
		// the first message is decompressed and not yet parsed: decode the second one (twice) in the meantime
		var second gatedMsg
		errB := codec.Decode(wb, &second)
		var third gatedMsg
		_ = codec.Decode(wb, &third)
		close(first.release)
		errA := <-done
		in := map[string]any{"pair": i, "first_sender": a.Sender, "second_sender": b.Sender, "first_len": len(ca), "second_len": len(cbb)}
		if errB != nil || !bytes.Equal(canon(&second.PartialGMessage), cbb) {
			o.violate("wire types decode to an equal value after encoding, with compression (concurrent decoding)", "c14-zstd-in-flight", in, fmt.Sprintf("the message decoded in the meantime differs from what was encoded (err=%v)", errB))
		}
		if errA != nil || !bytes.Equal(canon(&first.PartialGMessage), ca) {
			o.violate("wire types decode to an equal value after encoding, with compression (concurrent decoding)", "c14-zstd-in-flight", in,
				fmt.Sprintf("a message held between decompression and CBOR parsing while another one was decoded came back as a different message (err=%v)", errA))
		}
		o.count("zstd-in-flight", fmt.Sprint(i), true)
	}
	debug.SetGCPercent(gc)
	runtime.GOMAXPROCS(prev)
	// stress: 8 goroutines, each decoding its own message over and over
	plain, err := encoding.NewZSTD[*gpbft.PartialGMessage]()
	must(err)
	var wg sync.WaitGroup
	var mu sync.Mutex
	bad := ""
	for w := 0; w < 8; w++ {
		m := msgs[w%len(msgs)]
		want := canon(m)
		wire, err := plain.Encode(m)
		if err != nil || want == nil {
			continue
		}
		wg.Add(1)
		go func(w int) {
			defer wg.Done()
			for k := 0; k < 150; k++ {
				var got gpbft.PartialGMessage
				if err := plain.Decode(wire, &got); err != nil || !bytes.Equal(canon(&got), want) {
					mu.Lock()
					if bad == "" {
						bad = fmt.Sprintf("goroutine %d iteration %d: err=%v", w, k, err)
					}
					mu.Unlock()
					return
				}
			}
		}(w)
	}
	wg.Wait()
	if bad != "" {
		o.violate("wire types decode to an equal value after encoding, with compression (concurrent decoding)", "c14-zstd-concurrent", nil, bad)
	}
	o.count("zstd-concurrent-stress", "8x150", true)
}
