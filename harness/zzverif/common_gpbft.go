//go:build verif

package main

import (
	"fmt"
	"math/big"

	"github.com/filecoin-project/go-f3/gpbft"
	gbig "github.com/filecoin-project/go-state-types/big"
)

var ptCid = gpbft.MakeCid([]byte("verif-pt"))

func mkTipset(epoch int64, key string) *gpbft.TipSet {
	return &gpbft.TipSet{Epoch: epoch, Key: []byte(key), PowerTable: ptCid}
}

// mkChain builds base@0 followed by n tipsets named by tag.
func mkChain(tag string, n int) *gpbft.ECChain {
	ts := []*gpbft.TipSet{mkTipset(0, "base")}
	for i := 1; i <= n; i++ {
		ts = append(ts, mkTipset(int64(i), fmt.Sprintf("%s-%d", tag, i)))
	}
	return &gpbft.ECChain{TipSets: ts}
}

func bigOf(x *big.Int) gpbft.StoragePower { return gbig.NewFromGo(x) }

// genPowers: random power vectors with skew: equal, geometric, dust vs whale, huge (2^200).
func genPowers(r *rng, n int) []*big.Int {
	ps := make([]*big.Int, n)
	mode := r.intn(6)
	for i := range ps {
		var p *big.Int
		switch mode {
		case 0:
			p = big.NewInt(1 + r.i64n(10))
		case 1:
			p = new(big.Int).Lsh(big.NewInt(1), uint(r.intn(220)))
		case 2:
			p = big.NewInt(1)
			if i == 0 {
				p = new(big.Int).Lsh(big.NewInt(1), 200)
			}
		case 3:
			p = big.NewInt(1 + r.i64n(1<<40))
		case 4:
			p = big.NewInt(int64(1 + i))
		default:
			p = new(big.Int).SetUint64(r.u64() | 1)
			if r.chance(20) {
				p.Mul(p, p)
			}
		}
		ps[i] = p
	}
	return ps
}

func mkPowerTable(ps []*big.Int) (*gpbft.PowerTable, error) {
	pt := gpbft.NewPowerTable()
	entries := make([]gpbft.PowerEntry, len(ps))
	for i, p := range ps {
		entries[i] = gpbft.PowerEntry{ID: gpbft.ActorID(100 + i), Power: bigOf(p), PubKey: []byte{byte(i), byte(i >> 8), 1}}
	}
	err := pt.Add(entries...)
	return pt, err
}
