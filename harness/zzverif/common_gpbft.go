//go:build verif

package main

import (
	"fmt"
	"math/big"

	"github.com/filecoin-project/go-f3/gpbft"
	gbig "github.com/filecoin-project/go-state-types/big"
)

var ptCid = gpbft.MakeCid([]byte("verif-pt"))

func mkTipset(epoch int64, key string) *gpbft.TipSet {
	return &gpbft.TipSet{Epoch: epoch, Key: []byte(key), PowerTable: ptCid}
}

// mkChain builds base@0 followed by n tipsets named by tag.
func mkChain(tag string, n int) *gpbft.ECChain {
	ts := []*gpbft.TipSet{mkTipset(0, "base")}
	for i := 1; i <= n; i++ {
		ts = append(ts, mkTipset(int64(i), fmt.Sprintf("%s-%d", tag, i)))
	}
	return &gpbft.ECChain{TipSets: ts}
}

func bigOf(x *big.Int) gpbft.StoragePower { return gbig.NewFromGo(x) }

// genPowers: random power vectors with skew: equal, geometric, dust vs whale, huge (2^200).
func genPowers(r *rng, n int) []*big.Int {
	ps := make([]*big.Int, n)
	mode := r.intn(6)
	for i := range ps {
		var p *big.Int
		switch mode {
		case 0:
			p = big.NewInt(1 + r.i64n(10))
		case 1:
			p = new(big.Int).Lsh(big.NewInt(1), uint(r.intn(220)))
		case 2:
			p = big.NewInt(1)
			if i == 0 {
				p = new(big.Int).Lsh(big.NewInt(1), 200)
			}
		case 3:
			p = big.NewInt(1 + r.i64n(1<<40))
		case 4:
			p = big.NewInt(int64(1 + i))
		default:
			p = new(big.Int).SetUint64(r.u64() | 1)
			if r.chance(20) {
				p.Mul(p, p)
			}
		}
		ps[i] = p
	}
	return ps
}

// genPowersDominant: a table whose TOTAL has exactly `bits` bits and whose first member holds 50-99 % of it -- swept over
// every bit length, this puts the scaling arithmetic (0xffff * power / total) on both sides of every native integer width
// (2^15, 2^16, 2^31, 2^32, 2^47, 2^48, 2^63, 2^64, ...) with a large numerator.
func genPowersDominant(r *rng, n int, bits int) []*big.Int {
	if bits < 8 {
		bits = 8
	}
	total := new(big.Int).Lsh(big.NewInt(1), uint(bits-1))
	total.Add(total, new(big.Int).Rsh(new(big.Int).Lsh(big.NewInt(int64(r.intn(1000))), uint(bits-1)), 10)) // [2^(bits-1), 2^bits)
	share := int64(50 + r.intn(50))
	dom := new(big.Int).Div(new(big.Int).Mul(total, big.NewInt(share)), big.NewInt(100))
	rest := new(big.Int).Sub(total, dom)
	ps := []*big.Int{dom}
	for i := 1; i < n; i++ {
		p := new(big.Int).Div(rest, big.NewInt(int64(n-1)))
		if i == n-1 { // remainder to the last one, so that the total is exact
			p = new(big.Int).Sub(rest, new(big.Int).Mul(new(big.Int).Div(rest, big.NewInt(int64(n-1))), big.NewInt(int64(n-2))))
		}
		if p.Sign() <= 0 {
			p = big.NewInt(1)
		}
		ps = append(ps, p)
	}
	return ps
}

// bit lengths next to the native integer widths first, then everything else
var criticalBits = []int{48, 64, 32, 16, 47, 63, 31, 15, 49, 65, 33, 17, 56, 80, 128, 24, 40, 72, 96, 200}

func sweepBits(k int) int {
	if k < len(criticalBits) {
		return criticalBits[k]
	}
	return 8 + (k-len(criticalBits))%120
}

func mkPowerTable(ps []*big.Int) (*gpbft.PowerTable, error) {
	pt := gpbft.NewPowerTable()
	entries := make([]gpbft.PowerEntry, len(ps))
	for i, p := range ps {
		entries[i] = gpbft.PowerEntry{ID: gpbft.ActorID(100 + i), Power: bigOf(p), PubKey: []byte{byte(i), byte(i >> 8), 1}}
	}
	err := pt.Add(entries...)
	return pt, err
}

// mkPowerTableIncremental builds the table of mkPowerTable by several Add calls over shuffled batches
func mkPowerTableIncremental(r *rng, ps []*big.Int) (*gpbft.PowerTable, error) {
	pt := gpbft.NewPowerTable()
	order := shuffled(r, len(ps))
	if r.chance(60) {
		// the largest member last
		big0 := 0
		for i, p := range ps {
			if p.Cmp(ps[big0]) > 0 {
				big0 = i
			}
		}
		for k, idx := range order {
			if idx == big0 {
				order[k], order[len(order)-1] = order[len(order)-1], order[k]
			}
		}
	}
	for k := 0; k < len(order); {
		n := 1 + r.intn(3)
		var batch []gpbft.PowerEntry
		for ; n > 0 && k < len(order); n, k = n-1, k+1 {
			i := order[k]
			batch = append(batch, gpbft.PowerEntry{ID: gpbft.ActorID(100 + i), Power: bigOf(ps[i]), PubKey: []byte{byte(i), byte(i >> 8), 1}})
		}
		if err := pt.Add(batch...); err != nil {
			return nil, err
		}
	}
	return pt, nil
}

// Independent quorum arithmetic for ORACLES of the harness (never the implementation's own functions: a defect in
// IsStrongQuorum / Scaled must not be mirrored by the monitor that is supposed to notice it).
func indepStrong(part, whole int64) bool {
	return new(big.Int).Mul(big.NewInt(3), big.NewInt(part)).Cmp(new(big.Int).Mul(big.NewInt(2), big.NewInt(whole))) >= 0
}

// floor(65535 * power / total) per entry, and their sum
func indepScaled(table gpbft.PowerEntries) ([]int64, int64) {
	total := new(big.Int)
	for _, e := range table {
		total.Add(total, e.Power.Int)
	}
	out := make([]int64, len(table))
	var sum int64
	for i, e := range table {
		if total.Sign() > 0 {
			out[i] = new(big.Int).Div(new(big.Int).Mul(big.NewInt(65535), e.Power.Int), total).Int64()
		}
		sum += out[i]
	}
	return out, sum
}
