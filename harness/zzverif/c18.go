//go:build verif

package main

import (
	"context"
	"fmt"
	"strings"
	"time"

	"github.com/filecoin-project/go-f3/chainexchange"
	"github.com/filecoin-project/go-f3/gpbft"
	"github.com/filecoin-project/go-f3/internal/clock"
	pubsub "github.com/libp2p/go-libp2p-pubsub"
)

func init() { runners["C18"] = runC18 }

// chains over a small universe of tipsets; token of a tipset = its epoch (base = 1)
func cxChain(ids []int) *gpbft.ECChain {
	ts := make([]*gpbft.TipSet, len(ids))
	for i, id := range ids {
		ts[i] = mkTipset(int64(i), fmt.Sprintf("t%d", id))
	}
	return &gpbft.ECChain{TipSets: ts}
}
func cxTerm(ids []int) string {
	s := make([]string, len(ids))
	for i, id := range ids {
		s[i] = fmt.Sprint(id)
	}
	return "[" + strings.Join(s, "; ") + "]"
}

func runC18(o *out, r *rng, thorough bool, replay string) {
	o.Rule = "cache histories: lookups (present, absent, zero key), own broadcasts, admitted remote broadcasts incl. floods of unsolicited chains larger than the discovered capacity, prunes, over several instances with small capacities (wanted 2..6, discovered 2..5), fed synchronously to the real PubSubChainExchange through an accessor and replayed on the model; admission: the real pubsub validator on constructed messages (undecodable, empty, malformed, past, too far ahead, timestamp window, base mismatch) with the mock clock; non-trivial = >=1 eviction happened or >=1 placeholder existed; admitted broadcasts are cached after the participant has advanced by 0..2 instances (nothing pruned) and must be retrievable for their instance"
	ctx := context.Background()
	nh := 300
	if thorough {
		nh = 2000
	}
	for hi := 0; hi < nh; hi++ {
		capw, capd := 2+r.intn(5), 2+r.intn(4)
		_, clk := clock.WithMockClock(ctx)
		cur := uint64(5)
		px := chainexchange.VerifNew(func() gpbft.InstanceProgress { return gpbft.InstanceProgress{Instant: gpbft.Instant{ID: cur}} }, capw, capd, 10, 8*time.Second, clk, false)
		var ops, desc []string
		// pool of chains sharing prefixes
		pool := [][]int{{1}, {1, 2}, {1, 2, 3}, {1, 2, 4}, {1, 5}, {1, 5, 6}, {1, 2, 3, 7}, {1, 8}, {1, 9}, {1, 9, 10}, {1, 11}, {1, 12, 13}}
		placeholders, inserted := 0, 0
		steps := 6 + r.intn(30)
		viol := func(clause, sig, detail string) {
			o.violate(clause, sig, map[string]any{"history": append([]string{}, desc...), "cap_wanted": capw, "cap_discovered": capd}, detail)
		}
		asked := map[string]bool{}     // instance/key looked up (wanted)
		fulfilled := map[string]bool{} // asked and then admitted or broadcast
		floodSince := map[string]int{}
		for st := 0; st < steps; st++ {
			inst := uint64(5 + r.intn(3))
			c := pool[r.intn(len(pool))]
			ck := fmt.Sprintf("%d/%v", inst, c)
			switch k := r.intn(100); {
			case k < 35:
				key := cxChain(c).Key()
				got, ok := px.GetChainByInstance(ctx, inst, key)
				exp := "None"
				if ok {
					exp = "(Some " + cxTerm(c) + ")"
					if got.Key() != key {
						viol("a lookup never returns a chain whose key differs from the requested key", "cx-wrong-key", ck)
					}
				} else {
					placeholders++
				}
				asked[ck] = true
				ops = append(ops, fmt.Sprintf("CLookup %d %s %s", inst, cxTerm(c), exp))
				desc = append(desc, fmt.Sprintf("lookup %d %v -> %v", inst, c, ok))
			case k < 40:
				_, ok := px.GetChainByInstance(ctx, inst, gpbft.ECChainKey{})
				if ok {
					viol("the zero key is never found", "cx-zero-key", "")
				}
				ops = append(ops, fmt.Sprintf("CLookup %d [] None", inst))
				desc = append(desc, "lookup zero key")
			case k < 52:
				px.VerifCacheAsWanted(ctx, chainexchange.Message{Instance: inst, Chain: cxChain(c)})
				inserted += len(c)
				// wanted entries of at most capw keys; mark as fulfilled only if it cannot have been evicted by its own prefixes
				if len(c) <= capw {
					fulfilled[ck] = asked[ck] || true
				}
				ops = append(ops, fmt.Sprintf("CWanted %d %s", inst, cxTerm(c)))
				desc = append(desc, fmt.Sprintf("own-broadcast %d %v", inst, c))
			case k < 90:
				px.VerifCacheAsDiscovered(ctx, chainexchange.Message{Instance: inst, Chain: cxChain(c)})
				inserted += len(c)
				if asked[ck] && len(c) <= capw {
					fulfilled[ck] = true
					floodSince[ck] = 0
				}
				for k2 := range fulfilled {
					if k2 != ck && strings.HasPrefix(k2, fmt.Sprintf("%d/", inst)) {
						floodSince[k2]++
					}
				}
				ops = append(ops, fmt.Sprintf("CDiscovered %d %s", inst, cxTerm(c)))
				desc = append(desc, fmt.Sprintf("admitted %d %v", inst, c))
			default:
				n := uint64(5 + r.intn(4))
				must(px.RemoveChainsByInstance(ctx, n))
				for k2 := range fulfilled {
					var i2 uint64
					fmt.Sscanf(k2, "%d/", &i2)
					if i2 < n {
						delete(fulfilled, k2)
						delete(asked, k2)
					}
				}
				ops = append(ops, fmt.Sprintf("CPrune %d", n))
				desc = append(desc, fmt.Sprintf("prune %d", n))
				// pruning removes EXACTLY the instances below n: nothing of an instance below n is retrievable afterwards --
				// whatever was pruned before and whatever was inserted since (these look-ups are part of the history)
				for i2 := uint64(5); i2 < n; i2++ {
					for _, c2 := range [][]int{pool[r.intn(len(pool))], pool[r.intn(len(pool))]} {
						_, ok := px.GetChainByInstance(ctx, i2, cxChain(c2).Key())
						exp := "None"
						if ok {
							exp = "(Some " + cxTerm(c2) + ")"
							viol("pruning removes exactly the instances below the given one", "cx-pruned-still-retrievable",
								fmt.Sprintf("after prune(%d) the chain %v of instance %d is still returned", n, c2, i2))
						} else {
							placeholders++
						}
						asked[fmt.Sprintf("%d/%v", i2, c2)] = true
						ops = append(ops, fmt.Sprintf("CLookup %d %s %s", i2, cxTerm(c2), exp))
						desc = append(desc, fmt.Sprintf("lookup-after-prune %d %v -> %v", i2, c2, ok))
					}
				}
			}
		}
		o.coqCase(fmt.Sprintf("cache history %d (capw=%d capd=%d): %s", hi, capw, capd, strings.Join(desc, " | ")),
			fmt.Sprintf("cache_history_ok %d%%nat %d%%nat %s", capw, capd, cList(ops)))
		o.count("cache-history", strings.Join(ops, ";"), placeholders > 0 || inserted > capd)
		if hi < 2 {
			o.sample(map[string]any{"kind": "cache", "cap_wanted": capw, "cap_discovered": capd, "history": desc})
		}
	}
	// the flood scenario of the property, explicitly: ask, receive, flood with D+1 unsolicited chains, ask again
	for capd := 1; capd <= 4; capd++ {
		_, clk := clock.WithMockClock(ctx)
		px := chainexchange.VerifNew(func() gpbft.InstanceProgress { return gpbft.InstanceProgress{Instant: gpbft.Instant{ID: 5}} }, 8, capd, 10, 8*time.Second, clk, false)
		want := []int{1, 2, 3}
		key := cxChain(want).Key()
		px.GetChainByInstance(ctx, 5, key)
		px.VerifCacheAsDiscovered(ctx, chainexchange.Message{Instance: 5, Chain: cxChain(want)})
		ops := []string{fmt.Sprintf("CLookup 5 %s None", cxTerm(want)), fmt.Sprintf("CDiscovered 5 %s", cxTerm(want))}
		for f := 0; f < capd+3; f++ {
			u := []int{100 + f, 200 + f}
			px.VerifCacheAsDiscovered(ctx, chainexchange.Message{Instance: 5, Chain: cxChain(u)})
			ops = append(ops, fmt.Sprintf("CDiscovered 5 %s", cxTerm(u)))
		}
		_, ok := px.GetChainByInstance(ctx, 5, key)
		exp := "None"
		if ok {
			exp = "(Some " + cxTerm(want) + ")"
		} else {
			o.violate("chains the node has asked for are retained in preference to unsolicited ones, up to the configured capacity", "cx-wanted-lost",
				map[string]any{"cap_discovered": capd, "scenario": "lookup k; chain(k) admitted; capd+3 unsolicited chains admitted; lookup k"}, "wanted chain was evicted by unsolicited ones")
		}
		ops = append(ops, fmt.Sprintf("CLookup 5 %s %s", cxTerm(want), exp))
		o.coqCase(fmt.Sprintf("flood capd=%d", capd), fmt.Sprintf("cache_history_ok 8%%nat %d%%nat %s", capd, cList(ops)))
		o.count("cache-flood", fmt.Sprint(capd), true)
	}

	// re-admission after eviction: a chain already held as wanted is admitted again after its shorter prefixes were
	// evicted from the discovered cache -- "after a chain is admitted, every prefix of it can be retrieved by key"
	for capd := 1; capd <= 4; capd++ {
		for _, capw := range []int{3, 8} {
			_, clk := clock.WithMockClock(ctx)
			px := chainexchange.VerifNew(func() gpbft.InstanceProgress { return gpbft.InstanceProgress{Instant: gpbft.Instant{ID: 5}} }, capw, capd, 10, 8*time.Second, clk, false)
			c := []int{1, 2, 3, 7}
			var ops []string
			px.VerifCacheAsDiscovered(ctx, chainexchange.Message{Instance: 5, Chain: cxChain(c)})
			ops = append(ops, fmt.Sprintf("CDiscovered 5 %s", cxTerm(c)))
			_, ok := px.GetChainByInstance(ctx, 5, cxChain(c).Key())
			exp := "None"
			if ok {
				exp = "(Some " + cxTerm(c) + ")"
			}
			ops = append(ops, fmt.Sprintf("CLookup 5 %s %s", cxTerm(c), exp))
			for f := 0; f < capd+3; f++ {
				u := []int{300 + f, 400 + f}
				px.VerifCacheAsDiscovered(ctx, chainexchange.Message{Instance: 5, Chain: cxChain(u)})
				ops = append(ops, fmt.Sprintf("CDiscovered 5 %s", cxTerm(u)))
			}
			px.VerifCacheAsDiscovered(ctx, chainexchange.Message{Instance: 5, Chain: cxChain(c)}) // admitted again
			ops = append(ops, fmt.Sprintf("CDiscovered 5 %s", cxTerm(c)))
			// the prefixes that can still be held right after this admission: the discovered cache keeps the capd most
			// recently inserted ones (shortest prefixes are inserted last)
			for l := 2; l <= len(c); l++ {
				pre := c[:l]
				_, ok := px.GetChainByInstance(ctx, 5, cxChain(pre).Key())
				exp := "None"
				if ok {
					exp = "(Some " + cxTerm(pre) + ")"
				}
				ops = append(ops, fmt.Sprintf("CLookup 5 %s %s", cxTerm(pre), exp))
				if !ok && l <= capd && l < len(c) { // the capd shortest prefixes (base first) are the last ones inserted
					o.violate("after a chain is admitted, that chain and every prefix of it can be retrieved by key (up to the configured capacity)", "cx-prefix-lost-after-readmission",
						map[string]any{"cap_discovered": capd, "cap_wanted": capw, "scenario": "admit C; lookup C; flood; admit C again; lookup prefixes"}, fmt.Sprint(pre))
					break
				}
			}
			o.coqCase(fmt.Sprintf("readmission capd=%d capw=%d", capd, capw), fmt.Sprintf("cache_history_ok %d%%nat %d%%nat %s", capw, capd, cList(ops)))
			o.count("cache-readmission", fmt.Sprint(capd, capw), true)
		}
	}

	// ---------- admission ----------
	na := 400
	if thorough {
		na = 3000
	}
	for i := 0; i < na; i++ {
		mctx, clk := clock.WithMockClock(ctx)
		_ = mctx
		clk.Set(time.UnixMilli(1_000_000))
		cur := uint64(10)
		lookahead := uint64(r.intn(4))
		hasInput := r.chance(70)
		input := cxChain([]int{1, 2})
		prog := gpbft.InstanceProgress{Instant: gpbft.Instant{ID: cur}}
		if hasInput {
			prog.Input = input
		}
		px := chainexchange.VerifNew(func() gpbft.InstanceProgress { return prog }, 4, 4, lookahead, 8*time.Second, clk, r.chance(30))
		inst := cur
		switch r.intn(5) {
		case 0:
			inst = cur - 1
		case 1:
			inst = cur + lookahead
		case 2:
			inst = cur + lookahead + 1
		case 3:
			inst = cur + uint64(r.intn(3))
		}
		ids := [][]int{{1, 2, 3}, {1}, {9, 2}, {1, 4}}[r.intn(4)]
		chain := cxChain(ids)
		valid := true
		kind := r.intn(10)
		if kind == 0 {
			chain = &gpbft.ECChain{}
		} else if kind == 1 {
			// malformed: epochs not increasing
			chain = &gpbft.ECChain{TipSets: []*gpbft.TipSet{mkTipset(5, "t1"), mkTipset(3, "t2")}}
			ids = []int{1, 2}
			valid = false
		}
		ts := int64(1_000_000)
		switch r.intn(5) {
		case 0:
			ts = 1_000_000 - 8000
		case 1:
			ts = 1_000_000 - 8001
		case 2:
			ts = 1_000_001
		case 3:
			ts = 1_000_000 - int64(r.intn(8000))
		}
		msg := &chainexchange.Message{Instance: inst, Chain: chain, Timestamp: ts}
		data, err := px.VerifEncode(msg)
		decodes := true
		if err != nil || kind == 2 {
			data = []byte{0xff, 0x01, 0x02}
			decodes = false
		}
		res, _ := px.VerifValidate(ctx, data)
		code := map[pubsub.ValidationResult]int{pubsub.ValidationAccept: 0, pubsub.ValidationReject: 1, pubsub.ValidationIgnore: 2}[res]
		base := "None"
		if hasInput {
			base = "(Some 1)"
		}
		chainTerm := cxTerm(ids)
		if kind == 0 {
			chainTerm = "[]"
		}
		o.coqCase(fmt.Sprintf("validator inst=%d chain=%v ts=%d decodes=%v", inst, ids, ts, decodes),
			fmt.Sprintf("Z.eqb (verdict_code (validator_verdict %d %d %s 1000000 8000 (mkB %s %d %s %s %d))) %d", cur, lookahead, base, cBool(decodes), inst, chainTerm, cBool(valid), ts, code))
		o.count("admission", fmt.Sprint(inst, ids, ts, decodes, hasInput, lookahead), code != 0)
		// monitor: the property's list of non-admissible broadcasts
		bad := !decodes || kind == 0 || !valid || inst < cur || inst > cur+lookahead || ts < 1_000_000-8000 || ts > 1_000_000 || (hasInput && inst == cur && ids[0] != 1)
		if bad && res == pubsub.ValidationAccept {
			o.violate("undecodable / empty / malformed / past / too-distant / stale / base-contradicting broadcasts are not admitted", "cx-bad-admitted",
				map[string]any{"instance": inst, "chain": ids, "ts": ts, "decodes": decodes, "lookahead": lookahead, "has_input": hasInput}, "")
		}
		if res == pubsub.ValidationAccept && decodes && kind != 0 && valid {
			// admitted: the subscription loop caches it a moment later -- by then the participant may have moved on to a later
			// instance (nothing is pruned by that).  The chain and every prefix must be retrievable for ITS instance.
			adv := uint64(0)
			if r.chance(60) {
				adv = uint64(1 + r.intn(2))
				prog.ID += adv
			}
			px.VerifCacheAsDiscovered(ctx, *msg)
			for _, pf := range chain.AllPrefixes() {
				if got, ok := px.GetChainByInstance(ctx, inst, pf.Key()); !ok || !got.Eq(pf) {
					o.violate("after a chain broadcast is admitted, that chain and every prefix of it can be retrieved by key for that instance", "cx-admitted-not-retrievable",
						map[string]any{"instance": inst, "chain": ids, "validated_at_instance": cur, "participant_advanced_by": adv, "prefix_len": pf.Len()},
						"the chain was admitted by the validator, the participant moved on before it was cached, nothing was pruned")
					break
				}
			}
			prog.ID = cur
			o.Dist[fmt.Sprintf("admitted-then-advanced-%d", adv)]++
		}
		if !bad && res != pubsub.ValidationAccept {
			o.violate("well-formed timely broadcasts for the current or an allowed future instance are admitted", "cx-good-rejected",
				map[string]any{"instance": inst, "chain": ids, "ts": ts, "lookahead": lookahead, "has_input": hasInput}, fmt.Sprint(res))
		}
	}
	o.finish("From F3 Require Import Cache CacheRun.")
}
