//go:build verif

// verifharness: generators, implementation runners and property monitors for the
// /verif checks.  Compiled INTO the go-f3 module with `go build -overlay` from
// /repo's current working tree on every run (nothing is committed to /repo).
package main

import (
	"fmt"
	"os"
	"strconv"
)

type runner func(o *out, r *rng, thorough bool, replay string)

var runners = map[string]runner{}

func main() {
	if len(os.Args) < 5 {
		fmt.Fprintln(os.Stderr, "usage: verifharness <id> <seed> <tier> <outdir> [replay]")
		os.Exit(2)
	}
	id := os.Args[1]
	seed, _ := strconv.ParseUint(os.Args[2], 10, 64)
	tier := os.Args[3]
	dir := os.Args[4]
	replay := ""
	if len(os.Args) > 5 {
		replay = os.Args[5]
	}
	run, ok := runners[id]
	if !ok {
		fmt.Fprintln(os.Stderr, "unknown property", id)
		os.Exit(2)
	}
	o := newOut(id, seed, tier, dir)
	run(o, newRng(seed), tier == "thorough", replay)
}
