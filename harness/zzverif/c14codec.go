//go:build verif

package main

// C14, codec correspondence with the generic Coq codec model (Enc/Codec.v) instantiated with the schemas that go2coq
// regenerates from the cbor_gen.go files (Gen/SchemasGen.v):
//   * every value: the bytes written by the real MarshalCBOR must be the bytes the model's `encode` computes for the
//     same value (the value is handed to Coq as a term built by reflection over the Go value, field by field);
//   * hostile inputs (truncations, bit flips, inflated lengths, random bytes, doubled input): the real UnmarshalCBOR and
//     the model's `decode` must agree on accept/reject, on the number of bytes left unread, and on the decoded value
//     (compared through its canonical re-encoding).

import (
	"bytes"
	"fmt"
	"math/big"
	"reflect"
	"strings"

	"github.com/filecoin-project/go-bitfield"
	"github.com/filecoin-project/go-f3/gpbft"
	"github.com/ipfs/go-cid"
)

var (
	tCid      = reflect.TypeOf(cid.Cid{})
	tBitfield = reflect.TypeOf(bitfield.BitField{})
	tECChain  = reflect.TypeOf(gpbft.ECChain{})
	tBigInt   = reflect.TypeOf(gpbft.StoragePower{})
)

func zbytes(b []byte) string {
	var sb strings.Builder
	sb.WriteString("[")
	for i, x := range b {
		if i > 0 {
			sb.WriteString(";")
		}
		fmt.Fprintf(&sb, "%d", x)
	}
	sb.WriteString("]")
	return sb.String()
}

// valTerm renders a Go value as a term of the Coq type Codec.value, following the Go type structure in declaration order
// (which is the order cbor-gen emits fields in).
func valTerm(v reflect.Value) string {
	t := v.Type()
	switch {
	case t == tCid:
		c := v.Interface().(cid.Cid)
		return "(VBytes " + zbytes(c.Bytes()) + ")"
	case t == tBitfield:
		bf := v.Interface().(bitfield.BitField)
		var b bytes.Buffer
		must(bf.MarshalCBOR(&b))
		raw := b.Bytes()
		// strip the byte-string header the bitfield wrote itself
		_, n, hl := cborHead(raw)
		if int(n)+hl != len(raw) {
			panic("bitfield header")
		}
		return "(VBytes " + zbytes(raw[hl:]) + ")"
	case t == tBigInt:
		bi := v.Interface().(gpbft.StoragePower)
		if bi.Int == nil {
			return "(VBig 0)"
		}
		return "(VBig " + cBig(new(big.Int).Set(bi.Int)) + ")"
	case t == tECChain:
		ts := v.FieldByName("TipSets")
		var xs []string
		for i := 0; i < ts.Len(); i++ {
			xs = append(xs, valTerm(ts.Index(i).Elem()))
		}
		return "(VList " + cList(xs) + ")"
	}
	switch t.Kind() {
	case reflect.Uint64, reflect.Uint8, reflect.Uint32, reflect.Uint16, reflect.Uint:
		return "(VZ " + cU(v.Uint()) + ")"
	case reflect.Int64, reflect.Int:
		return "(VZ " + cZ(v.Int()) + ")"
	case reflect.Bool:
		return "(VB " + cBool(v.Bool()) + ")"
	case reflect.Slice:
		if t.Elem().Kind() == reflect.Uint8 {
			return "(VBytes " + zbytes(v.Bytes()) + ")"
		}
		var xs []string
		for i := 0; i < v.Len(); i++ {
			xs = append(xs, valTerm(v.Index(i)))
		}
		return "(VList " + cList(xs) + ")"
	case reflect.Array:
		b := make([]byte, v.Len())
		for i := range b {
			b[i] = byte(v.Index(i).Uint())
		}
		return "(VBytes " + zbytes(b) + ")"
	case reflect.Ptr:
		if t.Elem() == tECChain {
			// SNullDef: a nil chain is the empty chain
			if v.IsNil() {
				return "(VList [])"
			}
			return valTerm(v.Elem())
		}
		if v.IsNil() {
			return "VNone"
		}
		return "(VSome " + valTerm(v.Elem()) + ")"
	case reflect.Struct:
		var xs []string
		for i := 0; i < t.NumField(); i++ {
			f := t.Field(i)
			if f.Tag.Get("cborgen") == "ignore" {
				continue
			}
			xs = append(xs, valTerm(v.Field(i)))
		}
		return "(VList " + cList(xs) + ")"
	}
	panic("valTerm: unsupported type " + t.String())
}

// cborHead parses a canonical CBOR head: (major, argument, head length)
func cborHead(b []byte) (byte, uint64, int) {
	mt, low := b[0]>>5, b[0]&31
	switch {
	case low < 24:
		return mt, uint64(low), 1
	case low == 24:
		return mt, uint64(b[1]), 2
	case low == 25:
		return mt, uint64(b[1])<<8 | uint64(b[2]), 3
	case low == 26:
		return mt, uint64(b[1])<<24 | uint64(b[2])<<16 | uint64(b[3])<<8 | uint64(b[4]), 5
	default:
		var n uint64
		for i := 1; i <= 8; i++ {
			n = n<<8 | uint64(b[i])
		}
		return mt, n, 9
	}
}

var schemaOf = map[string]string{
	"GMessage": "s_GMessage", "PartialGMessage": "s_PartialGMessage", "Justification": "s_Justification", "Payload": "s_Payload",
	"ECChain": "s_ECChain", "TipSet": "s_TipSet", "SupplementalData": "s_SupplementalData", "PowerEntries": "s_PowerEntries",
	"FinalityCertificate": "s_FinalityCertificate", "PowerTableDiff": "s_PowerTableDiff", "certexchange.Request": "s_Request",
	"certexchange.ResponseHeader": "s_ResponseHeader", "chainexchange.Message": "s_Message", "certstore.SnapshotHeader": "s_SnapshotHeader",
	"PowerEntry": "s_PowerEntry", "PowerTableDelta": "s_PowerTableDelta",
}

const modelMaxBytes = 5000 // larger encodings are exercised on the implementation only (Coq term size)

// modelEncodeCase: the model must compute exactly the bytes the implementation wrote for this value
func modelEncodeCase(o *out, typ string, v any, b []byte) {
	s, ok := schemaOf[typ]
	if !ok || len(b) > modelMaxBytes {
		o.Dist["codec-model-skipped"]++
		return
	}
	rv := reflect.ValueOf(v)
	for rv.Kind() == reflect.Ptr {
		rv = rv.Elem()
	}
	o.coqCase(fmt.Sprintf("codec encode %s (%d bytes)", typ, len(b)), fmt.Sprintf("enc_ok %s %s %s", s, valTerm(rv), zbytes(b)))
	o.Dist["codec-model-encode"]++
}

// modelDecodeCase: verdict, unread bytes and decoded value (through its re-encoding) must agree
func modelDecodeCase(o *out, typ, kind string, d []byte, goErr error, remaining int, reenc []byte) {
	s, ok := schemaOf[typ]
	if !ok || len(d) > modelMaxBytes {
		return
	}
	o.coqCase(fmt.Sprintf("codec decode %s %s input=%x go_err=%v", typ, kind, d, goErr),
		fmt.Sprintf("dec_ok %s %s %s %s %d", s, zbytes(d), cBool(goErr != nil), zbytes(reenc), remaining))
	o.Dist["codec-model-decode-"+kind]++
	if goErr == nil {
		o.Dist["codec-model-decode-accepted"]++
	}
}

// rawEncode writes a Go value in the cbor-gen wire format WITHOUT any length check (a writer of hostile input), following
// the Go type structure exactly like valTerm does.
func rawEncode(w *bytes.Buffer, v reflect.Value) {
	t := v.Type()
	hdr := func(mt byte, n uint64) {
		switch {
		case n < 24:
			w.WriteByte(mt<<5 | byte(n))
		case n < 1<<8:
			w.Write([]byte{mt<<5 | 24, byte(n)})
		case n < 1<<16:
			w.Write([]byte{mt<<5 | 25, byte(n >> 8), byte(n)})
		case n < 1<<32:
			w.Write([]byte{mt<<5 | 26, byte(n >> 24), byte(n >> 16), byte(n >> 8), byte(n)})
		default:
			w.WriteByte(mt<<5 | 27)
			for i := 7; i >= 0; i-- {
				w.WriteByte(byte(n >> (8 * uint(i))))
			}
		}
	}
	switch {
	case t == tCid:
		c := v.Interface().(cid.Cid)
		hdr(6, 42)
		hdr(2, uint64(len(c.Bytes())+1))
		w.WriteByte(0)
		w.Write(c.Bytes())
		return
	case t == tBitfield:
		bf := v.Interface().(bitfield.BitField)
		must(bf.MarshalCBOR(w))
		return
	case t == tBigInt:
		bi := v.Interface().(gpbft.StoragePower)
		must(bi.MarshalCBOR(w))
		return
	case t == tECChain:
		ts := v.FieldByName("TipSets")
		hdr(4, uint64(ts.Len()))
		for i := 0; i < ts.Len(); i++ {
			rawEncode(w, ts.Index(i).Elem())
		}
		return
	}
	switch t.Kind() {
	case reflect.Uint64, reflect.Uint8, reflect.Uint32, reflect.Uint16, reflect.Uint:
		hdr(0, v.Uint())
	case reflect.Int64, reflect.Int:
		if v.Int() >= 0 {
			hdr(0, uint64(v.Int()))
		} else {
			hdr(1, uint64(-v.Int()-1))
		}
	case reflect.Bool:
		if v.Bool() {
			w.WriteByte(0xf5)
		} else {
			w.WriteByte(0xf4)
		}
	case reflect.Slice:
		if t.Elem().Kind() == reflect.Uint8 {
			hdr(2, uint64(v.Len()))
			w.Write(v.Bytes())
			return
		}
		hdr(4, uint64(v.Len()))
		for i := 0; i < v.Len(); i++ {
			rawEncode(w, v.Index(i))
		}
	case reflect.Array:
		hdr(2, uint64(v.Len()))
		for i := 0; i < v.Len(); i++ {
			w.WriteByte(byte(v.Index(i).Uint()))
		}
	case reflect.Ptr:
		if v.IsNil() {
			if t.Elem() == tECChain {
				w.WriteByte(0x80)
			} else {
				w.WriteByte(0xf6)
			}
			return
		}
		rawEncode(w, v.Elem())
	case reflect.Struct:
		n := 0
		for i := 0; i < t.NumField(); i++ {
			if t.Field(i).Tag.Get("cborgen") != "ignore" {
				n++
			}
		}
		hdr(4, uint64(n))
		for i := 0; i < t.NumField(); i++ {
			if t.Field(i).Tag.Get("cborgen") != "ignore" {
				rawEncode(w, v.Field(i))
			}
		}
	default:
		panic("rawEncode: unsupported type " + t.String())
	}
}

// documentedLimit of a struct field: the cborgen maxlen tag, else cbor-gen's defaults (8192 elements, 2 MiB bytes)
func documentedLimit(f reflect.StructField) (int, bool) {
	isBytes := f.Type.Kind() == reflect.Slice && f.Type.Elem().Kind() == reflect.Uint8
	isList := f.Type.Kind() == reflect.Slice && !isBytes
	if !isBytes && !isList {
		return 0, false
	}
	tag := f.Tag.Get("cborgen")
	if strings.HasPrefix(tag, "maxlen=") {
		var n int
		fmt.Sscanf(tag, "maxlen=%d", &n)
		return n, true
	}
	if isBytes {
		return 2 << 20, true
	}
	return 8192, true
}

// limitMonitor: for every length-limited field reachable at the top level of a wire value, an encoding holding exactly
// the documented limit must decode and one holding limit+1 must be REJECTED by the real decoder (and refused by the real
// encoder).  Inputs are written by rawEncode, so no limit of the production writer hides a lax reader.
func limitMonitor(o *out, typ string, v any, fresh func() any, dec func(any, []byte) error, enc func(any) ([]byte, error)) {
	rv := reflect.ValueOf(v)
	if rv.Kind() != reflect.Ptr || rv.Elem().Kind() != reflect.Struct {
		return
	}
	// work on a shallow copy so that the caller's value is untouched
	cp := reflect.New(rv.Elem().Type())
	cp.Elem().Set(rv.Elem())
	st := cp.Elem()
	for i := 0; i < st.NumField(); i++ {
		f := st.Type().Field(i)
		lim, ok := documentedLimit(f)
		if !ok || lim > 1<<16 || !st.Field(i).CanSet() {
			continue
		}
		old := st.Field(i).Interface()
		mk := func(n int) reflect.Value {
			s := reflect.MakeSlice(f.Type, n, n)
			if f.Type.Elem().Kind() != reflect.Uint8 && st.Field(i).Len() > 0 {
				for k := 0; k < n; k++ {
					s.Index(k).Set(st.Field(i).Index(0))
				}
			}
			return s
		}
		if f.Type.Elem().Kind() != reflect.Uint8 && reflect.ValueOf(old).Len() == 0 {
			continue // no element to replicate
		}
		for _, n := range []int{lim, lim + 1} {
			fld := mk(n)
			st.Field(i).Set(fld)
			var b bytes.Buffer
			rawEncode(&b, st)
			err := dec(fresh(), b.Bytes())
			_, eerr := enc(cp.Interface())
			in := map[string]any{"type": typ, "field": f.Name, "documented_limit": lim, "length": n, "encoding_bytes": b.Len()}
			if n == lim && err != nil {
				o.violate("every wire and storage type decodes to an equal value after encoding (a field at its documented limit)", "c14-at-limit-rejected:"+typ+"."+f.Name, in, err.Error())
			}
			if n == lim+1 && err == nil {
				o.violate("decoding oversized input returns an error without allocating beyond the documented limits", "c14-over-limit-accepted:"+typ+"."+f.Name, in,
					fmt.Sprintf("the reader accepted %d elements in a field documented (cborgen maxlen / cbor-gen default) to hold at most %d", n, lim))
			}
			if n == lim+1 && eerr == nil {
				o.violate("encoders refuse values beyond the documented limits", "c14-over-limit-encoded:"+typ+"."+f.Name, in, "")
			}
			o.count("codec-limit", fmt.Sprint(typ, f.Name, n), true)
		}
		st.Field(i).Set(reflect.ValueOf(old))
	}
}

// headPositions walks a well-formed CBOR encoding and returns the offset of every item head.
func headPositions(b []byte) []int {
	var out []int
	var walk func(p int) int
	walk = func(p int) int {
		if p >= len(b) {
			return len(b) + 1
		}
		out = append(out, p)
		mt, n, hl := cborHead(append(b[p:len(b):len(b)], 0, 0, 0, 0, 0, 0, 0, 0, 0))
		p += hl
		switch mt {
		case 2, 3:
			return p + int(n)
		case 4:
			for i := uint64(0); i < n && p <= len(b); i++ {
				p = walk(p)
			}
			return p
		case 5:
			for i := uint64(0); i < 2*n && p <= len(b); i++ {
				p = walk(p)
			}
			return p
		case 6:
			return walk(p)
		}
		return p
	}
	for p := 0; p < len(b); {
		p = walk(p)
	}
	return out
}
