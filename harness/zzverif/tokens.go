//go:build verif

package main

import (
	"fmt"
	"strings"

	"github.com/filecoin-project/go-f3/certs"
	"github.com/filecoin-project/go-f3/gpbft"
	"github.com/ipfs/go-cid"
)

// tok maps byte strings / CIDs to small integers so that Coq models compare tokens, not hashes.
type tok struct {
	m map[string]int64
}

func newTok() *tok { return &tok{m: map[string]int64{}} }
func (t *tok) of(kind string, b []byte) int64 {
	if len(b) == 0 {
		return 0
	}
	k := kind + ":" + string(b)
	if v, ok := t.m[k]; ok {
		return v
	}
	v := int64(len(t.m) + 1)
	t.m[k] = v
	return v
}
func (t *tok) cid(c cid.Cid) int64 {
	if !c.Defined() {
		return 0
	}
	return t.of("cid", c.Bytes())
}

func (t *tok) entry(e gpbft.PowerEntry) string {
	return fmt.Sprintf("(mkE %s %s %s)", cU(uint64(e.ID)), cBig(e.Power.Int), cZ(t.of("key", e.PubKey)))
}
func (t *tok) table(pe gpbft.PowerEntries) string {
	s := make([]string, len(pe))
	for i, e := range pe {
		s[i] = t.entry(e)
	}
	return cList(s)
}
func (t *tok) delta(d certs.PowerTableDelta) string {
	return fmt.Sprintf("(mkD %s %s %s)", cU(uint64(d.ParticipantID)), cBig(d.PowerDelta.Int), cZ(t.of("key", d.SigningKey)))
}
func (t *tok) diff(ds certs.PowerTableDiff) string {
	s := make([]string, len(ds))
	for i, d := range ds {
		s[i] = t.delta(d)
	}
	return cList(s)
}
func (t *tok) tipset(ts *gpbft.TipSet) string {
	cl := 0
	if ts.PowerTable.Defined() {
		cl = ts.PowerTable.ByteLen()
	}
	return fmt.Sprintf("(mkTS %s %s %d %s %d %s)", cZ(ts.Epoch), cZ(t.of("tsk", ts.Key)), len(ts.Key), cZ(t.cid(ts.PowerTable)), cl, cZ(t.of("commit", ts.Commitments[:])))
}
func (t *tok) chain(c *gpbft.ECChain) string {
	if c == nil {
		return "[]"
	}
	s := make([]string, len(c.TipSets))
	for i, ts := range c.TipSets {
		s[i] = t.tipset(ts)
	}
	return cList(s)
}

func errClass(err error, classes [][2]string) string {
	if err == nil {
		return "ok"
	}
	for _, c := range classes {
		if strings.Contains(err.Error(), c[0]) {
			return c[1]
		}
	}
	return "other:" + err.Error()
}
