//go:build verif

package main

import (
	"fmt"
	"os"
	"path/filepath"
	"strings"

	"context"
	f3 "github.com/filecoin-project/go-f3"
	"github.com/filecoin-project/go-f3/gpbft"
	"github.com/filecoin-project/go-f3/manifest"
	"github.com/filecoin-project/go-f3/sim/signing"
	pubsub "github.com/libp2p/go-libp2p-pubsub"
	mocknetwork "github.com/libp2p/go-libp2p/p2p/net/mock"
)

func init() { runners["C12"] = runC12 }

type eqMsg struct {
	inst, sender, round uint64
	phase               gpbft.Phase
	sig                 byte
}

func (e eqMsg) gmsg() *gpbft.GMessage {
	return &gpbft.GMessage{Sender: gpbft.ActorID(e.sender), Vote: gpbft.Payload{Instance: e.inst, Round: e.round, Phase: e.phase, SupplementalData: gpbft.SupplementalData{PowerTable: ptCid}, Value: &gpbft.ECChain{}},
		Signature: []byte{e.sig, 0xAA}}
}
func (e eqMsg) term() string {
	return fmt.Sprintf("(mkMsg %d %d %d %d %d)", e.inst, e.sender, e.round, int(e.phase), e.sig)
}

// peer ids are compared as strings by the filter (slices.Sort); tokens preserve that order
var eqPeers = []string{"peerA", "peerM", "peerZ"} // local = peerM (token 2); A < M < Z
func peerTok(p string) int {
	for i, x := range eqPeers {
		if x == p {
			return i + 1
		}
	}
	return 0
}

func runC12(o *out, r *rng, thorough bool, replay string) {
	o.Rule = "filter: EXHAUSTIVE enumeration of all operation sequences up to a bound over an alphabet of 8 broadcasts (2 instances x 2 slots x 2 signatures) and 4 receives (2 peers, one ordered below and one above the local peer id) on the real equivocationFilter (accessor) vs the model, plus random long histories; host: random histories of (conflicting) broadcast requests, rebroadcasts, crashes before/after the WAL append, restarts and purges over the real filter + real WAL; non-trivial = history contains a conflicting request; restarts of the real runner may leave a torn record at the end of the newest log file (crash inside a WAL append)"
	local := "peerM"
	var alphabet []string
	type op struct {
		recv bool
		peer string
		m    eqMsg
	}
	var ops []op
	for _, inst := range []uint64{1, 2} {
		for _, slot := range []struct {
			r uint64
			p gpbft.Phase
		}{{0, gpbft.PREPARE_PHASE}, {1, gpbft.COMMIT_PHASE}} {
			for _, sig := range []byte{1, 2} {
				ops = append(ops, op{m: eqMsg{inst, 7, slot.r, slot.p, sig}})
			}
		}
	}
	for _, p := range []string{"peerA", "peerZ"} {
		ops = append(ops, op{recv: true, peer: p, m: eqMsg{1, 7, 0, gpbft.PREPARE_PHASE, 2}})
		ops = append(ops, op{recv: true, peer: p, m: eqMsg{2, 7, 0, gpbft.PREPARE_PHASE, 1}})
	}
	_ = alphabet
	runSeq := func(seq []int) (string, string, bool) {
		f := f3.VerifNewFilter(local)
		var terms, exp []string
		conflict := false
		seen := map[string]byte{}
		for _, i := range seq {
			x := ops[i]
			if x.recv {
				f.ProcessReceive(x.peer, x.m.gmsg())
				terms = append(terms, fmt.Sprintf("FR %d %s", peerTok(x.peer), x.m.term()))
				exp = append(exp, "true")
			} else {
				ok := f.ProcessBroadcast(x.m.gmsg())
				terms = append(terms, "FB "+x.m.term())
				exp = append(exp, cBool(ok))
				k := fmt.Sprint(x.m.inst, x.m.round, x.m.phase)
				if s, okk := seen[k]; okk && s != x.m.sig {
					conflict = true
				}
				seen[k] = x.m.sig
			}
		}
		return cList(terms), cList(exp), conflict
	}
	maxLen := 3
	if thorough {
		maxLen = 4
	}
	var rec func(seq []int)
	count := 0
	rec = func(seq []int) {
		if len(seq) > 0 {
			t, e, c := runSeq(seq)
			o.coqCase(fmt.Sprintf("filter seq %v", seq), fmt.Sprintf("filter_ok 2 %s %s", t, e))
			o.count("filter-exhaustive", t, c)
			count++
		}
		if len(seq) == maxLen {
			return
		}
		for i := range ops {
			rec(append(append([]int{}, seq...), i))
		}
	}
	rec(nil)
	o.Exhaustive = true
	o.Extra["exhaustive_filter_sequences"] = count
	o.Extra["exhaustive_bound"] = maxLen
	nl := 150
	if thorough {
		nl = 1500
	}
	for i := 0; i < nl; i++ {
		n := 5 + r.intn(25)
		seq := make([]int, n)
		for j := range seq {
			seq[j] = r.intn(len(ops))
		}
		t, e, c := runSeq(seq)
		o.coqCase(fmt.Sprintf("filter random %v", seq), fmt.Sprintf("filter_ok 2 %s %s", t, e))
		o.count("filter-random", t, c)
		if i < 1 {
			o.sample(map[string]any{"kind": "filter", "ops": t, "verdicts": e})
		}
	}

	// random histories over a WIDE alphabet: rounds 0..5 that mostly grow and are revisited, every step, two signatures
	for i := 0; i < nl; i++ {
		f := f3.VerifNewFilter(local)
		var terms, exp []string
		conflict := false
		seen := map[string]byte{}
		inst, round := uint64(1), uint64(0)
		for j, n := 0, 8+r.intn(30); j < n; j++ {
			if r.chance(8) {
				inst++
				round = 0
			} else if r.chance(30) && round < 5 {
				round++
			}
			mr := round
			if r.chance(45) {
				mr = uint64(r.intn(int(round) + 1))
			}
			x := eqMsg{inst, 7, mr, gpbft.Phase(1 + r.intn(5)), byte(1 + r.intn(2))}
			ok := f.ProcessBroadcast(x.gmsg())
			terms = append(terms, "FB "+x.term())
			exp = append(exp, cBool(ok))
			k := fmt.Sprint(x.inst, x.round, x.phase)
			if sg, okk := seen[k]; okk && sg != x.sig {
				conflict = true
				if ok {
					o.violate("never two differently signed messages for the same instance, sender, round and step", "filter-equivocation-admitted",
						map[string]any{"ops": append([]string{}, terms...)}, fmt.Sprintf("the filter admitted %s although a different signature was admitted for that slot before", x.term()))
				}
			}
			if _, okk := seen[k]; !okk && ok {
				seen[k] = x.sig
			}
		}
		o.coqCase(fmt.Sprintf("filter wide random %d", i), fmt.Sprintf("filter_ok 2 %s %s", cList(terms), cList(exp)))
		o.count("filter-wide-random", cList(terms), conflict)
	}

	// ---------- host path over the real filter + real WAL ----------
	nh := 80
	if thorough {
		nh = 400
	}
	base := filepath.Join(o.dir, "wal12")
	for hi := 0; hi < nh; hi++ {
		dir := filepath.Join(base, fmt.Sprintf("h%d", hi))
		must(os.MkdirAll(dir, 0o755))
		wal, err := f3.VerifOpenWAL(dir)
		must(err)
		flt := f3.VerifNewFilter(local)
		var wire []eqMsg
		var hops, desc []string
		conflict := false
		said := map[string]byte{}
		restart := func() {
			_ = wal.Close()
			wal, err = f3.VerifOpenWAL(dir)
			must(err)
			flt = f3.VerifNewFilter(local)
			es, err := wal.All()
			must(err)
			for _, e := range es {
				flt.ProcessBroadcast(e.Message)
			}
		}
		curInst := uint64(1)
		curRound := uint64(0)
		keep := uint64(0)
		steps := 10 + r.intn(30)
		for st := 0; st < steps; st++ {
			if r.chance(15) {
				curInst += uint64(1 + r.intn(2))
				curRound = 0
			} else if r.chance(25) {
				curRound++ // the instance moves on to later rounds; requests for EARLIER rounds keep arriving (restarts, rebroadcasts)
			}
			inst := curInst
			if r.chance(15) && inst > keep && inst > 1 {
				inst-- // a stale request for an older instance (must be refused, or harmless)
				if inst < keep {
					inst = keep
				}
			}
			mround := curRound
			if r.chance(40) {
				mround = uint64(r.intn(int(curRound) + 1))
			}
			m := eqMsg{inst, 7, mround, gpbft.Phase(1 + r.intn(5)), byte(1 + r.intn(2))}
			k := fmt.Sprint(m.inst, m.round, m.phase)
			if s, ok := said[k]; ok && s != m.sig {
				conflict = true
			}
			switch c := r.intn(100); {
			case c < 50:
				if flt.ProcessBroadcast(m.gmsg()) {
					must(wal.Append(f3.VerifNewWalEntry(m.gmsg())))
					wire = append(wire, m)
				}
				said[k] = m.sig
				hops = append(hops, "HBroadcast "+m.term())
				desc = append(desc, "broadcast "+m.term())
			case c < 58:
				flt.ProcessBroadcast(m.gmsg())
				restart()
				hops = append(hops, "HCrashAfterFilter "+m.term())
				desc = append(desc, "crash-after-filter "+m.term())
			case c < 66:
				if flt.ProcessBroadcast(m.gmsg()) {
					must(wal.Append(f3.VerifNewWalEntry(m.gmsg())))
				}
				restart()
				hops = append(hops, "HCrashAfterWal "+m.term())
				desc = append(desc, "crash-after-wal "+m.term())
			case c < 76 && len(wire) > 0:
				w := wire[r.intn(len(wire))]
				if w.inst >= keep {
					// rebroadcast of a logged message: filter, publish (no WAL append)
					es, _ := wal.All()
					logged := false
					for _, e := range es {
						if e.Message.Vote.Instance == w.inst && e.Message.Vote.Round == w.round && e.Message.Vote.Phase == w.phase && e.Message.Signature[0] == w.sig {
							logged = true
						}
					}
					if logged && flt.ProcessBroadcast(w.gmsg()) {
						wire = append(wire, w)
					}
					hops = append(hops, "HRebroadcast "+w.term())
					desc = append(desc, "rebroadcast "+w.term())
				}
			case c < 84:
				restart()
				hops = append(hops, "HRestart")
				desc = append(desc, "restart")
			case c < 92:
				// the host purges cert-5: only instances the node has left behind
				if curInst > 1 {
					k := curInst - 1
					if k > keep {
						keep = k
					}
					before, _ := wal.All()
					must(wal.Rotate())
					must(wal.Purge(k))
					after, _ := wal.All()
					// which entries vanished: per-entry flags in WAL order
					flags := make([]string, len(before))
					j := 0
					for i, e := range before {
						if j < len(after) && after[j].Message.Vote.Instance == e.Message.Vote.Instance && after[j].Message.Vote.Round == e.Message.Vote.Round &&
							after[j].Message.Vote.Phase == e.Message.Vote.Phase && after[j].Message.Signature[0] == e.Message.Signature[0] {
							flags[i] = "false"
							j++
						} else {
							flags[i] = "true"
						}
					}
					hops = append(hops, fmt.Sprintf("HPurge %d %s", k, cList(flags)))
					desc = append(desc, fmt.Sprintf("purge %d", k))
				}
			default:
				peer := pick(r, []string{"peerA", "peerZ"})
				fm := eqMsg{inst, 9, m.round, m.phase, m.sig} // a foreign identity
				flt.ProcessReceive(peer, fm.gmsg())
				hops = append(hops, fmt.Sprintf("HReceive %d %s", peerTok(peer), fm.term()))
				desc = append(desc, "receive "+fm.term())
			}
		}
		// monitors: the property on the wire
		slot := map[string]byte{}
		var maxInst uint64
		for _, w := range wire {
			k := fmt.Sprint(w.inst, w.sender, w.round, w.phase)
			if s, ok := slot[k]; ok && s != w.sig {
				o.violate("never two differently signed messages for one (instance, sender, round, step)", "wire-equivocation", map[string]any{"history": desc}, k)
			}
			slot[k] = w.sig
			if w.inst < maxInst {
				o.violate("never a message for an instance older than one already broadcast for", "wire-older-instance", map[string]any{"history": desc}, fmt.Sprint(w.inst, maxInst))
			}
			if w.inst > maxInst {
				maxInst = w.inst
			}
		}
		var wt, lt []string
		for _, w := range wire {
			wt = append(wt, w.term())
		}
		es, _ := wal.All()
		for _, e := range es {
			lt = append(lt, eqMsg{e.Message.Vote.Instance, uint64(e.Message.Sender), e.Message.Vote.Round, e.Message.Vote.Phase, e.Message.Signature[0]}.term())
		}
		_ = wal.Close()
		o.coqCase(fmt.Sprintf("host history %d: %s", hi, strings.Join(desc, " | ")), fmt.Sprintf("host_ok 2 %s %s %s", cList(hops), cList(wt), cList(lt)))
		o.count("host-history", strings.Join(hops, ";"), conflict)
		if hi < 2 {
			o.sample(map[string]any{"kind": "host", "history": desc, "wire": wt})
		}
		os.RemoveAll(dir)
	}
	os.RemoveAll(base)
	runC12Runner(o, r, thorough)
	o.finish("From F3 Require Import Filter FilterRun.")
}

// ---------- the REAL gpbftRunner: BroadcastMessage / rebroadcastMessage / WAL replay in newRunner ----------
func runC12Runner(o *out, r *rng, thorough bool) {
	ctx := context.Background()
	mn := mocknetwork.New()
	defer mn.Close()
	h, err := mn.GenPeer()
	must(err)
	ps, err := pubsub.NewGossipSub(ctx, h)
	must(err)
	backend := signing.NewFakeBackend()
	k, _ := backend.GenerateKey()
	table := gpbft.PowerEntries{{ID: 7, Power: gpbft.NewStoragePower(10), PubKey: k}}
	m := manifest.LocalDevnetManifest()
	m.NetworkName = verifNet
	mec := newModelEC()
	nh := 60
	if thorough {
		nh = 300
	}
	base := filepath.Join(o.dir, "wal12r")
	local := "peerM"
	for hi := 0; hi < nh; hi++ {
		dir := filepath.Join(base, fmt.Sprintf("h%d", hi))
		must(os.MkdirAll(dir, 0o755))
		cs, _ := newMemStore(ctx, 0, table)
		wal, err := f3.VerifOpenWAL(dir)
		must(err)
		run, err := f3.VerifNewRunner(ctx, cs, mec, ps, backend, m, wal, local)
		must(err)
		var hops, desc, counts []string
		viol := func(clause, sig, detail string) {
			o.violate(clause, sig, map[string]any{"history": append([]string{}, desc...)}, detail)
		}
		restart := func() {
			run.Cancel()
			_ = wal.Close()
			if r.chance(45) {
				// the process died in the middle of a WAL append: the newest log file ends with a torn record (a proper
				// prefix of a record).  Nothing acknowledged is affected; what is broadcast in the NEXT lifetime must still
				// re-arm the filter in the one after it.
				if tornTail(dir) {
					desc = append(desc, "torn-tail")
				}
			}
			wal, err = f3.VerifOpenWAL(dir)
			must(err)
			run, err = f3.VerifNewRunner(ctx, cs, mec, ps, backend, m, wal, local)
			must(err)
		}
		inWal := func(x eqMsg) bool {
			es, err := wal.All()
			must(err)
			for _, e := range es {
				if e.Message.Vote.Instance == x.inst && uint64(e.Message.Sender) == x.sender && e.Message.Vote.Round == x.round && e.Message.Vote.Phase == x.phase && e.Message.Signature[0] == x.sig {
					return true
				}
			}
			return false
		}
		type wireRec struct {
			m   eqMsg
			sig byte
		}
		slot := map[string]byte{}
		var maxInst uint64
		publish := func(x eqMsg) {
			// monitors on what reaches the publication point
			if !inWal(x) {
				viol("every message is recorded durably before it is published", "wire-not-logged", x.term())
			}
			kk := fmt.Sprint(x.inst, x.sender, x.round, x.phase)
			if s, ok := slot[kk]; ok && s != x.sig {
				viol("never two differently signed messages for one (instance, sender, round, step)", "wire-equivocation", kk)
			}
			slot[kk] = x.sig
			if x.inst < maxInst {
				viol("never a message for an instance older than one already broadcast for", "wire-older-instance", fmt.Sprint(x.inst, maxInst))
			}
			if x.inst > maxInst {
				maxInst = x.inst
			}
		}
		conflict := false
		said := map[string]byte{}
		curInst := uint64(1)
		senders := []uint64{7}
		if r.chance(60) {
			senders = []uint64{7, 8, 11} // a node signing for several identities
		}
		steps := 10 + r.intn(30)
		curRound := uint64(0)
		for st := 0; st < steps; st++ {
			if r.chance(12) {
				curInst += uint64(1 + r.intn(2))
				curRound = 0
			} else if r.chance(25) {
				curRound++
			}
			inst := curInst
			if r.chance(12) && inst > 1 {
				inst--
			}
			xround := curRound
			if r.chance(40) {
				xround = uint64(r.intn(int(curRound) + 1))
			}
			x := eqMsg{inst, senders[r.intn(len(senders))], xround, gpbft.Phase(1 + r.intn(5)), byte(1 + r.intn(2))}
			kk := fmt.Sprint(x.inst, x.sender, x.round, x.phase)
			if s, ok := said[kk]; ok && s != x.sig {
				conflict = true
			}
			switch c := r.intn(100); {
			case c < 60:
				pub, err := run.Broadcast(ctx, x.gmsg())
				if err != nil {
					viol("BroadcastMessage succeeds", "runner-broadcast-error", err.Error())
				}
				said[kk] = x.sig
				if pub {
					publish(x)
				}
				hops = append(hops, "HBroadcast "+x.term())
				counts = append(counts, fmt.Sprint(b2i(pub)))
				desc = append(desc, fmt.Sprintf("broadcast %s -> published=%v", x.term(), pub))
			case c < 80:
				// the participant asks for a rebroadcast of a slot: every self message of that slot, through the real path
				in := gpbft.Instant{ID: x.inst, Round: x.round, Phase: x.phase}
				for _, gm := range run.SelfMessages(in) {
					y := eqMsg{gm.Vote.Instance, uint64(gm.Sender), gm.Vote.Round, gm.Vote.Phase, gm.Signature[0]}
					pub, err := run.Rebroadcast(gm)
					if err != nil {
						viol("rebroadcast succeeds", "runner-rebroadcast-error", err.Error())
					}
					if pub {
						publish(y)
					}
					hops = append(hops, "HRebroadcast "+y.term())
					counts = append(counts, fmt.Sprint(b2i(pub)))
					desc = append(desc, fmt.Sprintf("rebroadcast %s -> published=%v", y.term(), pub))
				}
			default:
				restart()
				hops = append(hops, "HRestart")
				counts = append(counts, "0")
				desc = append(desc, "restart")
			}
		}
		var lt []string
		es, _ := wal.All()
		for _, e := range es {
			lt = append(lt, eqMsg{e.Message.Vote.Instance, uint64(e.Message.Sender), e.Message.Vote.Round, e.Message.Vote.Phase, e.Message.Signature[0]}.term())
		}
		run.Cancel()
		_ = wal.Close()
		o.coqCase(fmt.Sprintf("runner history %d: %s", hi, strings.Join(desc, " | ")), fmt.Sprintf("hostrun_ok 2 %s %s %s", cList(hops), "["+strings.Join(counts, "; ")+"]", cList(lt)))
		o.count("runner-history", strings.Join(hops, ";"), conflict || len(senders) > 1)
		if hi < 1 {
			o.sample(map[string]any{"kind": "runner", "history": desc})
		}
		os.RemoveAll(dir)
	}
	os.RemoveAll(base)
}

func b2i(b bool) int {
	if b {
		return 1
	}
	return 0
}

// tornTail appends a proper prefix of a record to the newest WAL file of dir (what a crash in the middle of an append
// leaves behind); false when there is no non-empty log file yet
func tornTail(dir string) bool {
	ents, err := os.ReadDir(dir)
	if err != nil {
		return false
	}
	newest := ""
	for _, e := range ents {
		if !e.IsDir() && strings.HasSuffix(e.Name(), ".wal.cbor") && e.Name() > newest {
			newest = e.Name()
		}
	}
	if newest == "" {
		return false
	}
	path := filepath.Join(dir, newest)
	b, err := os.ReadFile(path)
	if err != nil || len(b) < 24 {
		return false
	}
	f, err := os.OpenFile(path, os.O_APPEND|os.O_WRONLY, 0o644)
	if err != nil {
		return false
	}
	defer f.Close()
	_, err = f.Write(b[:5+len(b)%7]) // the first bytes of the file's first record: never a complete record
	return err == nil
}
