//go:build verif

package main

import (
	"context"
	"fmt"
	"math/big"
	"sort"

	"github.com/filecoin-project/go-bitfield"
	"github.com/filecoin-project/go-f3/certs"
	"github.com/filecoin-project/go-f3/gpbft"
	"github.com/filecoin-project/go-f3/sim/signing"
)

const verifNet gpbft.NetworkName = "verifnet"

// certGen produces honest finality-certificate chains over EVOLVING power tables
// (members added / removed / re-keyed / re-weighted), all randomness from r.
type certGen struct {
	r       *rng
	backend *signing.FakeBackend
	keys    map[gpbft.ActorID]gpbft.PubKey
	table   gpbft.PowerEntries // canonical order
	base    *gpbft.TipSet
	next    uint64
	epoch   int64
	nextID  gpbft.ActorID
	static  bool // never change the table
}

func sortEntries(pe gpbft.PowerEntries) gpbft.PowerEntries {
	out := append(gpbft.PowerEntries{}, pe...)
	sort.Sort(out)
	return out
}

func newCertGen(r *rng, members int, first uint64) *certGen {
	g := &certGen{r: r, backend: signing.NewFakeBackend(), keys: map[gpbft.ActorID]gpbft.PubKey{}, next: first, nextID: 1}
	for i := 0; i < members; i++ {
		g.table = append(g.table, g.newEntry(int64(1+r.intn(20))))
	}
	g.table = sortEntries(g.table)
	cidv, err := certs.MakePowerTableCID(g.table)
	must(err)
	g.base = &gpbft.TipSet{Epoch: 0, Key: []byte("genesis"), PowerTable: cidv}
	return g
}

func (g *certGen) newEntry(power int64) gpbft.PowerEntry {
	k, _ := g.backend.GenerateKey()
	e := gpbft.PowerEntry{ID: g.nextID, Power: gpbft.NewStoragePower(power), PubKey: k}
	g.nextID++
	return e
}

func (g *certGen) newEntryBig(power *big.Int) gpbft.PowerEntry {
	k, _ := g.backend.GenerateKey()
	e := gpbft.PowerEntry{ID: g.nextID, Power: bigOf(power), PubKey: k}
	g.nextID++
	return e
}

// evolve returns the next table (canonical order).
func (g *certGen) evolve() gpbft.PowerEntries {
	if g.static || g.r.chance(30) {
		return g.table
	}
	nt := append(gpbft.PowerEntries{}, g.table...)
	for k := 0; k < 1+g.r.intn(3); k++ {
		switch g.r.intn(4) {
		case 0:
			nt = append(nt, g.newEntry(int64(1+g.r.intn(20))))
		case 1:
			if len(nt) > 3 {
				i := g.r.intn(len(nt))
				nt = append(nt[:i:i], nt[i+1:]...)
			}
		case 2:
			i := g.r.intn(len(nt))
			k, _ := g.backend.GenerateKey()
			nt[i].PubKey = k
		default:
			i := g.r.intn(len(nt))
			nt[i].Power = gpbft.NewStoragePower(int64(1 + g.r.intn(40)))
		}
	}
	return sortEntries(nt)
}

func (g *certGen) chain(n int) *gpbft.ECChain {
	ts := []*gpbft.TipSet{g.base}
	for i := 0; i < n; i++ {
		g.epoch += int64(1 + g.r.intn(3))
		ts = append(ts, &gpbft.TipSet{Epoch: g.epoch, Key: []byte(fmt.Sprintf("ts-%d-%d", g.epoch, g.r.intn(1000))), PowerTable: g.base.PowerTable})
	}
	return &gpbft.ECChain{TipSets: ts}
}

// signDecision builds a DECIDE justification for `chain` signed by the given table indices.
func signDecision(backend *signing.FakeBackend, nn gpbft.NetworkName, table gpbft.PowerEntries, instance uint64, supp gpbft.SupplementalData, chain *gpbft.ECChain, signers []int) *gpbft.Justification {
	payload := gpbft.Payload{Instance: instance, Round: 0, Phase: gpbft.DECIDE_PHASE, SupplementalData: supp, Value: chain}
	msg := payload.MarshalForSigning(nn)
	sort.Ints(signers)
	bf := bitfield.New()
	sigs := make([][]byte, len(signers))
	for i, s := range signers {
		sig, err := backend.Sign(context.Background(), table[s].PubKey, msg)
		must(err)
		sigs[i] = sig
		bf.Set(uint64(s))
	}
	agg, err := backend.Aggregate(table.PublicKeys())
	must(err)
	sig, err := agg.Aggregate(signers, sigs)
	must(err)
	return &gpbft.Justification{Vote: payload, Signers: bf, Signature: sig}
}

// minimalQuorum picks signer indices (random order) until a strong quorum is reached; zero-scaled skipped.
func minimalQuorum(r *rng, table gpbft.PowerEntries) []int {
	scaled, total := indepScaled(table) // NOT the implementation's Scaled(): the oracle must not share its arithmetic
	perm := make([]int, len(table))
	for i := range perm {
		perm[i] = i
	}
	for j := len(perm) - 1; j > 0; j-- {
		k := r.intn(j + 1)
		perm[j], perm[k] = perm[k], perm[j]
	}
	var pw int64
	var out []int
	for _, i := range perm {
		if scaled[i] == 0 {
			continue
		}
		out = append(out, i)
		pw += scaled[i]
		if indepStrong(pw, total) {
			break
		}
	}
	return out
}

// makeCert produces the next honest certificate and advances the generator.
func (g *certGen) makeCert() *certs.FinalityCertificate {
	nt := g.evolve()
	ptCid, err := certs.MakePowerTableCID(nt)
	must(err)
	chain := g.chain(1 + g.r.intn(4))
	supp := gpbft.SupplementalData{PowerTable: ptCid}
	j := signDecision(g.backend, verifNet, g.table, g.next, supp, chain, minimalQuorum(g.r, g.table))
	c, err := certs.NewFinalityCertificate(certs.MakePowerTableDiff(g.table, nt), j)
	must(err)
	g.table = nt
	g.base = chain.Head()
	g.next++
	return c
}

func bigStr(x *big.Int) string { return x.String() }
