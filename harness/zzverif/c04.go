//go:build verif

package main

import (
	"bytes"
	"context"
	"fmt"
	"math/big"
	"sort"
	"strconv"

	"github.com/filecoin-project/go-bitfield"
	"github.com/filecoin-project/go-f3/certs"
	"github.com/filecoin-project/go-f3/gpbft"
	"github.com/filecoin-project/go-f3/sim/signing"
)

func init() { runners["C04"] = runC04 }

var deltaErrClasses = [][2]string{
	{"not sorted by participant ID", "1"}, {"contains an empty delta", "2"}, {"includes an unchanged key", "3"},
	{"while specifying a new key", "4"}, {"non-positive power delta", "5"}, {"with an empty signing key", "6"}, {"resulted in negative power", "7"},
}
var certErrClasses = [][2]string{
	{"expected instance", "1"}, {"invalid finality certificate at instance", "2"}, {"empty finality certificate", "3"},
	{"base tipset does not match", "4"}, {"but we only have", "5"}, {"no effective power after scaling", "6"},
	{"insufficient power", "7"}, {"invalid signature on finality certificate", "8"}, {"signature is not valid", "8"}, {"incorrect power diff", "9"},
}

func deltaErrCode(err error) int {
	if err == nil {
		return 0
	}
	c := errClass(err, deltaErrClasses)
	n, e := strconv.Atoi(c)
	if e != nil {
		return -1
	}
	return n
}
func certErrCode(err error) int {
	if err == nil {
		return 0
	}
	if bytes.Contains([]byte(err.Error()), []byte("failed to apply power table delta")) {
		d := deltaErrCode(err)
		if d < 0 {
			return -1
		}
		return 10 + d
	}
	c := errClass(err, certErrClasses)
	n, e := strconv.Atoi(c)
	if e != nil {
		return -1
	}
	return n
}

// random well-formed table (as a set of entries; arbitrary order)
func genTable(r *rng, n int, idBase int) gpbft.PowerEntries {
	ps := genPowers(r, n)
	out := make(gpbft.PowerEntries, n)
	perm := make([]int, n)
	for i := range perm {
		perm[i] = i
	}
	for j := n - 1; j > 0; j-- {
		k := r.intn(j + 1)
		perm[j], perm[k] = perm[k], perm[j]
	}
	for i := range out {
		out[i] = gpbft.PowerEntry{ID: gpbft.ActorID(idBase + perm[i]*3), Power: bigOf(ps[i]), PubKey: []byte(fmt.Sprintf("pubkey::%08x", 1000+r.intn(5000)))}
	}
	return out
}

// mutate a table into a related one (members added, removed, re-keyed, re-weighted)
func mutateTable(r *rng, a gpbft.PowerEntries) gpbft.PowerEntries {
	b := make(gpbft.PowerEntries, 0, len(a)+3)
	for _, e := range a {
		switch r.intn(6) {
		case 0: // removed
		case 1:
			e.PubKey = []byte(fmt.Sprintf("pubkey::%08x", 7000+r.intn(5000)))
			b = append(b, e)
		case 2:
			np := new(big.Int).Add(e.Power.Int, big.NewInt(int64(r.intn(1000))-200))
			if np.Sign() <= 0 {
				np = big.NewInt(1)
			}
			e.Power = bigOf(np)
			b = append(b, e)
		default:
			b = append(b, e)
		}
	}
	for k := 0; k < r.intn(3); k++ {
		b = append(b, gpbft.PowerEntry{ID: gpbft.ActorID(100000 + r.intn(1000)*7 + k), Power: bigOf(genPowers(r, 1)[0]), PubKey: []byte(fmt.Sprintf("pubkey::%08x", 20000+r.intn(5000)))})
	}
	// dedupe ids
	seen := map[gpbft.ActorID]bool{}
	out := b[:0]
	for _, e := range b {
		if !seen[e.ID] {
			seen[e.ID] = true
			out = append(out, e)
		}
	}
	return out
}

func cloneEntries(a gpbft.PowerEntries) gpbft.PowerEntries {
	out := make(gpbft.PowerEntries, len(a))
	for i, e := range a {
		out[i] = gpbft.PowerEntry{ID: e.ID, Power: bigOf(new(big.Int).Set(e.Power.Int)), PubKey: append([]byte{}, e.PubKey...)}
	}
	return out
}

func corruptDiff(r *rng, a gpbft.PowerEntries, d certs.PowerTableDiff) (certs.PowerTableDiff, string) {
	out := make(certs.PowerTableDiff, len(d))
	copy(out, d)
	kind := r.intn(9)
	switch kind {
	case 0: // swap two (unsorted) or duplicate
		if len(out) >= 2 {
			i := r.intn(len(out) - 1)
			out[i], out[i+1] = out[i+1], out[i]
		} else if len(out) == 1 {
			out = append(out, out[0])
		}
		return out, "unsorted"
	case 1: // zero entry
		id := gpbft.ActorID(r.intn(50))
		out = append(out, certs.PowerTableDelta{ParticipantID: id, PowerDelta: gpbft.NewStoragePower(0)})
		sort.SliceStable(out, func(i, j int) bool { return out[i].ParticipantID < out[j].ParticipantID })
		return out, "zero-entry"
	case 2: // unchanged key on an existing member
		if len(a) > 0 {
			e := a[r.intn(len(a))]
			nd := certs.PowerTableDelta{ParticipantID: e.ID, PowerDelta: gpbft.NewStoragePower(int64(r.intn(3))), SigningKey: e.PubKey}
			out = replaceOrInsert(out, nd)
		}
		return out, "unchanged-key"
	case 3: // remove all power while setting a key
		if len(a) > 0 {
			e := a[r.intn(len(a))]
			nd := certs.PowerTableDelta{ParticipantID: e.ID, PowerDelta: bigOf(new(big.Int).Neg(e.Power.Int)), SigningKey: []byte("pubkey::ffffffee")}
			out = replaceOrInsert(out, nd)
		}
		return out, "remove-with-key"
	case 4: // new member non-positive
		nd := certs.PowerTableDelta{ParticipantID: gpbft.ActorID(900000 + r.intn(100)), PowerDelta: gpbft.NewStoragePower(int64(-r.intn(3))), SigningKey: []byte("pubkey::ffffffed")}
		return replaceOrInsert(out, nd), "new-nonpositive"
	case 5: // new member no key
		nd := certs.PowerTableDelta{ParticipantID: gpbft.ActorID(900000 + r.intn(100)), PowerDelta: gpbft.NewStoragePower(int64(1 + r.intn(3)))}
		return replaceOrInsert(out, nd), "new-nokey"
	case 6: // negative result
		if len(a) > 0 {
			e := a[r.intn(len(a))]
			nd := certs.PowerTableDelta{ParticipantID: e.ID, PowerDelta: bigOf(new(big.Int).Sub(new(big.Int).Neg(e.Power.Int), big.NewInt(int64(1+r.intn(5)))))}
			out = replaceOrInsert(out, nd)
		}
		return out, "negative"
	case 7: // valid but different delta (re-weight)
		if len(a) > 0 {
			e := a[r.intn(len(a))]
			nd := certs.PowerTableDelta{ParticipantID: e.ID, PowerDelta: gpbft.NewStoragePower(int64(1 + r.intn(9)))}
			out = replaceOrInsert(out, nd)
		}
		return out, "other-valid"
	default:
		if len(out) > 0 {
			i := r.intn(len(out))
			out = append(out[:i:i], out[i+1:]...)
		}
		return out, "dropped-entry"
	}
}

func replaceOrInsert(d certs.PowerTableDiff, nd certs.PowerTableDelta) certs.PowerTableDiff {
	out := make(certs.PowerTableDiff, 0, len(d)+1)
	done := false
	for _, x := range d {
		if x.ParticipantID == nd.ParticipantID {
			out = append(out, nd)
			done = true
		} else {
			out = append(out, x)
		}
	}
	if !done {
		out = append(out, nd)
		sort.SliceStable(out, func(i, j int) bool { return out[i].ParticipantID < out[j].ParticipantID })
	}
	return out
}

func diffEqual(a, b certs.PowerTableDiff) bool {
	if len(a) != len(b) {
		return false
	}
	for i := range a {
		if a[i].ParticipantID != b[i].ParticipantID || a[i].PowerDelta.Cmp(b[i].PowerDelta.Int) != 0 || !bytes.Equal(a[i].SigningKey, b[i].SigningKey) {
			return false
		}
	}
	return true
}

type sigRec struct {
	keys    []int64
	signers []int
	net     int64
	inst    uint64
	round   uint64
	phase   int
	commit  int64
	pt      int64
	chain   string
}

type c04ctx struct {
	t    *tok
	sigs map[string]*sigRec
}

func (x *c04ctx) sign(backend *signing.FakeBackend, nn gpbft.NetworkName, table gpbft.PowerEntries, inst, round uint64, phase gpbft.Phase, supp gpbft.SupplementalData, chain *gpbft.ECChain, signers []int) (bitfield.BitField, []byte) {
	payload := gpbft.Payload{Instance: inst, Round: round, Phase: phase, SupplementalData: supp, Value: chain}
	msg := payload.MarshalForSigning(nn)
	sort.Ints(signers)
	bf := bitfield.New()
	sigs := make([][]byte, len(signers))
	rec := &sigRec{signers: append([]int{}, signers...), net: x.t.of("net", []byte(nn)), inst: inst, round: round, phase: int(phase),
		commit: x.t.of("commit", supp.Commitments[:]), pt: x.t.cid(supp.PowerTable), chain: x.t.chain(chain)}
	for i, s := range signers {
		sig, err := backend.Sign(context.Background(), table[s].PubKey, msg)
		must(err)
		sigs[i] = sig
		bf.Set(uint64(s))
		rec.keys = append(rec.keys, x.t.of("key", table[s].PubKey))
	}
	agg, err := backend.Aggregate(table.PublicKeys())
	must(err)
	sig, err := agg.Aggregate(signers, sigs)
	must(err)
	x.sigs[string(sig)] = rec
	return bf, sig
}

func (x *c04ctx) certTerm(c *certs.FinalityCertificate) string {
	var signers []int64
	_ = c.Signers.ForEach(func(i uint64) error { signers = append(signers, int64(i)); return nil })
	sig := "None"
	if rec, ok := x.sigs[string(c.Signature)]; ok {
		ss := make([]int64, len(rec.signers))
		for i, s := range rec.signers {
			ss[i] = int64(s)
		}
		sig = fmt.Sprintf("(Some (mkSig %s %s %s %s %s %d %s %s %s))", cListZ(rec.keys), cListZ(ss), cZ(rec.net), cU(rec.inst), cU(rec.round), rec.phase, cZ(rec.commit), cZ(rec.pt), rec.chain)
	}
	return fmt.Sprintf("(mkCert %s %s %s %s %s %s %s)", cU(c.GPBFTInstance), x.t.chain(c.ECChain), cZ(x.t.of("commit", c.SupplementalData.Commitments[:])),
		cZ(x.t.cid(c.SupplementalData.PowerTable)), cListZ(signers), sig, x.t.diff(c.PowerTableDelta))
}

func runC04(o *out, r *rng, thorough bool, replay string) {
	o.Rule = "deltas: random pairs of well-formed tables (members added/removed/re-keyed/re-weighted, 2^200 and dust powers) and structurally near-valid corruptions of their diffs; certificates: honest chains over evolving tables and single/multi-field corruptions (instance, tipsets, supplemental data, signer set at the 2/3 boundary, signature, delta, order, truncation, splicing across histories/networks); non-trivial = chain has >=2 certs with a non-empty delta, or a corruption rejected for a reason other than wrong instance; for deltas: diff non-empty; chains include decisions on the base alone and certificates from a sibling fork signed by an honest quorum (only the linkage can reject them), with an independent linkage monitor"
	x := &c04ctx{t: newTok(), sigs: map[string]*sigRec{}}
	t := x.t
	// ---------- (A) deltas ----------
	n := 250
	if thorough {
		n = 4000
	}
	for i := 0; i < n; i++ {
		a := genTable(r, 1+r.intn(8), 10)
		var b gpbft.PowerEntries
		if r.chance(15) {
			b = genTable(r, 1+r.intn(8), 10+r.intn(6))
		} else {
			b = mutateTable(r, a)
		}
		if len(b) == 0 {
			b = a[:1]
		}
		a0 := cloneEntries(a)
		d := certs.MakePowerTableDiff(a, b)
		o.coqCase(fmt.Sprintf("make_diff a=%s b=%s", t.table(a), t.table(b)),
			fmt.Sprintf("diff_eqb (make_diff %s %s) %s", t.table(a), t.table(b), t.diff(d)))
		res, err := certs.ApplyPowerTableDiffs(a, d)
		canonB := sortEntries(b)
		in := map[string]any{"a": t.table(a), "b": t.table(b)}
		if err != nil || !res.Equal(canonB) {
			o.violate("delta between two well-formed tables, applied to the first, yields the second in canonical order", "delta-apply-make", in, fmt.Sprint(err))
		}
		if !a.Equal(a0) {
			o.violate("delta application does not modify the caller's table", "delta-mutates-caller", in, "")
		}
		o.count("delta-pair", t.table(a)+t.table(b), len(d) > 0)
		// near-valid corruption
		dd, kind := corruptDiff(r, a, d)
		a1 := cloneEntries(a)
		res2, err2 := certs.ApplyPowerTableDiffs(a, dd)
		code := deltaErrCode(err2)
		if code < 0 {
			o.violate("delta errors are classified", "delta-unknown-error", in, err2.Error())
		}
		if !a.Equal(a1) {
			o.violate("malformed deltas are rejected without modifying the caller's table", "delta-mutates-caller", map[string]any{"a": t.table(a), "d": t.diff(dd)}, kind)
		}
		if err2 == nil {
			// every accepted delta is the unique canonical delta between its input and output
			back := certs.MakePowerTableDiff(a, res2)
			if !diffEqual(back, dd) {
				o.violate("every accepted delta is the unique canonical delta between input and output", "delta-not-canonical", map[string]any{"a": t.table(a), "d": t.diff(dd)}, t.diff(back))
			}
			o.coqCase(fmt.Sprintf("apply_diff(%s) a=%s d=%s", kind, t.table(a), t.diff(dd)),
				fmt.Sprintf("match apply_diff %s %s with inr m => table_eqb m %s | inl _ => false end", t.table(a), t.diff(dd), t.table(res2)))
		} else {
			o.coqCase(fmt.Sprintf("apply_diff(%s) a=%s d=%s", kind, t.table(a), t.diff(dd)),
				fmt.Sprintf("match apply_diff %s %s with inr _ => false | inl e => Z.eqb (derr_code e) %d end", t.table(a), t.diff(dd), code))
		}
		o.count("delta-corrupt-"+kind, t.table(a)+t.diff(dd), true)
		if i < 1 {
			o.sample(map[string]any{"kind": "delta", "a": t.table(a), "b": t.table(b), "diff": t.diff(d), "corruption": kind, "verdict": fmt.Sprint(err2)})
		}
	}

	// ---------- (B) certificate sequences ----------
	nchains := 60
	if thorough {
		nchains = 800
	}
	for ci := 0; ci < nchains; ci++ {
		g := newCertGen(r, 3+r.intn(6), uint64(r.intn(5)))
		if r.chance(25) {
			// skewed table with dust members (zero scaled power)
			g.table = nil
			g.table = append(g.table, g.newEntry(1<<40), g.newEntry(1<<40), g.newEntry(1<<39), g.newEntry(1), g.newEntry(2))
			g.table = sortEntries(g.table)
		}
		if ci%3 == 1 {
			// byte-scale tables: the total swept over every bit length with one dominant member (the scaled powers that the
			// quorum check of certificate validation uses are 0xffff*power/total)
			g.table = nil
			for _, p := range genPowersDominant(r, 3+r.intn(4), sweepBits(ci/3)) {
				g.table = append(g.table, g.newEntryBig(p))
			}
			g.table = sortEntries(g.table)
			g.static = r.bool()
		}
		first := g.next
		base0 := g.base
		prev0 := g.table
		tables := []gpbft.PowerEntries{g.table}
		k := 1 + r.intn(4)
		var chainCerts []*certs.FinalityCertificate
		nonEmptyDeltas := 0
		for j := 0; j < k; j++ {
			// own signing so that the signature descriptor is recorded
			nt := g.evolve()
			ptCid, err := certs.MakePowerTableCID(nt)
			must(err)
			nts := 1 + r.intn(3)
			if ci%5 == 2 && (j < k-1 || r.bool()) {
				nts = 0 // the instance decided on its base alone (no new tipset): a normal outcome; the chain finalized so far stays empty
			} else if r.chance(12) {
				nts = 0
			}
			ch := g.chain(nts)
			supp := gpbft.SupplementalData{PowerTable: ptCid}
			if r.chance(30) {
				supp.Commitments[0] = byte(1 + r.intn(200))
			}
			bf, sig := x.sign(g.backend, verifNet, g.table, g.next, 0, gpbft.DECIDE_PHASE, supp, ch, minimalQuorum(r, g.table))
			c, err := certs.NewFinalityCertificate(certs.MakePowerTableDiff(g.table, nt), &gpbft.Justification{Vote: gpbft.Payload{Instance: g.next, Phase: gpbft.DECIDE_PHASE, SupplementalData: supp, Value: ch}, Signers: bf, Signature: sig})
			must(err)
			if len(c.PowerTableDelta) > 0 {
				nonEmptyDeltas++
			}
			chainCerts = append(chainCerts, c)
			g.table = nt
			g.base = ch.Head()
			g.next++
			tables = append(tables, nt)
		}
		// token table for CIDs
		var toks []string
		for _, tb := range tables {
			c, _ := certs.MakePowerTableCID(tb)
			toks = append(toks, cPair(t.table(tb), cZ(t.cid(c))))
		}
		variants := 1 + 5
		if thorough {
			variants = 12
		}
		for v := 0; v < variants; v++ {
			cs := make([]*certs.FinalityCertificate, len(chainCerts))
			for i, c := range chainCerts {
				cp := *c
				cs[i] = &cp
			}
			nn := verifNet
			next := first
			base := base0
			useBase := r.bool()
			prev := prev0
			kind := "honest"
			if v > 0 {
				idx := r.intn(len(cs))
				c := cs[idx]
				tbl := tables[idx]
				switch r.intn(18) {
				case 16, 17:
					// a certificate from another fork: fully valid and signed by an honest quorum of the right table, but its chain
					// starts at a sibling of the tipset finalized so far -- only the linkage can reject it
					ts := *c.ECChain.TipSets[0]
					ts.Key = []byte(fmt.Sprintf("fork-base-%d", idx))
					c.ECChain = &gpbft.ECChain{TipSets: append([]*gpbft.TipSet{&ts}, c.ECChain.TipSets[1:]...)}
					c.Signers, c.Signature = x.sign(g.backend, verifNet, tbl, c.GPBFTInstance, 0, gpbft.DECIDE_PHASE, c.SupplementalData, c.ECChain, minimalQuorum(r, tbl))
					kind = "fork-signed"
					if idx == 0 {
						useBase = true
					}
				case 0:
					c.GPBFTInstance += uint64(1 + r.intn(2))
					kind = "instance"
				case 1: // tipset epoch out of order
					ts := *c.ECChain.TipSets[len(c.ECChain.TipSets)-1]
					ts.Epoch = c.ECChain.TipSets[0].Epoch
					c.ECChain = &gpbft.ECChain{TipSets: append(append([]*gpbft.TipSet{}, c.ECChain.TipSets[:len(c.ECChain.TipSets)-1]...), &ts)}
					kind = "chain-epochs"
				case 2: // change a tipset key (still well-formed)
					ts := *c.ECChain.TipSets[len(c.ECChain.TipSets)-1]
					ts.Key = []byte("forged-key")
					c.ECChain = &gpbft.ECChain{TipSets: append(append([]*gpbft.TipSet{}, c.ECChain.TipSets[:len(c.ECChain.TipSets)-1]...), &ts)}
					kind = "chain-key"
				case 3:
					c.ECChain = &gpbft.ECChain{}
					kind = "chain-empty"
				case 4: // wrong base
					ts := *c.ECChain.TipSets[0]
					ts.Key = []byte("other-base")
					c.ECChain = &gpbft.ECChain{TipSets: append([]*gpbft.TipSet{&ts}, c.ECChain.TipSets[1:]...)}
					kind = "base"
				case 5:
					c.SupplementalData.Commitments[5] ^= 1
					kind = "supp-commitments"
				case 6: // signer set just below threshold: re-sign honestly with fewer signers
					scaled, total := indepScaled(tbl)
					q := minimalQuorum(r, tbl)
					// drop signers until below quorum
					for len(q) > 0 {
						var pw int64
						for _, s := range q {
							pw += scaled[s]
						}
						if !indepStrong(pw, total) {
							break
						}
						q = q[:len(q)-1]
					}
					c.Signers, c.Signature = x.sign(g.backend, verifNet, tbl, c.GPBFTInstance, 0, gpbft.DECIDE_PHASE, c.SupplementalData, c.ECChain, q)
					kind = "below-quorum"
				case 7: // signer out of range
					bf, _ := c.Signers.Copy()
					bf.Set(uint64(len(tbl) + r.intn(3)))
					c.Signers = bf
					kind = "signer-range"
				case 8: // add a zero-scaled signer if any, else extra honest signer not in signature
					scaled, _ := indepScaled(tbl)
					bf, _ := c.Signers.Copy()
					added := false
					for i, s := range scaled {
						if s == 0 {
							bf.Set(uint64(i))
							added = true
							break
						}
					}
					if !added {
						bf.Set(uint64(r.intn(len(tbl))))
					}
					c.Signers = bf
					kind = "signer-extra"
				case 9:
					c.Signature = append([]byte{}, c.Signature...)
					c.Signature[r.intn(len(c.Signature))] ^= 1
					kind = "signature"
				case 10: // signature over another phase / round (validly produced by the same quorum)
					ph := gpbft.COMMIT_PHASE
					rd := uint64(0)
					if r.bool() {
						ph = gpbft.DECIDE_PHASE
						rd = 1
					}
					c.Signers, c.Signature = x.sign(g.backend, verifNet, tbl, c.GPBFTInstance, rd, ph, c.SupplementalData, c.ECChain, minimalQuorum(r, tbl))
					kind = "sig-other-step"
				case 11:
					c.PowerTableDelta, kind = corruptDiff(r, tbl, c.PowerTableDelta)
					kind = "delta-" + kind
				case 12: // order / duplication
					if len(cs) >= 2 {
						i := r.intn(len(cs) - 1)
						cs[i], cs[i+1] = cs[i+1], cs[i]
						kind = "reorder"
					} else {
						cs = append(cs, cs[0])
						kind = "duplicate"
					}
				case 13: // truncation at the front (gap w.r.t. expected instance)
					if len(cs) >= 2 {
						cs = cs[1:]
					} else {
						next++
					}
					kind = "gap"
				case 14: // other network
					nn = "othernet"
					kind = "network"
				default: // wrong starting table (splice from another history)
					other := newCertGen(r, 3+r.intn(3), first)
					prev = other.table
					kind = "foreign-table"
				}
			}
			var bp *gpbft.TipSet
			if useBase {
				bp = base
			}
			gotNext, gotChain, gotTable, err := certs.ValidateFinalityCertificates(g.backend, nn, prev, next, bp, cs...)
			code := certErrCode(err)
			in := map[string]any{"variant": kind, "first": first, "certs": len(cs)}
			if code < 0 {
				o.violate("validation errors are classified", "cert-unknown-error", in, err.Error())
				continue
			}
			if kind == "honest" && err != nil {
				o.violate("certificates produced by consensus are always accepted", "cert-honest-rejected", in, err.Error())
			}
			if err == nil && kind != "honest" && kind != "delta-other-valid" && kind != "delta-dropped-entry" {
				// accepted corrupted chains: only acceptable when the corruption was a no-op (e.g. a corrupted delta equal to the original)
				same := len(cs) == len(chainCerts)
				for i := range cs {
					if same && !bytes.Equal(certBytes(cs[i]), certBytes(chainCerts[i])) {
						same = false
					}
				}
				if !same && nn == verifNet {
					o.violate("a corrupted certificate chain is rejected", "cert-forgery-accepted", in, kind)
				}
			}
			// linkage, checked by the harness itself on whatever prefix was accepted (gotNext - next certificates): every finalized
			// chain starts at the head finalized by its predecessor, the first one at the caller's base if one was given
			if gotNext >= next && int(gotNext-next) <= len(cs) {
				var head *gpbft.TipSet = bp
				for i := 0; i < int(gotNext-next); i++ {
					b := cs[i].ECChain.Base()
					if head != nil && (b == nil || !b.Equal(head)) {
						o.violate("every finalized chain starts at the head finalized by its predecessor (or at the caller's base)", "cert-unlinked-accepted", in,
							fmt.Sprintf("variant %s: certificate #%d (instance %d) starts at %v but the chain finalized so far ends at %v; it was accepted (reported next instance %d)", kind, i, cs[i].GPBFTInstance, b, head, gotNext))
						break
					}
					head = cs[i].ECChain.Head()
				}
			}
			// the reported prefix: on rejection the function reports the instance and the power table that are in force for
			// the first rejected certificate -- recomputed here by validating the certificates one at a time and keeping
			// only what the ACCEPTING calls returned
			{
				wantNext, wantTbl, wantBase := next, prev, bp
				for _, c := range cs {
					n2, ch2, t2, e2 := certs.ValidateFinalityCertificates(g.backend, nn, wantTbl, wantNext, wantBase, c)
					if e2 != nil {
						break
					}
					wantNext, wantTbl = n2, t2
					_ = ch2
					wantBase = c.ECChain.Head() // the next certificate must start where this one ended (also when this one decided on its base alone)
				}
				cidOf := func(pe gpbft.PowerEntries) string {
					c, err := certs.MakePowerTableCID(pe)
					if err != nil {
						return "error:" + err.Error()
					}
					return c.String()
				}
				if gotNext != wantNext || cidOf(gotTable) != cidOf(wantTbl) {
					o.violate("on rejection the valid prefix is reported: the next expected instance and the power table in force for it", "cert-prefix-report", in,
						fmt.Sprintf("variant %s: reported next=%d table=%s, certificate-by-certificate validation accepts up to next=%d table=%s (error: %v)", kind, gotNext, cidOf(gotTable), wantNext, cidOf(wantTbl), err))
				}
			}
			var certTerms []string
			for _, c := range cs {
				certTerms = append(certTerms, x.certTerm(c))
			}
			baseTerm := "None"
			if bp != nil {
				baseTerm = "(Some " + t.tipset(bp) + ")"
			}
			tblTerm := "None"
			if gotTable != nil {
				tblTerm = "(Some " + t.table(gotTable) + ")"
			}
			errTerm := "None"
			if err != nil {
				errTerm = fmt.Sprintf("(Some %d)", code)
			}
			o.coqCase(fmt.Sprintf("validate(%s) first=%d next=%d", kind, first, next),
				fmt.Sprintf("check_validate %s %s %s %s %s %s %s %s %s %s",
					cList(toks), cZ(t.of("net", []byte(nn))), t.table(prev), cU(next), baseTerm, cList(certTerms),
					cU(gotNext), t.chain(gotChain), tblTerm, errTerm))
			o.count("certs-"+kind, fmt.Sprint(kind, first, ci, v), (kind == "honest" && nonEmptyDeltas >= 1 && len(cs) >= 2) || (kind != "honest" && code != 1 && code != 0))
			if ci < 2 && v < 2 {
				o.sample(map[string]any{"kind": "certs", "variant": kind, "certs": len(cs), "verdict_code": code, "next": gotNext})
			}
		}
	}
	o.finish("From F3 Require Import GoInt Table Validate ValidateRun.")
}
