//go:build verif

package main

import (
	"context"
	"errors"
	"fmt"
	"math"
	"sort"
	"strings"
	"time"

	"github.com/filecoin-project/go-bitfield"
	"github.com/filecoin-project/go-f3/gpbft"
	"github.com/filecoin-project/go-f3/sim/signing"
)

// instdrive: ONE real gpbft.Participant (the subject) driven event by event through a deterministic Host; all other
// committee members are puppets of the harness which sends arbitrary VALID messages in their name (every message
// passes the subject's real ValidateMessage before delivery).  After every event the observable reaction of the
// subject is recorded and later compared with the Layer-N Coq model.

type subjHost struct {
	d        *instDriver
	outs     []string // Coq terms of oobs, in order
	bcasts   []*gpbft.GMessage
	decision *gpbft.Justification
}

type instDriver struct {
	queued      bool // the trace starts with messages queued before the start alarm
	queuedTerms []string
	startNow    int64
	scaled      []int64 // floor(65535*power/total) per table index, computed independently of gpbft.PowerTable
	scaledTotal int64
	r       *rng
	ctx     context.Context
	backend *signing.FakeBackend
	pt      *gpbft.PowerTable
	supp    gpbft.SupplementalData
	input   *gpbft.ECChain
	now     time.Time
	t0      time.Time
	alarm   time.Time
	hasAl   bool
	host    *subjHost
	p       *gpbft.Participant
	subject gpbft.ActorID
	ct      *chainTok
	sent    map[string]bool // puppet slots already used (sender/round/phase) -> equivocation tracking
	events  []string
	desc    []string
	seenC   map[string]*gpbft.ECChain
	// independent record of what was delivered to the subject (first message per sender and slot)
	qualityBy map[gpbft.ActorID]*gpbft.ECChain
	prepBy    map[uint64]map[gpbft.ActorID]*gpbft.ECChain
	convBy    map[uint64]map[string]*convSeen // per round: value key -> best rank
	convFrom  map[uint64]map[gpbft.ActorID]bool
	proven    map[string]bool // values for which a delivered message carried a justification
	decideBy  map[string]map[gpbft.ActorID]bool // value key -> senders whose first DECIDE was for that value
	decideOf  map[gpbft.ActorID]bool
}

type convSeen struct {
	chain *gpbft.ECChain
	rank  float64
}

var _ gpbft.Host = (*subjHost)(nil)

func (h *subjHost) GetProposal(context.Context, uint64) (*gpbft.SupplementalData, *gpbft.ECChain, error) {
	s := h.d.supp
	return &s, h.d.input, nil
}
func (h *subjHost) GetCommittee(context.Context, uint64) (*gpbft.Committee, error) {
	agg, err := h.d.backend.Aggregate(h.d.pt.Entries.PublicKeys())
	if err != nil {
		return nil, err
	}
	return &gpbft.Committee{PowerTable: h.d.pt, Beacon: []byte("beacon"), AggregateVerifier: agg}, nil
}
func (h *subjHost) NetworkName() gpbft.NetworkName { return verifNet }
func (h *subjHost) Time() time.Time               { return h.d.now }
func (h *subjHost) SetAlarm(at time.Time) {
	h.d.alarm = at
	h.d.hasAl = !at.IsZero()
	h.outs = append(h.outs, fmt.Sprintf("XAlarm %s", cZ(int64(at.Sub(h.d.t0)))))
}
func (h *subjHost) Verify(k gpbft.PubKey, m, s []byte) error { return h.d.backend.Verify(k, m, s) }
func (h *subjHost) Aggregate(keys []gpbft.PubKey) (gpbft.Aggregate, error) {
	return h.d.backend.Aggregate(keys)
}
func (h *subjHost) ReceiveDecision(_ context.Context, d *gpbft.Justification) (time.Time, error) {
	h.decision = d
	return time.Time{}, errors.New("verif: single instance only") // no next instance: the participant then sets a zero alarm
}
func (h *subjHost) RequestBroadcast(mb *gpbft.MessageBuilder) error {
	msg, err := mb.Build(h.d.ctx, h.d.backend, h.d.subject)
	if err != nil {
		return err
	}
	h.bcasts = append(h.bcasts, msg)
	j := "None"
	if msg.Justification != nil {
		j = fmt.Sprintf("(Some (%d, %d, %s))", msg.Justification.Vote.Round, int(msg.Justification.Vote.Phase), h.d.ct.raw(msg.Justification.Vote.Value))
	}
	h.outs = append(h.outs, fmt.Sprintf("XBroadcast %d %d %s %s %s", msg.Vote.Round, int(msg.Vote.Phase), h.d.ct.raw(msg.Vote.Value), j, cBool(len(msg.Ticket) > 0)))
	return nil
}
func (h *subjHost) RequestRebroadcast(in gpbft.Instant) error {
	h.outs = append(h.outs, fmt.Sprintf("XRebroadcast %d %d", in.Round, int(in.Phase)))
	return nil
}

func rankKey(f float64) string {
	if math.IsInf(f, 1) {
		return "18446744073709551615"
	}
	b := math.Float64bits(f) // ranks are non-negative: the bit pattern is monotone in the value
	return fmt.Sprint(b)
}

func newInstDriver(r *rng, members int, subjectPower int64, powers []int64, input *gpbft.ECChain, opts ...gpbft.Option) *instDriver {
	d := &instDriver{r: r, ctx: context.Background(), backend: signing.NewFakeBackend(), input: input, ct: &chainTok{m: map[string]int64{}},
		sent: map[string]bool{}, seenC: map[string]*gpbft.ECChain{}, qualityBy: map[gpbft.ActorID]*gpbft.ECChain{},
		prepBy: map[uint64]map[gpbft.ActorID]*gpbft.ECChain{}, convBy: map[uint64]map[string]*convSeen{}, convFrom: map[uint64]map[gpbft.ActorID]bool{}, proven: map[string]bool{},
		decideBy: map[string]map[gpbft.ActorID]bool{}, decideOf: map[gpbft.ActorID]bool{}}
	d.t0 = time.Unix(1_700_000_000, 0)
	d.now = d.t0
	var entries gpbft.PowerEntries
	for i := 0; i < members; i++ {
		k, _ := d.backend.GenerateKey()
		pw := powers[i]
		entries = append(entries, gpbft.PowerEntry{ID: gpbft.ActorID(1 + i), Power: gpbft.NewStoragePower(pw), PubKey: k})
	}
	d.pt = gpbft.NewPowerTable()
	must(d.pt.Add(entries...))
	// the scaled powers as the protocol defines them, computed by the harness itself: the driver, its monitors and the
	// model's configuration never use the implementation's own scaling
	d.scaled, d.scaledTotal = indepScaled(d.pt.Entries)
	d.supp = gpbft.SupplementalData{PowerTable: ptCid}
	d.subject = 1
	d.host = &subjHost{d: d}
	p, err := gpbft.NewParticipant(d.host, opts...)
	must(err)
	d.p = p
	// make the token of every tipset of the input stable (base = 1, ...)
	d.ct.raw(input)
	return d
}

func (d *instDriver) idx(id gpbft.ActorID) int { return d.pt.Lookup[id] }

func (d *instDriver) cfgTerm() string {
	var tos, ras []int64
	for r := 0; r < 12; r++ {
		tos = append(tos, d.p.VerifPhaseTimeout(uint64(r), false))
	}
	for a := 0; a < 40; a++ {
		ras = append(ras, d.p.VerifRebroadcastAfter(a))
	}
	return fmt.Sprintf("(mkCfg %s %s %d %d %d %s %s)", cListZ(d.scaled), cZ(d.scaledTotal), d.p.VerifMaxLookahead(),
		d.p.VerifRebroadcastImmediatelyAfter(), d.p.VerifPhaseTimeout(0, true), cListZ(tos), cListZ(ras))
}

// justification signed by a strong quorum of puppets (table order) for (round, phase, value)
func (d *instDriver) justify(round uint64, phase gpbft.Phase, value *gpbft.ECChain) *gpbft.Justification {
	payload := gpbft.Payload{Instance: 0, Round: round, Phase: phase, SupplementalData: d.supp, Value: value}
	msg := payload.MarshalForSigning(verifNet)
	var mask []int
	var sigs [][]byte
	var pw int64
	order := shuffled(d.r, len(d.pt.Entries))
	var chosen []int
	for _, i := range order {
		if d.pt.Entries[i].ID == d.subject || d.scaled[i] == 0 {
			continue
		}
		chosen = append(chosen, i)
		pw += d.scaled[i]
		if indepStrong(pw, d.scaledTotal) {
			break
		}
	}
	if !indepStrong(pw, d.scaledTotal) {
		return nil
	}
	sort.Ints(chosen)
	bf := bitfield.New()
	for _, i := range chosen {
		s, err := d.backend.Sign(d.ctx, d.pt.Entries[i].PubKey, msg)
		must(err)
		mask = append(mask, i)
		sigs = append(sigs, s)
		bf.Set(uint64(i))
	}
	agg, err := d.backend.Aggregate(d.pt.Entries.PublicKeys())
	must(err)
	sig, err := agg.Aggregate(mask, sigs)
	must(err)
	return &gpbft.Justification{Vote: payload, Signers: bf, Signature: sig}
}

func (d *instDriver) obsTerm(err error) string {
	pr := d.p.Progress()
	dec := "None"
	outs := d.host.outs
	if d.host.decision != nil {
		var sl []int64
		_ = d.host.decision.Signers.ForEach(func(b uint64) error { sl = append(sl, int64(b)); return nil })
		dec = fmt.Sprintf("(Some (%s, %s))", d.ct.raw(d.host.decision.Vote.Value), cListZ(sl))
		if len(outs) > 0 && strings.HasPrefix(outs[len(outs)-1], "XAlarm") {
			// handleDecision's own SetAlarm (next instance / zero alarm) is not part of the instance
			outs = outs[:len(outs)-1]
		}
	}
	return fmt.Sprintf("(mkObs %d %d %s %s %s)", pr.Round, int(pr.Phase), cList(outs), dec, cBool(err != nil))
}

func (d *instDriver) after(evTerm, desc string, err error) {
	d.events = append(d.events, fmt.Sprintf("(%s, %s)", evTerm, d.obsTerm(err)))
	pr := d.p.Progress()
	desc += fmt.Sprintf(" => r%d/%s", pr.Round, pr.Phase)
	for _, o := range d.host.outs {
		if strings.HasPrefix(o, "XBroadcast") || strings.HasPrefix(o, "XRebroadcast") {
			desc += " [" + o + "]"
		}
	}
	if err != nil {
		desc += " ERROR " + err.Error()
	}
	d.desc = append(d.desc, desc)
	d.host.outs = nil
}

// sway hint: the value the subject carried into a new round (visible in its CONVERGE broadcast)
func (d *instDriver) swayHint() string {
	for _, o := range d.host.bcasts {
		_ = o
	}
	for i := len(d.host.bcasts) - 1; i >= 0; i-- {
		m := d.host.bcasts[i]
		if m.Vote.Phase == gpbft.CONVERGE_PHASE {
			return "(Some " + d.ct.raw(m.Vote.Value) + ")"
		}
	}
	return "None"
}

func (d *instDriver) start() error {
	if err := d.p.StartInstanceAt(0, d.now); err != nil {
		return err
	}
	d.host.outs = nil // the start alarm belongs to the participant, not to the instance
	nb := len(d.host.bcasts)
	err := d.p.ReceiveAlarm(d.ctx)
	_ = nb
	d.after(fmt.Sprintf("EvStart %d", int64(d.now.Sub(d.t0))), "start", err)
	return err
}

// startWithQueue: the instance is scheduled, messages arrive BEFORE its start alarm fires (they are queued by the participant),
// then the alarm fires: beginInstance = Start + ReceiveMany(the drained queue, ordered by round and step).  At most one
// message per (round, step) is queued so that the drained order is determined.  The first observation covers everything.
type queuedMsg struct {
	sender gpbft.ActorID
	round  uint64
	phase  gpbft.Phase
	value  *gpbft.ECChain
	just   *gpbft.Justification
}

func (d *instDriver) startWithQueue(ms []queuedMsg) error {
	if err := d.p.StartInstanceAt(0, d.now); err != nil {
		return err
	}
	type qt struct {
		round uint64
		phase gpbft.Phase
		term  string
	}
	var qs []qt
	seen := map[string]bool{}
	for _, q := range ms {
		k := fmt.Sprint(q.round, q.phase)
		if seen[k] {
			continue
		}
		mb := &gpbft.MessageBuilder{NetworkName: verifNet, PowerTable: d.pt,
			Payload: gpbft.Payload{Instance: 0, Round: q.round, Phase: q.phase, SupplementalData: d.supp, Value: q.value}, Justification: q.just}
		if q.phase == gpbft.CONVERGE_PHASE {
			mb.BeaconForTicket = []byte("beacon")
		}
		msg, err := mb.Build(d.ctx, d.backend, q.sender)
		if err != nil {
			continue
		}
		vm, err := d.p.ValidateMessage(d.ctx, msg)
		if err != nil {
			continue
		}
		if err := d.p.ReceiveMessage(d.ctx, vm); err != nil {
			continue
		}
		seen[k] = true
		rank := "0"
		if q.phase == gpbft.CONVERGE_PHASE {
			sp, _ := d.pt.Get(q.sender)
			rank = rankKey(gpbft.ComputeTicketRank(msg.Ticket, sp))
		}
		j := "None"
		if q.just != nil {
			var sl []int64
			_ = q.just.Signers.ForEach(func(b uint64) error { sl = append(sl, int64(b)); return nil })
			j = fmt.Sprintf("(Some (mkJ %d %s %s %s))", q.just.Vote.Round, phaseCoqN(q.just.Vote.Phase), d.ct.raw(q.just.Vote.Value), cListZ(sl))
		}
		d.record(q.sender, q.round, q.phase, q.value, q.just, msg)
		qs = append(qs, qt{q.round, q.phase, fmt.Sprintf("(mkM %d %d %s %s %s %s, None)", d.idx(q.sender), q.round, phaseCoqN(q.phase), d.ct.raw(q.value), rank, j)})
		d.desc = append(d.desc, fmt.Sprintf("queued %s r%d from %d value=%s just=%v", q.phase, q.round, q.sender, q.value, q.just != nil))
	}
	// Drain's order: by round, then by step (one message per class)
	sort.SliceStable(qs, func(a, b int) bool {
		if qs[a].round != qs[b].round {
			return qs[a].round < qs[b].round
		}
		return qs[a].phase < qs[b].phase
	})
	for _, q := range qs {
		d.queuedTerms = append(d.queuedTerms, q.term)
	}
	d.queued = true
	d.startNow = int64(d.now.Sub(d.t0))
	d.host.outs = nil
	err := d.p.ReceiveAlarm(d.ctx)
	d.after(fmt.Sprintf("EvStart %d", d.startNow), fmt.Sprintf("start with %d queued messages", len(qs)), err)
	return err
}

// traceTerm: the Coq proposition the trace of this driver has to satisfy
func (d *instDriver) traceTerm() string {
	if !d.queued {
		return fmt.Sprintf("trace_ok %s %s %s", d.cfgTerm(), d.ct.raw(d.input), cList(d.events))
	}
	first := d.events[0] // "(EvStart t, obs)"
	obs := first[strings.Index(first, ", ")+2 : len(first)-1]
	return fmt.Sprintf("traceq_ok %s %s %d %s %s %s", d.cfgTerm(), d.ct.raw(d.input), d.startNow, cList(d.queuedTerms), obs, cList(d.events[1:]))
}

func (d *instDriver) fireAlarm() error {
	nb := len(d.host.bcasts)
	err := d.p.ReceiveAlarm(d.ctx)
	hint := "None"
	if len(d.host.bcasts) > nb {
		hint = d.swayHintSince(nb)
	}
	d.after(fmt.Sprintf("EvAlarm %d %s", int64(d.now.Sub(d.t0)), hint), fmt.Sprintf("alarm@%v", d.now.Sub(d.t0)), err)
	return err
}

func (d *instDriver) swayHintSince(nb int) string {
	for i := len(d.host.bcasts) - 1; i >= nb; i-- {
		m := d.host.bcasts[i]
		if m.Vote.Phase == gpbft.CONVERGE_PHASE {
			return "(Some " + d.ct.raw(m.Vote.Value) + ")"
		}
	}
	return "None"
}

// deliver a puppet message; returns (delivered, error from ReceiveMessage)
func (d *instDriver) deliver(sender gpbft.ActorID, round uint64, phase gpbft.Phase, value *gpbft.ECChain, just *gpbft.Justification) (bool, error) {
	mb := &gpbft.MessageBuilder{NetworkName: verifNet, PowerTable: d.pt,
		Payload: gpbft.Payload{Instance: 0, Round: round, Phase: phase, SupplementalData: d.supp, Value: value}, Justification: just}
	if phase == gpbft.CONVERGE_PHASE {
		mb.BeaconForTicket = []byte("beacon")
	}
	msg, err := mb.Build(d.ctx, d.backend, sender)
	if err != nil {
		return false, nil
	}
	// a forged twin (same vote, garbage signature) offered twice just before the genuine message: a rejected message must
	// stay rejected when it is offered again; if the replay is admitted, the forged message is what reaches the instance
	if d.r.chance(12) && len(msg.Signature) > 0 {
		forged := *msg
		forged.Signature = append([]byte{}, msg.Signature...)
		forged.Signature[len(forged.Signature)/2] ^= 0x5a
		if _, e1 := d.p.ValidateMessage(d.ctx, &forged); e1 != nil {
			if _, e2 := d.p.ValidateMessage(d.ctx, &forged); e2 == nil {
				msg = &forged
				d.desc = append(d.desc, fmt.Sprintf("forged %s r%d from %d rejected once, ADMITTED on replay", phase, round, sender))
			}
		}
	}
	vm, err := d.p.ValidateMessage(d.ctx, msg)
	if err != nil {
		return false, nil // not a valid/relevant message: never reaches the instance
	}
	rank := "0"
	if phase == gpbft.CONVERGE_PHASE {
		sp, _ := d.pt.Get(sender)
		rank = rankKey(gpbft.ComputeTicketRank(msg.Ticket, sp))
	}
	j := "None"
	if just != nil {
		var sl []int64
		_ = just.Signers.ForEach(func(b uint64) error { sl = append(sl, int64(b)); return nil })
		j = fmt.Sprintf("(Some (mkJ %d %s %s %s))", just.Vote.Round, phaseCoqN(just.Vote.Phase), d.ct.raw(just.Vote.Value), cListZ(sl))
	}
	d.record(sender, round, phase, value, just, msg)
	nb := len(d.host.bcasts)
	rerr := d.p.ReceiveMessage(d.ctx, vm)
	hint := "None"
	if len(d.host.bcasts) > nb {
		hint = d.swayHintSince(nb)
	}
	ev := fmt.Sprintf("EvDeliver %d (mkM %d %d %s %s %s %s) %s", int64(d.now.Sub(d.t0)), d.idx(sender), round, phaseCoqN(phase), d.ct.raw(value), rank, j, hint)
	d.after(ev, fmt.Sprintf("deliver %s r%d from %d value=%s just=%v", phase, round, sender, value, just != nil), rerr)
	return true, rerr
}

func phaseCoqN(p gpbft.Phase) string {
	switch p {
	case gpbft.INITIAL_PHASE:
		return "INITIAL"
	case gpbft.QUALITY_PHASE:
		return "QUALITY"
	case gpbft.CONVERGE_PHASE:
		return "CONVERGE"
	case gpbft.PREPARE_PHASE:
		return "PREPARE"
	case gpbft.COMMIT_PHASE:
		return "COMMIT"
	case gpbft.DECIDE_PHASE:
		return "DECIDE"
	}
	return "TERMINATED"
}

// record a delivery in the harness's own books (what the protocol says counts: the first message of a sender per slot;
// PREPARE/CONVERGE of rounds the subject has already left are not counted by anyone)
func (d *instDriver) record(sender gpbft.ActorID, round uint64, phase gpbft.Phase, value *gpbft.ECChain, just *gpbft.Justification, msg *gpbft.GMessage) {
	pr := d.p.Progress().Instant
	if pr.Phase == gpbft.TERMINATED_PHASE {
		return
	}
	if just != nil && !just.Vote.Value.IsZero() && just.Vote.Value.Eq(value) {
		d.proven[ckey(value)] = true
	}
	switch phase {
	case gpbft.QUALITY_PHASE:
		if _, ok := d.qualityBy[sender]; !ok {
			d.qualityBy[sender] = value
		}
	case gpbft.DECIDE_PHASE:
		if !d.decideOf[sender] {
			d.decideOf[sender] = true
			k := ckey(value)
			if d.decideBy[k] == nil {
				d.decideBy[k] = map[gpbft.ActorID]bool{}
			}
			d.decideBy[k][sender] = true
		}
	case gpbft.PREPARE_PHASE:
		if round < pr.Round {
			return
		}
		if d.prepBy[round] == nil {
			d.prepBy[round] = map[gpbft.ActorID]*gpbft.ECChain{}
		}
		if _, ok := d.prepBy[round][sender]; !ok {
			d.prepBy[round][sender] = value
		}
	case gpbft.CONVERGE_PHASE:
		if round < pr.Round {
			return
		}
		if d.convBy[round] == nil {
			d.convBy[round] = map[string]*convSeen{}
			d.convFrom[round] = map[gpbft.ActorID]bool{}
		}
		if d.convFrom[round][sender] {
			return
		}
		d.convFrom[round][sender] = true
		sp, _ := d.pt.Get(sender)
		rank := gpbft.ComputeTicketRank(msg.Ticket, sp)
		k := ckey(value)
		if cs, ok := d.convBy[round][k]; !ok {
			d.convBy[round][k] = &convSeen{chain: value, rank: rank}
		} else if rank < cs.rank {
			cs.rank = rank
		}
	}
}

func ckey(c *gpbft.ECChain) string { k := c.Key(); return string(k[:]) }

// a validly signed message of a committee member whose supplemental data differs from the instance's (other
// commitments): it passes message validation (which cannot know the instance's supplemental data) and must be refused
// by the instance without any effect.  Returns true if the participant ACCEPTED it.
func (d *instDriver) deliverForeignSupp(sender gpbft.ActorID, round uint64, phase gpbft.Phase, value *gpbft.ECChain, jround uint64, jphase gpbft.Phase) bool {
	saved := d.supp
	alt := d.supp
	alt.Commitments[7] ^= 0x5a
	d.supp = alt
	just := d.justify(jround, jphase, value)
	mb := &gpbft.MessageBuilder{NetworkName: verifNet, PowerTable: d.pt,
		Payload: gpbft.Payload{Instance: 0, Round: round, Phase: phase, SupplementalData: alt, Value: value}, Justification: just}
	d.supp = saved
	msg, err := mb.Build(d.ctx, d.backend, sender)
	if err != nil {
		return false
	}
	vm, err := d.p.ValidateMessage(d.ctx, msg)
	if err != nil {
		return false
	}
	nOuts := len(d.host.outs)
	before := d.p.Progress().Instant
	rerr := d.p.ReceiveMessage(d.ctx, vm)
	if rerr == nil || len(d.host.outs) != nOuts || d.p.Progress().Instant != before {
		d.desc = append(d.desc, fmt.Sprintf("FOREIGN-SUPPLEMENTAL %s from %d ACCEPTED (err=%v)", phase, sender, rerr))
		return true
	}
	return false
}
