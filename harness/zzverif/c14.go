//go:build verif

package main

import (
	"bytes"
	"context"
	"fmt"
	"os"
	"reflect"
	"runtime"
	"strings"

	"github.com/filecoin-project/go-f3/certexchange"
	"github.com/filecoin-project/go-f3/certs"
	"github.com/filecoin-project/go-f3/certstore"
	"github.com/filecoin-project/go-f3/chainexchange"
	"github.com/filecoin-project/go-f3/gpbft"
	"github.com/filecoin-project/go-f3/internal/encoding"
	"github.com/filecoin-project/go-f3/merkle"
	"github.com/filecoin-project/go-keccak"
	cbg "github.com/whyrusleeping/cbor-gen"
)

func init() { runners["C14"] = runC14 }

func bytesTerm(b []byte) string {
	s := make([]string, len(b))
	for i, x := range b {
		s[i] = fmt.Sprint(x)
	}
	return "[" + strings.Join(s, "; ") + "]"
}

// ---- parser of Coq's printed nested integer lists ----
type pnode struct {
	n    int64
	kids []*pnode
	leaf bool
}

func parseCoqLists(txt string) []*pnode {
	var out []*pnode
	i := 0
	var parse func() *pnode
	parse = func() *pnode {
		for i < len(txt) && (txt[i] == ' ' || txt[i] == '\n' || txt[i] == ';') {
			i++
		}
		if i < len(txt) && txt[i] == '[' {
			i++
			nd := &pnode{}
			for {
				for i < len(txt) && (txt[i] == ' ' || txt[i] == '\n' || txt[i] == ';') {
					i++
				}
				if i >= len(txt) {
					return nd
				}
				if txt[i] == ']' {
					i++
					return nd
				}
				nd.kids = append(nd.kids, parse())
			}
		}
		var v int64
		for i < len(txt) && txt[i] >= '0' && txt[i] <= '9' {
			v = v*10 + int64(txt[i]-'0')
			i++
		}
		return &pnode{n: v, leaf: true}
	}
	for {
		k := strings.Index(txt[i:], "= [")
		if k < 0 {
			return out
		}
		i += k + 2
		out = append(out, parse())
	}
}

// evaluate a serialised shape (prefix form) with the real hash
func evalShape(ser []*pnode, pos *int, values [][]byte) merkle.Digest {
	h := keccak.NewLegacyKeccak256()
	sum := func(parts ...[]byte) (d merkle.Digest) {
		h.Reset()
		for _, p := range parts {
			h.Write(p)
		}
		copy(d[:], h.Sum(nil))
		return d
	}
	tag := ser[*pos].n
	*pos++
	switch tag {
	case 0:
		return merkle.Digest{}
	case 1:
		i := ser[*pos].n
		*pos++
		return sum([]byte{1}, values[i])
	default:
		l := evalShape(ser, pos, values)
		r := evalShape(ser, pos, values)
		return sum([]byte{0}, l[:], r[:])
	}
}

func runC14(o *out, r *rng, thorough bool, rp string) {
	o.Rule = "(A) signing payloads: random and boundary payloads / tipsets / VRF inputs, the bytes of the real MarshalForSigning* compared with the byte-level Coq model, and every single-field perturbation must change the bytes; (B) chain keys: the shapes of Tree / BatchTree computed by the Coq model for 1..134 leaves are evaluated with the real keccak256 and compared with merkle.Tree / merkle.BatchTree on random leaves; ECChain.Key vs KeysForPrefixes vs AllPrefixes vs Prefix(i).Key on chains up to 128 tipsets; (C) codecs: cbor-gen header writer/reader vs the Coq model on boundary and random (type, argument) pairs and on malformed prefixes; for every wire and storage type (GMessage, PartialGMessage, Justification, Payload, ECChain, TipSet, SupplementalData, PowerEntries, FinalityCertificate, PowerTableDiff, certexchange Request/ResponseHeader, chainexchange Message) encode-decode-encode equality with and without zstd, at boundary sizes, and decoding of truncated / bit-flipped / length-inflated inputs must return an error without panic and without allocating more than 64 MiB; non-trivial = every case; compressed decoding is also exercised with one message held between decompression and CBOR parsing while others are decoded, and by 8 concurrent decoders"
	ctx := context.Background()
	_ = ctx
	// ---------- (B) merkle shapes from the model ----------
	if pe := os.Getenv("VERIF_PRE_EVAL"); pe != "" {
		raw, err := os.ReadFile(pe)
		must(err)
		blocks := parseCoqLists(string(raw))
		if len(blocks) != 3 {
			o.violate("the Coq model's tree shapes are available", "c14-model-shapes-missing", nil, fmt.Sprint(len(blocks)))
		} else {
			maxN := len(blocks[0].kids)
			values := make([][]byte, maxN+2)
			rounds := 3
			if thorough {
				rounds = 40
			}
			for rd := 0; rd < rounds; rd++ {
				for i := range values {
					values[i] = make([]byte, 1+r.intn(80))
					for j := range values[i] {
						values[i][j] = byte(r.intn(256))
					}
				}
				for n := 1; n <= maxN; n++ {
					pos := 0
					want := evalShape(blocks[0].kids[n-1].kids, &pos, values)
					got := merkle.Tree(values[:n])
					if want != got {
						o.violate("merkle.Tree equals the model's tree", "c14-merkle-tree", map[string]any{"n": n}, "")
					}
					o.count("merkle-tree", fmt.Sprint(rd, n), true)
				}
				for bi, nn := range blocks[1].kids {
					n := int(nn.n)
					batch := merkle.BatchTree(values[:n])
					for i := 0; i < n; i++ {
						pos := 0
						want := evalShape(blocks[2].kids[bi].kids[i].kids, &pos, values)
						if batch[i] != want {
							o.violate("merkle.BatchTree equals the model's batch tree", "c14-merkle-batch", map[string]any{"n": n, "prefix": i + 1}, "")
						}
						if batch[i] != merkle.Tree(values[:i+1]) {
							o.violate("the key of a prefix is the same computed directly or in batch", "c14-batch-vs-direct", map[string]any{"n": n, "prefix": i + 1}, "")
						}
					}
					o.count("merkle-batch", fmt.Sprint(rd, n), true)
				}
			}
		}
	} else {
		o.violate("the Coq model's tree shapes are available", "c14-model-shapes-missing", nil, "VERIF_PRE_EVAL not set")
	}
	// chain keys on real chains
	nchains := 30
	if thorough {
		nchains = 400
	}
	mkRandTs := func(epoch int64) *gpbft.TipSet {
		key := make([]byte, 1+r.intn(60))
		for i := range key {
			key[i] = byte(r.intn(256))
		}
		if r.chance(5) {
			key = bytes.Repeat([]byte{7}, gpbft.TipsetKeyMaxLen)
		}
		ts := &gpbft.TipSet{Epoch: epoch, Key: key, PowerTable: gpbft.MakeCid([]byte(fmt.Sprint("pt", r.intn(5))))}
		if r.chance(30) {
			ts.Commitments[r.intn(32)] = byte(1 + r.intn(255))
		}
		return ts
	}
	for ci := 0; ci < nchains; ci++ {
		n := 1 + r.intn(12)
		if ci%10 == 0 {
			n = gpbft.ChainMaxLen
		}
		var tss []*gpbft.TipSet
		ep := int64(r.intn(1000))
		for i := 0; i < n; i++ {
			tss = append(tss, mkRandTs(ep))
			ep += int64(1 + r.intn(3))
		}
		c := &gpbft.ECChain{TipSets: tss}
		keys := c.KeysForPrefixes()
		all := c.AllPrefixes()
		for i := 0; i < n; i++ {
			direct := (&gpbft.ECChain{TipSets: tss[:i+1]}).Key()
			if keys[i] != direct || all[i].Key() != direct || c.Prefix(i).Key() != direct {
				o.violate("the key identifying a chain is the same computed directly, for all prefixes in batch, or read from cached prefix objects", "c14-chain-key", map[string]any{"len": n, "prefix": i}, "")
			}
		}
		// sensitivity of the chain key: any single-field perturbation of any tipset, the length and the order
		k0 := c.Key()
		idx := r.intn(n)
		perturbs := []func(t *gpbft.TipSet){
			func(t *gpbft.TipSet) { t.Epoch++ },
			func(t *gpbft.TipSet) { t.Key = append(append([]byte{}, t.Key...), 1) },
			func(t *gpbft.TipSet) { t.Key = append([]byte{t.Key[0] ^ 1}, t.Key[1:]...) },
			func(t *gpbft.TipSet) { t.PowerTable = gpbft.MakeCid([]byte("other-pt")) },
			func(t *gpbft.TipSet) { t.Commitments[r.intn(32)] ^= 0x40 },
		}
		for pi, pf := range perturbs {
			cp := make([]*gpbft.TipSet, n)
			for i, t := range tss {
				x := *t
				cp[i] = &x
			}
			pf(cp[idx])
			if (&gpbft.ECChain{TipSets: cp}).Key() == k0 {
				o.violate("the chain key changes whenever any tipset's epoch, key, power-table CID or commitments change", "c14-key-insensitive", map[string]any{"perturbation": pi, "tipset": idx, "len": n}, "")
			}
		}
		if n > 1 {
			if (&gpbft.ECChain{TipSets: tss[:n-1]}).Key() == k0 {
				o.violate("the chain key changes with the chain's length", "c14-key-insensitive-length", nil, "")
			}
			sw := append([]*gpbft.TipSet{}, tss...)
			sw[0], sw[n-1] = sw[n-1], sw[0]
			if !bytes.Equal(sw[0].MarshalForSigning(), tss[0].MarshalForSigning()) && (&gpbft.ECChain{TipSets: sw}).Key() == k0 {
				o.violate("the chain key changes with the chain's order", "c14-key-insensitive-order", nil, "")
			}
		}
		o.count("chain-keys", fmt.Sprint(ci), true)
	}

	// tipset keys at the documented boundary (TipsetKeyMaxLen = 20 CIDs of 38 bytes): every byte of the key, the last ones
	// included, is bound by the signed bytes, the chain key and the payload signed for a vote on the chain
	for _, kl := range []int{1, 37, 38, 255, 256, 257, gpbft.TipsetKeyMaxLen - 3, gpbft.TipsetKeyMaxLen - 2, gpbft.TipsetKeyMaxLen - 1, gpbft.TipsetKeyMaxLen} {
		key := make([]byte, kl)
		for i := range key {
			key[i] = byte(r.intn(256))
		}
		ts := &gpbft.TipSet{Epoch: int64(r.intn(1000)), Key: key, PowerTable: ptCid}
		b0 := ts.MarshalForSigning()
		c0 := (&gpbft.ECChain{TipSets: []*gpbft.TipSet{ts}}).Key()
		for back := 1; back <= 4 && back <= kl; back++ {
			k2 := append([]byte{}, key...)
			k2[kl-back] ^= byte(1 + r.intn(255))
			t2 := &gpbft.TipSet{Epoch: ts.Epoch, Key: k2, PowerTable: ptCid}
			in := map[string]any{"key_len": kl, "changed_byte": kl - back}
			if bytes.Equal(t2.MarshalForSigning(), b0) {
				o.violate("the signed bytes change whenever any tipset's key changes", "c14-tipset-key-byte-unbound", in, "two tipsets differing in one key byte marshal identically for signing")
			}
			if (&gpbft.ECChain{TipSets: []*gpbft.TipSet{t2}}).Key() == c0 {
				o.violate("the chain key changes whenever any tipset's key changes", "c14-key-insensitive", in, "two chains differing in one tipset key byte have the same chain key")
			}
		}
		var kb bytes.Buffer
		_ = cbg.WriteByteArray(&kb, ts.Key)
		tsCid := gpbft.MakeCid(kb.Bytes())
		o.coqCase(fmt.Sprintf("boundary tipset key_len=%d", kl), fmt.Sprintf("bytes_eqb (marshal_tipset (%d) %s %s %s) %s",
			ts.Epoch, bytesTerm(ts.Commitments[:]), bytesTerm(tsCid.Bytes()), bytesTerm(ts.PowerTable.Bytes()), bytesTerm(b0)))
		o.count("tipset-key-boundary", fmt.Sprint(kl), true)
	}

	// ---------- (A) signing payloads ----------
	np := 60
	if thorough {
		np = 1500
	}
	tagB := []byte(gpbft.DomainSeparationTag)
	tagV := []byte(gpbft.DomainSeparationTagVRF)
	for i := 0; i < np; i++ {
		nn := gpbft.NetworkName(fmt.Sprintf("net%d", r.intn(3)))
		if r.chance(10) {
			nn = gpbft.NetworkName("a:b" + strings.Repeat("x", r.intn(20)))
		}
		round, inst := r.u64(), r.u64()
		switch r.intn(4) {
		case 0:
			round, inst = uint64(r.intn(5)), uint64(r.intn(1000))
		case 1:
			round, inst = ^uint64(0), 1<<63
		}
		var supp gpbft.SupplementalData
		supp.PowerTable = gpbft.MakeCid([]byte(fmt.Sprint("pt", r.intn(4))))
		if r.bool() {
			supp.Commitments[r.intn(32)] = byte(r.intn(256))
		}
		var key gpbft.ECChainKey
		for j := range key {
			key[j] = byte(r.intn(256))
		}
		p := gpbft.Payload{Instance: inst, Round: round, Phase: gpbft.Phase(r.intn(7)), SupplementalData: supp}
		got := p.MarshalForSigningWithValueKey(nn, key)
		o.coqCase(fmt.Sprintf("payload %d", i), fmt.Sprintf("bytes_eqb (marshal_payload %s %s %d %s %s %s %s %s) %s",
			bytesTerm(tagB), bytesTerm([]byte(nn)), int(p.Phase), cU(round), cU(inst), bytesTerm(supp.Commitments[:]), bytesTerm(key[:]), bytesTerm(supp.PowerTable.Bytes()), bytesTerm(got)))
		// every single-field perturbation changes the signed bytes
		type pert struct {
			name string
			f    func(p *gpbft.Payload, nn *gpbft.NetworkName, k *gpbft.ECChainKey)
		}
		for _, pt := range []pert{
			{"network", func(p *gpbft.Payload, nn *gpbft.NetworkName, k *gpbft.ECChainKey) { *nn = *nn + "x" }},
			{"instance", func(p *gpbft.Payload, nn *gpbft.NetworkName, k *gpbft.ECChainKey) {
				p.Instance ^= 1 << uint(r.intn(64))
			}},
			{"round", func(p *gpbft.Payload, nn *gpbft.NetworkName, k *gpbft.ECChainKey) { p.Round ^= 1 << uint(r.intn(64)) }},
			{"phase", func(p *gpbft.Payload, nn *gpbft.NetworkName, k *gpbft.ECChainKey) { p.Phase = (p.Phase + 1) % 7 }},
			{"commitments", func(p *gpbft.Payload, nn *gpbft.NetworkName, k *gpbft.ECChainKey) {
				p.SupplementalData.Commitments[r.intn(32)] ^= 1
			}},
			{"power-table", func(p *gpbft.Payload, nn *gpbft.NetworkName, k *gpbft.ECChainKey) {
				p.SupplementalData.PowerTable = gpbft.MakeCid([]byte("another"))
			}},
			{"value-key", func(p *gpbft.Payload, nn *gpbft.NetworkName, k *gpbft.ECChainKey) { k[r.intn(32)] ^= 1 }},
		} {
			p2, nn2, k2 := p, nn, key
			pt.f(&p2, &nn2, &k2)
			if bytes.Equal(p2.MarshalForSigningWithValueKey(nn2, k2), got) {
				o.violate("the signed bytes change whenever network name, instance, round, step, supplemental data or the value change", "c14-payload-insensitive", map[string]any{"field": pt.name}, "")
			}
		}
		// tipset
		ts := mkRandTs(int64(r.u64()))
		var kb bytes.Buffer
		_ = cbg.WriteByteArray(&kb, ts.Key)
		tsCid := gpbft.MakeCid(kb.Bytes())
		o.coqCase(fmt.Sprintf("tipset %d", i), fmt.Sprintf("bytes_eqb (marshal_tipset (%d) %s %s %s) %s",
			ts.Epoch, bytesTerm(ts.Commitments[:]), bytesTerm(tsCid.Bytes()), bytesTerm(ts.PowerTable.Bytes()), bytesTerm(ts.MarshalForSigning())))
		if len(tsCid.Bytes()) != 38 || len(ts.PowerTable.Bytes()) != 38 {
			o.violate("CIDs produced by MakeCid have the fixed length the injectivity theorem assumes", "c14-cid-length", nil, fmt.Sprint(len(tsCid.Bytes())))
		}
		// VRF input
		beacon := make([]byte, 32)
		for j := range beacon {
			beacon[j] = byte(r.intn(256))
		}
		vin := gpbft.VerifVrfInput(beacon, inst, round, nn)
		o.coqCase(fmt.Sprintf("vrf %d", i), fmt.Sprintf("bytes_eqb (marshal_vrf %s %s %s %s %s) %s", bytesTerm(tagV), bytesTerm([]byte(nn)), bytesTerm(beacon), cU(inst), cU(round), bytesTerm(vin)))
		b2 := append([]byte{}, beacon...)
		b2[r.intn(32)] ^= 1
		if bytes.Equal(gpbft.VerifVrfInput(b2, inst, round, nn), vin) || bytes.Equal(gpbft.VerifVrfInput(beacon, inst+1, round, nn), vin) ||
			bytes.Equal(gpbft.VerifVrfInput(beacon, inst, round+1, nn), vin) || bytes.Equal(gpbft.VerifVrfInput(beacon, inst, round, nn+"y"), vin) {
			o.violate("the VRF ticket input changes with beacon, instance, round and network", "c14-vrf-insensitive", nil, "")
		}
		o.count("signing-bytes", fmt.Sprint(i), true)
	}

	// ---------- (C) CBOR headers vs the model ----------
	nhdr := 150
	if thorough {
		nhdr = 3000
	}
	bounds := []uint64{0, 1, 23, 24, 25, 255, 256, 257, 65535, 65536, 65537, 1<<32 - 1, 1 << 32, 1<<32 + 1, 1<<63 - 1, 1 << 63, ^uint64(0)}
	for i := 0; i < nhdr; i++ {
		mt := byte(r.intn(8))
		n := r.u64() >> uint(r.intn(64))
		if i < len(bounds)*2 {
			n = bounds[i%len(bounds)]
		}
		var b bytes.Buffer
		must(cbg.WriteMajorTypeHeader(&b, mt, n))
		o.coqCase(fmt.Sprintf("cbor header encode %d %d", mt, n), fmt.Sprintf("bytes_eqb (encode_header %d %s) %s", mt, cU(n), bytesTerm(b.Bytes())))
		// reader on arbitrary prefixes (valid, non-canonical, reserved, truncated)
		in := b.Bytes()
		switch r.intn(5) {
		case 0:
			in = in[:r.intn(len(in)+1)]
		case 1:
			in = make([]byte, 1+r.intn(9))
			for j := range in {
				in[j] = byte(r.intn(256))
			}
		case 2: // non-canonical: a longer form of a small value
			in = []byte{mt<<5 | byte(24+r.intn(4)), 0, 0, 0, 0, 0, 0, 0, byte(r.intn(24))}
		}
		tail := []byte{9, 9}
		full := append(append([]byte{}, in...), tail...)
		rd := bytes.NewReader(full)
		gmt, gn, err := cbg.CborReadHeader(rd)
		exp := "None"
		if err == nil {
			rest := full[len(full)-rd.Len():]
			exp = fmt.Sprintf("(Some (%d, %s, %s))", gmt, cU(gn), bytesTerm(rest))
		}
		o.coqCase(fmt.Sprintf("cbor header decode %x", full), fmt.Sprintf("hdr_eqb (decode_header %s) %s", bytesTerm(full), exp))
		o.count("cbor-header", fmt.Sprint(i), true)
	}

	// ---------- (C) codecs of every wire / storage type ----------
	runCodecs(o, r, thorough)
	o.finish("From F3 Require Import Payload Cbor EncRun Codec CidModel SchemasGen CodecRun.")
}

type cborT interface {
	MarshalCBOR(w interface{ Write([]byte) (int, error) }) error
}

func runCodecs(o *out, r *rng, thorough bool) {
	e := newValEnv(r)
	long := &gpbft.ECChain{}
	for i := 0; i < gpbft.ChainMaxLen; i++ {
		long.TipSets = append(long.TipSets, &gpbft.TipSet{Epoch: int64(i), Key: bytes.Repeat([]byte{byte(i)}, gpbft.TipsetKeyMaxLen), PowerTable: ptCid})
	}
	mkMsgs := func() []*gpbft.GMessage {
		var ms []*gpbft.GMessage
		for _, ph := range []gpbft.Phase{gpbft.QUALITY_PHASE, gpbft.CONVERGE_PHASE, gpbft.PREPARE_PHASE, gpbft.COMMIT_PHASE, gpbft.DECIDE_PHASE} {
			ms = append(ms, e.validMsg(10, uint64(1+r.intn(3)), ph, e.chains[r.intn(len(e.chains))]))
		}
		ms = append(ms, e.validMsg(10, 2, gpbft.COMMIT_PHASE, &gpbft.ECChain{})) // bottom value
		big := e.validMsg(10, 0, gpbft.QUALITY_PHASE, e.chains[0])
		big.Vote.Value = long // 128 tipsets with 760-byte keys
		ms = append(ms, big)
		return ms
	}
	type codec struct {
		name   string
		fresh  func() any
		values []any
	}
	var cs []codec
	msgs := mkMsgs()
	var gm, pgm, js, pls, chs []any
	for _, m := range msgs {
		gm = append(gm, m)
		pg := &gpbft.PartialGMessage{GMessage: m, VoteValueKey: m.Vote.Value.Key()}
		pgm = append(pgm, pg)
		if m.Justification != nil {
			js = append(js, m.Justification)
		}
		pl := m.Vote
		pls = append(pls, &pl)
		chs = append(chs, m.Vote.Value)
	}
	g := newCertGen(r, 4, 3)
	var fcs, diffs []any
	for i := 0; i < 4; i++ {
		c := g.makeCert()
		fcs = append(fcs, c)
		d := c.PowerTableDelta
		diffs = append(diffs, &d)
	}
	pe := g.table
	cs = append(cs,
		codec{"GMessage", func() any { return &gpbft.GMessage{} }, gm},
		codec{"PartialGMessage", func() any { return &gpbft.PartialGMessage{} }, pgm},
		codec{"Justification", func() any { return &gpbft.Justification{} }, js},
		codec{"Payload", func() any { return &gpbft.Payload{} }, pls},
		codec{"ECChain", func() any { return &gpbft.ECChain{} }, chs},
		codec{"TipSet", func() any { return &gpbft.TipSet{} }, []any{long.TipSets[3], e.chains[0].TipSets[1]}},
		codec{"SupplementalData", func() any { return &gpbft.SupplementalData{} }, []any{&e.supp}},
		codec{"PowerEntries", func() any { return &gpbft.PowerEntries{} }, []any{&pe}},
		codec{"FinalityCertificate", func() any { return &certs.FinalityCertificate{} }, fcs},
		codec{"PowerTableDiff", func() any { return &certs.PowerTableDiff{} }, diffs},
		codec{"certexchange.Request", func() any { return &certexchange.Request{} }, []any{&certexchange.Request{FirstInstance: 7, Limit: certexchange.NoLimit, IncludePowerTable: true}, &certexchange.Request{}}},
		codec{"certexchange.ResponseHeader", func() any { return &certexchange.ResponseHeader{} }, []any{&certexchange.ResponseHeader{PendingInstance: 9, PowerTable: pe}}},
		codec{"certstore.SnapshotHeader", func() any { return &certstore.SnapshotHeader{} }, []any{&certstore.SnapshotHeader{Version: 1, FirstInstance: 3, LatestInstance: 9, InitialPowerTable: pe}, &certstore.SnapshotHeader{}}},
		codec{"PowerEntry", func() any { return &gpbft.PowerEntry{} }, []any{&pe[0], &pe[len(pe)-1]}},
		codec{"chainexchange.Message", func() any { return &chainexchange.Message{} }, []any{&chainexchange.Message{Instance: 3, Chain: e.chains[0], Timestamp: 1234}, &chainexchange.Message{Instance: 3, Chain: long, Timestamp: 1}}},
	)
	type marsh interface {
		MarshalCBOR(w interface {
			Write(p []byte) (n int, err error)
		}) error
	}
	enc := func(v any) ([]byte, error) {
		var b bytes.Buffer
		m := reflect.ValueOf(v).MethodByName("MarshalCBOR")
		res := m.Call([]reflect.Value{reflect.ValueOf(&b)})
		if !res[0].IsNil() {
			return nil, res[0].Interface().(error)
		}
		return b.Bytes(), nil
	}
	lastRemaining := 0
	dec := func(v any, data []byte) (err error) {
		defer func() {
			if p := recover(); p != nil {
				err = fmt.Errorf("PANIC: %v", p)
			}
		}()
		m := reflect.ValueOf(v).MethodByName("UnmarshalCBOR")
		rd := bytes.NewReader(data)
		res := m.Call([]reflect.Value{reflect.ValueOf(rd)})
		lastRemaining = rd.Len()
		if !res[0].IsNil() {
			return res[0].Interface().(error)
		}
		return nil
	}
	muts := 30
	modelMuts := 14
	if thorough {
		muts = 600
		modelMuts = 120
	}
	for _, c := range cs {
		for vi, v := range c.values {
			b1, err := enc(v)
			if err != nil {
				o.violate("every wire and storage value encodes", "c14-encode-error", map[string]any{"type": c.name, "value": vi}, err.Error())
				continue
			}
			modelEncodeCase(o, c.name, v, b1)
			if vi == 0 {
				limitMonitor(o, c.name, v, c.fresh, dec, enc)
			}
			b1b, _ := enc(v)
			if !bytes.Equal(b1, b1b) {
				o.violate("encoding is deterministic", "c14-encode-nondeterministic", map[string]any{"type": c.name}, "")
			}
			x := c.fresh()
			if err := dec(x, b1); err != nil {
				o.violate("every wire and storage type decodes to an equal value after encoding", "c14-roundtrip-decode", map[string]any{"type": c.name, "value": vi}, err.Error())
				continue
			}
			b2, err := enc(x)
			if err != nil || !bytes.Equal(b1, b2) {
				o.violate("every wire and storage type decodes to an equal value after encoding", "c14-roundtrip-differs", map[string]any{"type": c.name, "value": vi}, fmt.Sprint(err))
			}
			o.count("codec-roundtrip", c.name+fmt.Sprint(vi), true)
			// hostile inputs
			heads := headPositions(b1)
			// systematic sweep over the item heads of the first value of every type: another major type with the same
			// argument, and an argument one off, at EVERY head (model and implementation must agree on each)
			if vi == 0 && len(b1) <= modelMaxBytes {
				hs := heads
				if len(hs) > 48 {
					hs = hs[:48]
				}
				for _, p := range hs {
					for _, alt := range []int{0, 3, 4, -1, -2} {
						d := append([]byte{}, b1...)
						kind := "sweep-major"
						if alt >= 0 {
							if int(d[p]>>5) == alt {
								continue
							}
							d[p] = d[p]&0x1f | byte(alt)<<5
						} else {
							kind = "sweep-length"
							q := p
							if low := d[p] & 31; low >= 24 && low <= 27 {
								q = p + 1<<(low-24)
							} else if low == 0 && alt == -2 || low == 23 && alt == -1 {
								continue
							}
							if alt == -1 {
								d[q]++
							} else {
								d[q]--
							}
						}
						hx := c.fresh()
						err := dec(hx, d)
						if err != nil && strings.HasPrefix(err.Error(), "PANIC") {
							o.violate("decoding arbitrary, truncated, oversized or over-expanding input returns an error without panicking", "c14-decode-panic", map[string]any{"type": c.name, "mutation": kind, "input": fmt.Sprintf("%x", d)}, err.Error())
							continue
						}
						var re []byte
						if err == nil {
							re, _ = enc(hx)
						}
						modelDecodeCase(o, c.name, kind, d, err, lastRemaining, re)
					}
				}
			}
			for k := 0; k < muts; k++ {
				d := append([]byte{}, b1...)
				kind := ""
				switch r.intn(11) {
				case 8: // another major type on an item head, same argument
					p := heads[r.intn(len(heads))]
					d[p] = d[p]&0x1f | byte(r.intn(8))<<5
					kind = "head-major-swap"
				case 9: // an item head announcing one element / byte more or less
					p := heads[r.intn(len(heads))]
					if low := d[p] & 31; low < 23 && low > 0 {
						if r.bool() {
							d[p]++
						} else {
							d[p]--
						}
					} else if low >= 24 && low <= 27 {
						last := p + 1<<(low-24)
						if r.bool() {
							d[last]++
						} else {
							d[last]--
						}
					}
					kind = "head-length-off-by-one"
				case 10: // a null in place of an item head
					d[heads[r.intn(len(heads))]] = 0xf6
					kind = "head-null"
				case 5: // a null where a value is expected
					d[r.intn(len(d))] = 0xf6
					kind = "null-byte"
				case 6: // a non-minimal head in place of a one-byte head
					p := r.intn(len(d))
					if d[p]&31 < 24 {
						d = append(append(append([]byte{}, d[:p]...), d[p]&0xe0|24, d[p]&31), d[p+1:]...)
					}
					kind = "non-minimal-head"
				case 7: // a length one above / below what the content holds
					p := r.intn(len(d))
					if d[p]&31 < 23 && d[p]&31 > 0 {
						if r.bool() {
							d[p]++
						} else {
							d[p]--
						}
					}
					kind = "length-off-by-one"
				case 0:
					d = d[:r.intn(len(d))]
					kind = "truncated"
				case 1:
					d[r.intn(len(d))] ^= byte(1 << uint(r.intn(8)))
					kind = "bitflip"
				case 2: // inflate a length: overwrite a header with a huge array/bytes/string/map length
					p := r.intn(len(d))
					mt := []byte{2, 3, 4, 5}[r.intn(4)]
					hdr := []byte{mt<<5 | 27, 0xff, 0xff, 0xff, 0xff, 0xff, 0xff, 0xff, 0xff}
					if r.bool() {
						hdr = []byte{mt<<5 | 26, 0x7f, 0xff, 0xff, 0xff}
					}
					d = append(append(append([]byte{}, d[:p]...), hdr...), d[min(p+1, len(d)):]...)
					kind = "length-inflated"
				case 3:
					d = append(d, d...)
					kind = "doubled"
				default:
					for j := 0; j < 4; j++ {
						d[r.intn(len(d))] = byte(r.intn(256))
					}
					kind = "random-bytes"
				}
				var m0, m1 runtime.MemStats
				runtime.ReadMemStats(&m0)
				hx := c.fresh()
				err := dec(hx, d)
				runtime.ReadMemStats(&m1)
				if k < modelMuts && (err == nil || !strings.HasPrefix(err.Error(), "PANIC")) {
					var re []byte
					if err == nil {
						re, _ = enc(hx)
					}
					modelDecodeCase(o, c.name, kind, d, err, lastRemaining, re)
				}
				if err != nil && strings.HasPrefix(err.Error(), "PANIC") {
					o.violate("decoding arbitrary, truncated, oversized or over-expanding input returns an error without panicking", "c14-decode-panic", map[string]any{"type": c.name, "mutation": kind}, err.Error())
				}
				if m1.TotalAlloc-m0.TotalAlloc > 64<<20 {
					o.violate("decoding hostile input does not allocate beyond the documented limits", "c14-decode-alloc", map[string]any{"type": c.name, "mutation": kind}, fmt.Sprint((m1.TotalAlloc-m0.TotalAlloc)>>20, " MiB"))
				}
				o.Dist["hostile-"+kind]++
			}
		}
	}
	// decoding into a value that has been used before: the decoded value must be the encoded one in every respect --
	// re-encoding, and for chains also the (lazily cached) chain key and the bytes signed for a vote on it
	for _, c := range cs {
		if len(c.values) < 2 {
			continue
		}
		for vi := range c.values {
			a, b := c.values[vi], c.values[(vi+1)%len(c.values)]
			ba, err1 := enc(a)
			bb, err2 := enc(b)
			if err1 != nil || err2 != nil || bytes.Equal(ba, bb) {
				continue
			}
			x := c.fresh()
			if dec(x, ba) != nil {
				continue
			}
			if ch, ok := x.(*gpbft.ECChain); ok {
				_ = ch.Key() // the value is in use: its key has been computed
			}
			if err := dec(x, bb); err != nil {
				o.violate("every wire and storage type decodes to an equal value after encoding", "c14-redecode-error", map[string]any{"type": c.name, "value": vi}, err.Error())
				continue
			}
			if b2, err := enc(x); err != nil || !bytes.Equal(b2, bb) {
				o.violate("every wire and storage type decodes to an equal value after encoding", "c14-redecode-differs", map[string]any{"type": c.name, "value": vi}, "decoded into a used value")
			}
			if ch, ok := x.(*gpbft.ECChain); ok {
				want := b.(*gpbft.ECChain)
				if ch.Key() != want.Key() {
					o.violate("chain keys computed for a decoded chain agree with the directly computed key of the same tipsets", "c14-decoded-chain-stale-key",
						map[string]any{"type": c.name, "first": fmt.Sprint(a), "then": fmt.Sprint(b)},
						fmt.Sprintf("decoding chain B into a chain that held A (key computed): Key() = %x, Key(B) = %x, Key(A) = %x", ch.Key(), want.Key(), a.(*gpbft.ECChain).Key()))
				}
				p1 := gpbft.Payload{Instance: 1, Round: 2, Phase: gpbft.PREPARE_PHASE, SupplementalData: e.supp, Value: ch}
				p2 := gpbft.Payload{Instance: 1, Round: 2, Phase: gpbft.PREPARE_PHASE, SupplementalData: e.supp, Value: want}
				if !bytes.Equal(p1.MarshalForSigning(verifNet), p2.MarshalForSigning(verifNet)) {
					o.violate("the bytes signed for a vote bind the value chain", "c14-decoded-chain-signing-bytes",
						map[string]any{"type": c.name, "first": fmt.Sprint(a), "then": fmt.Sprint(b)}, "the payload over the decoded chain signs different bytes than the payload over an equal chain")
				}
			}
			o.count("codec-redecode", c.name+fmt.Sprint(vi), true)
		}
	}
	// the zstd wrapper: round trip, determinism, and the decompression bound
	cb := encoding.NewCBOR[*gpbft.PartialGMessage]()
	zs, err := encoding.NewZSTD[*gpbft.PartialGMessage]()
	must(err)
	for _, v := range pgm {
		pg := v.(*gpbft.PartialGMessage)
		for name, ed := range map[string]encoding.EncodeDecoder[*gpbft.PartialGMessage]{"cbor": cb, "zstd": zs} {
			b1, err := ed.Encode(pg)
			if err != nil {
				// messages beyond the 1 MiB bound are refused at encoding time: acceptable, must be an error not a panic
				o.Dist["encode-refused-"+name]++
				continue
			}
			var back gpbft.PartialGMessage
			if err := ed.Decode(b1, &back); err != nil {
				o.violate("wire types decode to an equal value after encoding, with and without compression", "c14-wrapper-roundtrip", map[string]any{"codec": name}, err.Error())
				continue
			}
			b2, _ := ed.Encode(&back)
			if !bytes.Equal(b1, b2) {
				o.violate("wire types decode to an equal value after encoding, with and without compression", "c14-wrapper-roundtrip-differs", map[string]any{"codec": name}, "")
			}
			o.count("wrapper-roundtrip", name, true)
		}
	}
	{
		var ms []*gpbft.PartialGMessage
		for _, v := range pgm {
			ms = append(ms, v.(*gpbft.PartialGMessage))
		}
		zstdInFlight(o, ms)
	}
	// well-formed zstd frames around truncated / empty / padded CBOR: the compressed decoder must give the verdict of
	// the plain decoder on the same content, whatever was decoded before (the scratch buffer is pooled)
	for _, v := range pgm {
		pg := v.(*gpbft.PartialGMessage)
		full, err := cb.Encode(pg)
		if err != nil || len(full) > 1<<19 {
			continue
		}
		var warm gpbft.PartialGMessage
		if fr, err := zs.Encode(pg); err == nil {
			_ = zs.Decode(fr, &warm) // leave this message in the pooled buffer
		}
		cuts := []int{0, 1, len(full) / 2, len(full) - 1}
		for k := 0; k < 6; k++ {
			cuts = append(cuts, r.intn(len(full)))
		}
		for _, cut := range cuts {
			content := full[:cut]
			var a, b gpbft.PartialGMessage
			e1 := cb.Decode(content, &a)
			e2 := zs.Decode(zstdFrame(content), &b)
			if (e1 == nil) != (e2 == nil) {
				o.violate("decoding truncated input returns an error (compressed and plain decoders agree on the same content)", "c14-zstd-truncated-verdict",
					map[string]any{"content_len": cut, "full_len": len(full)}, fmt.Sprintf("plain: %v, zstd: %v", e1, e2))
				break
			}
			o.Dist["zstd-truncated-content"]++
		}
	}
	// a zstd bomb: 64 MiB of zeros compresses to a few KiB; decoding must fail within the 1 MiB bound
	if zenc, ok := any(zs).(interface {
		Encode(*gpbft.PartialGMessage) ([]byte, error)
	}); ok {
		_ = zenc
	}
	bomb := zstdBomb()
	if bomb != nil {
		var m0, m1 runtime.MemStats
		runtime.ReadMemStats(&m0)
		var back gpbft.PartialGMessage
		err := zs.Decode(bomb, &back)
		runtime.ReadMemStats(&m1)
		if err == nil {
			o.violate("over-expanding compressed input is rejected", "c14-zstd-bomb-accepted", nil, "")
		}
		if m1.TotalAlloc-m0.TotalAlloc > 64<<20 {
			o.violate("decoding over-expanding input stays within the documented limit", "c14-zstd-bomb-alloc", nil, fmt.Sprint((m1.TotalAlloc-m0.TotalAlloc)>>20, " MiB"))
		}
		o.count("zstd-bomb", "1", true)
	}
}
