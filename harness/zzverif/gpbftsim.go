//go:build verif

package main

import (
	"fmt"
	"os"
	"strings"
	"time"

	"github.com/filecoin-project/go-bitfield"
	"github.com/filecoin-project/go-f3/gpbft"
	"github.com/filecoin-project/go-f3/pmsg"
)

func init() {
	for _, p := range []string{"C01", "C02"} {
		pid := p
		runners[pid] = func(o *out, r *rng, th bool, rp string) { runSpecSim(o, r, th, pid) }
	}
}

// forked input chains over a common base
func genInputs(r *rng, n int) []*gpbft.ECChain {
	base := mkTipset(0, "base")
	// a small tree: main line m1..m4, fork at 1 (f2..), fork at 2 (g3..)
	line := func(tag string, from, to int, prefix []*gpbft.TipSet) []*gpbft.TipSet {
		out := append([]*gpbft.TipSet{}, prefix...)
		for i := from; i <= to; i++ {
			out = append(out, mkTipset(int64(i), fmt.Sprintf("%s%d", tag, i)))
		}
		return out
	}
	main := line("m", 1, 4, []*gpbft.TipSet{base})
	var pool [][]*gpbft.TipSet
	for l := 1; l <= 5; l++ {
		pool = append(pool, main[:l])
	}
	pool = append(pool, line("f", 2, 3, main[:2]), line("g", 3, 4, main[:3]), line("h", 1, 2, main[:1]))
	ins := make([]*gpbft.ECChain, n)
	mode := r.intn(4)
	common := pool[r.intn(len(pool))]
	for i := range ins {
		ts := common
		switch mode {
		case 1:
			ts = pool[r.intn(len(pool))]
		case 2:
			if r.chance(30) {
				ts = pool[r.intn(len(pool))]
			}
		case 3:
			ts = pool[r.intn(5)] // prefixes of one line
		}
		ins[i] = &gpbft.ECChain{TipSets: ts}
	}
	return ins
}

type byzCtl struct {
	g    *gnet
	r    *rng
	byz  []*gnode
	alts []*gpbft.ECChain
}

// inject: a Byzantine node hands a message to a subset of the honest nodes
func (b *byzCtl) inject(from *gnode, mb *gpbft.MessageBuilder, toAll bool) {
	msg, err := mb.Build(b.g.ctx, b.g.backend, from.id)
	if err != nil {
		return
	}
	b.g.votes = append(b.g.votes, &sentVote{sender: from.idx, msg: msg, honest: false, seq: len(b.g.votes)})
	for _, to := range b.g.nodes {
		if !to.honest {
			continue
		}
		if !toAll && b.r.bool() {
			continue
		}
		b.g.pool = append(b.g.pool, &pendingMsg{to: to.idx, msg: msg, from: from.idx, ready: b.g.now})
	}
}

// observed justification for (round, phase[, bottom?]) from any message seen on the network
func (b *byzCtl) observedJust(round uint64, phase gpbft.Phase, value *gpbft.ECChain) *gpbft.Justification {
	for i := len(b.g.votes) - 1; i >= 0; i-- {
		j := b.g.votes[i].msg.Justification
		if j != nil && j.Vote.Round == round && j.Vote.Phase == phase && (value == nil || j.Vote.Value.Eq(value)) {
			return j
		}
	}
	return nil
}

func (b *byzCtl) act(g *gnet) {
	if len(b.byz) == 0 {
		return
	}
	from := b.byz[b.r.intn(len(b.byz))]
	cur := g.maxRound()
	round := cur
	if b.r.chance(30) && cur > 0 {
		round = cur - 1
	}
	if b.r.chance(10) {
		round = cur + 1
	}
	alt := b.alts[b.r.intn(len(b.alts))]
	mk := func(phase gpbft.Phase, rd uint64, v *gpbft.ECChain, j *gpbft.Justification, ticket bool) *gpbft.MessageBuilder {
		mb := &gpbft.MessageBuilder{NetworkName: verifNet, PowerTable: g.pt,
			Payload: gpbft.Payload{Instance: g.instance, Round: rd, Phase: phase, SupplementalData: g.supp, Value: v}, Justification: j}
		if ticket {
			mb.BeaconForTicket = []byte("beacon")
		}
		return mb
	}
	switch b.r.intn(10) {
	case 9: // an observed quorum justification re-used for ANOTHER value (DECIDE / COMMIT for a foreign chain): must never be admitted,
		// in whichever form the message travels and whatever was validated before
		if j := b.observedJust(round, gpbft.COMMIT_PHASE, nil); j != nil && !j.Vote.Value.IsZero() {
			b.inject(from, mk(gpbft.DECIDE_PHASE, 0, b.alts[len(b.alts)-2], j, false), true)
		}
		if j := b.observedJust(round, gpbft.PREPARE_PHASE, nil); j != nil && !j.Vote.Value.IsZero() {
			b.inject(from, mk(gpbft.COMMIT_PHASE, round, b.alts[len(b.alts)-2], j, false), true)
		}
	case 0: // equivocating QUALITY
		b.inject(from, mk(gpbft.QUALITY_PHASE, 0, alt, nil, false), false)
		b.inject(from, mk(gpbft.QUALITY_PHASE, 0, b.alts[b.r.intn(len(b.alts))], nil, false), false)
	case 1: // PREPARE round 0 split-brain
		b.inject(from, mk(gpbft.PREPARE_PHASE, 0, alt, nil, false), false)
		b.inject(from, mk(gpbft.PREPARE_PHASE, 0, b.alts[b.r.intn(len(b.alts))], nil, false), false)
	case 2: // COMMIT bottom (needs no justification)
		b.inject(from, mk(gpbft.COMMIT_PHASE, round, &gpbft.ECChain{}, nil, false), true)
	case 3: // COMMIT for a value with a recombined/observed PREPARE justification
		if j := b.observedJust(round, gpbft.PREPARE_PHASE, nil); j != nil {
			b.inject(from, mk(gpbft.COMMIT_PHASE, round, j.Vote.Value, j, false), b.r.bool())
			if b.r.bool() {
				b.inject(from, mk(gpbft.COMMIT_PHASE, round, &gpbft.ECChain{}, nil, false), false)
			}
		}
	case 4: // CONVERGE for a foreign / base chain justified by an observed COMMIT-bottom quorum of the previous round
		if round > 0 {
			if j := b.observedJust(round-1, gpbft.COMMIT_PHASE, &gpbft.ECChain{}); j != nil {
				v := alt
				if b.r.bool() {
					v = alt.BaseChain()
				}
				b.inject(from, mk(gpbft.CONVERGE_PHASE, round, v, j, true), true)
			}
			if j := b.observedJust(round-1, gpbft.PREPARE_PHASE, nil); j != nil {
				b.inject(from, mk(gpbft.CONVERGE_PHASE, round, j.Vote.Value, j, true), true)
			}
		}
	case 5: // PREPARE in a later round with observed justification (possibly for another value than the honest ones)
		if round > 0 {
			if j := b.observedJust(round-1, gpbft.COMMIT_PHASE, &gpbft.ECChain{}); j != nil {
				b.inject(from, mk(gpbft.PREPARE_PHASE, round, alt, j, false), false)
			}
			if j := b.observedJust(round-1, gpbft.PREPARE_PHASE, nil); j != nil {
				b.inject(from, mk(gpbft.PREPARE_PHASE, round, j.Vote.Value, j, false), false)
			}
		}
	case 6: // DECIDE injection with an observed COMMIT quorum (or without any)
		if j := b.observedJust(round, gpbft.COMMIT_PHASE, nil); j != nil && !j.Vote.Value.IsZero() {
			b.inject(from, mk(gpbft.DECIDE_PHASE, 0, j.Vote.Value, j, false), b.r.bool())
		} else {
			b.inject(from, mk(gpbft.DECIDE_PHASE, 0, alt, nil, false), true)
		}
	case 7: // replay of an old message to everybody
		if len(g.votes) > 0 {
			old := g.votes[b.r.intn(len(g.votes))]
			for _, to := range g.nodes {
				if to.honest {
					g.pool = append(g.pool, &pendingMsg{to: to.idx, msg: old.msg, from: old.sender, ready: g.now})
				}
			}
		}
	default: // mismatched justification (wrong round / value): must be rejected by validation
		if j := b.observedJust(round, gpbft.PREPARE_PHASE, nil); j != nil {
			b.inject(from, mk(gpbft.COMMIT_PHASE, round+1, j.Vote.Value, j, false), true)
			b.inject(from, mk(gpbft.COMMIT_PHASE, round, alt, j, false), true)
		}
	}
}

type simResult struct {
	g           *gnet
	decided     bool
	desc        map[string]any
	byzVotes    int
	roundAtStab uint64 // highest round of an honest participant when the network became timely
	deadlock    bool   // ended with undecided honest participants, nothing in flight and no alarm pending
	budget      bool   // step budget exhausted (inconclusive)
}

// one adversarial multi-node run of a single instance
func simScenario(r *rng, viol func(clause, sig, detail string), opts ...gpbft.Option) *simResult {
	n := 3 + r.intn(5)
	powers := make([]int64, n)
	switch r.intn(4) {
	case 0:
		for i := range powers {
			powers[i] = 10
		}
	case 1:
		for i := range powers {
			powers[i] = int64(1 + r.intn(30))
		}
	case 2:
		for i := range powers {
			powers[i] = int64(1 + r.intn(5))
		}
		powers[0] = 40
	default:
		for i := range powers {
			powers[i] = int64(1 << uint(r.intn(12)))
		}
	}
	var total int64
	for _, p := range powers {
		total += p
	}
	// Byzantine set with strictly less than one third of the (scaled) power: be conservative on unscaled power
	byz := make([]bool, n)
	var bp int64
	if r.chance(75) {
		for _, i := range shuffled(r, n) {
			if 3*(bp+powers[i]) < total-3*int64(n) && r.chance(60) {
				byz[i] = true
				bp += powers[i]
			}
		}
	}
	inputs := genInputs(r, n)
	cfg := gnetCfg{n: n, powers: powers, byz: byz, inputs: inputs, delta: 2 * time.Second, opts: opts}
	switch r.intn(3) {
	case 1:
		cfg.maxDelay = 7 * time.Second
	case 2:
		cfg.maxDelay = 40 * time.Second
		cfg.dropP = 30
	}
	g := newGnet(r, cfg, viol)
	g.twoStage = r.chance(35) // messages travel in partial form (partial validation, later completion, full validation)
	// scaled-power check of the Byzantine budget
	var sb int64
	for i, nd := range g.nodes {
		if byz[i] {
			sp, _ := g.pt.Get(nd.id)
			sb += sp
		}
	}
	if 3*sb >= g.pt.ScaledTotal {
		for i := range g.nodes {
			g.nodes[i].honest = true
			byz[i] = false
		}
	}
	ctl := &byzCtl{g: g, r: r}
	for _, nd := range g.nodes {
		if !nd.honest {
			ctl.byz = append(ctl.byz, nd)
		}
	}
	ctl.alts = append(ctl.alts, inputs...)
	ctl.alts = append(ctl.alts, &gpbft.ECChain{TipSets: []*gpbft.TipSet{g.base, mkTipset(1, "byz1")}}, &gpbft.ECChain{TipSets: []*gpbft.TipSet{g.base}})
	// staggered starts
	for i := range g.nodes {
		if r.chance(80) {
			g.start(i)
		}
	}
	steps := 400 + r.intn(1200)
	g.run(steps, ctl.act)
	for i := range g.nodes {
		g.start(i)
	}
	// stabilise: timely delivery, silent adversary, until everyone decides
	g.stabilised = true
	roundAtStab := g.maxRound()
	decided := g.run(60000, nil)
	g.checkDecisions()
	bv := 0
	for _, v := range g.votes {
		if !v.honest {
			bv++
		}
	}
	dl := false
	for _, l := range g.log {
		if strings.HasPrefix(l, "deadlock") {
			dl = true
		}
	}
	return &simResult{g: g, decided: decided, byzVotes: bv, roundAtStab: roundAtStab, deadlock: dl && !decided, budget: !decided && !dl,
		desc: map[string]any{"nodes": n, "powers": powers, "byzantine": byz, "max_delay": cfg.maxDelay.String(), "votes": len(g.votes), "byz_votes": bv, "max_round": g.maxRound(), "all_decided": decided}}
}

// split-brain attempt at the quorum boundary: two honest participants with different inputs that cannot hear each
// other before stabilisation, and a Byzantine member just under one third that mirrors every vote of an honest
// participant back to that participant only (same payload, its own signature, the same justification).  The scaled
// total is not a multiple of three and honest + Byzantine power is exactly floor(2*total/3): one unit short of a strong quorum.
func splitBrainScenario(r *rng, viol func(clause, sig, detail string)) *simResult {
	total := int64(65534)
	if r.bool() {
		total = 65533
	}
	x := (total + 2) / 3 // ceil(total/3)
	powers := []int64{x, x, total - 2*x}
	perm := shuffled(r, 3)
	pw := make([]int64, 3)
	byz := make([]bool, 3)
	for i, p := range perm {
		pw[i] = powers[p]
		byz[i] = p == 2
	}
	base := mkTipset(0, "base")
	mk := func(tag string, n int) *gpbft.ECChain {
		ts := []*gpbft.TipSet{base}
		for i := 1; i <= n; i++ {
			ts = append(ts, mkTipset(int64(i), fmt.Sprintf("%s%d", tag, i)))
		}
		return &gpbft.ECChain{TipSets: ts}
	}
	inputs := []*gpbft.ECChain{mk("x", 1+r.intn(2)), mk("y", 1+r.intn(2)), mk("z", 1)}
	cfg := gnetCfg{n: 3, powers: pw, byz: byz, inputs: inputs, delta: 2 * time.Second}
	g := newGnet(r, cfg, viol)
	g.partition = true
	var bz *gnode
	for _, nd := range g.nodes {
		if !nd.honest {
			bz = nd
		}
	}
	bv := 0
	g.onSend = func(from int, msg *gpbft.GMessage) {
		mb := &gpbft.MessageBuilder{NetworkName: verifNet, PowerTable: g.pt, Payload: msg.Vote, Justification: msg.Justification}
		if msg.Vote.Phase == gpbft.CONVERGE_PHASE {
			mb.BeaconForTicket = []byte("beacon")
		}
		m2, err := mb.Build(g.ctx, g.backend, bz.id)
		if err != nil {
			return
		}
		bv++
		g.votes = append(g.votes, &sentVote{sender: bz.idx, msg: m2, honest: false, seq: len(g.votes)})
		g.pool = append(g.pool, &pendingMsg{to: from, msg: m2, from: bz.idx, ready: g.now})
	}
	for i := range g.nodes {
		g.start(i)
	}
	g.run(300+r.intn(600), nil)
	g.stabilised = true
	roundAtStab := g.maxRound()
	decided := g.run(60000, nil)
	g.checkDecisions()
	dl := false
	for _, l := range g.log {
		if strings.HasPrefix(l, "deadlock") {
			dl = true
		}
	}
	return &simResult{g: g, decided: decided, byzVotes: bv, roundAtStab: roundAtStab, deadlock: dl && !decided, budget: !decided && !dl,
		desc: map[string]any{"scenario": "split-brain at the quorum boundary", "nodes": 3, "powers": pw, "byzantine": byz, "votes": len(g.votes), "byz_votes": bv, "max_round": g.maxRound(), "all_decided": decided}}
}

// replayed signatures: the faulty participant holds < 1/3 of the power and signs only with its own key, but it re-uses
// SIGNATURES IT HAS OBSERVED: once every participant has validated the genuine QUALITY message of every honest sender, it
// hands each honest target messages naming an honest participant as sender and carrying that participant's observed
// signature (and ticket) over a DIFFERENT vote -- DECIDE / COMMIT / PREPARE for a fork chosen per target, with bogus or
// observed justifications.  Honest signatures cannot be forged, so every one of these must be rejected; if any layer that
// remembers validated messages identifies a message by less than its full content, targets decide different forks.
func signatureReplayScenario(r *rng, viol func(clause, sig, detail string)) *simResult {
	n := 4 + r.intn(2)
	pw := make([]int64, n)
	byz := make([]bool, n)
	for i := range pw {
		pw[i] = int64(10 + r.intn(5))
	}
	bi := r.intn(n)
	byz[bi] = true
	pw[bi] = 5 // strictly less than a third of the total
	base := mkTipset(0, "base")
	mk := func(tag string, k int) *gpbft.ECChain {
		ts := []*gpbft.TipSet{base}
		for i := 1; i <= k; i++ {
			ts = append(ts, mkTipset(int64(i), fmt.Sprintf("%s%d", tag, i)))
		}
		return &gpbft.ECChain{TipSets: ts}
	}
	common := mk("c", 1+r.intn(2))
	inputs := make([]*gpbft.ECChain, n)
	for i := range inputs {
		inputs[i] = common
	}
	cfg := gnetCfg{n: n, powers: pw, byz: byz, inputs: inputs, delta: 2 * time.Second}
	g := newGnet(r, cfg, viol)
	// COMMIT and DECIDE traffic between honest participants is slow at first, so that nobody has decided when the
	// forgeries arrive; QUALITY and PREPARE flow normally (every target validates a genuine message of every sender)
	g.slow = func(from, to int, msg *gpbft.GMessage) bool {
		return msg.Vote.Phase == gpbft.COMMIT_PHASE || msg.Vote.Phase == gpbft.DECIDE_PHASE
	}
	for i := range g.nodes {
		g.start(i)
	}
	g.run(40*n, nil)
	// observed signatures of honest senders
	type obs struct{ sig, ticket []byte }
	seen := map[gpbft.ActorID][]obs{}
	for _, v := range g.votes {
		if v.honest {
			seen[v.msg.Sender] = append(seen[v.msg.Sender], obs{v.msg.Signature, v.msg.Ticket})
		}
	}
	bv := 0
	signers := make([]uint64, 0, n)
	for i := 0; i < n; i++ {
		signers = append(signers, uint64(i))
	}
	for _, target := range g.nodes {
		if !target.honest {
			continue
		}
		fork := mk(fmt.Sprintf("fork%d-", target.idx), 1+r.intn(2))
		for _, ph := range []gpbft.Phase{gpbft.DECIDE_PHASE, gpbft.COMMIT_PHASE, gpbft.PREPARE_PHASE} {
			for _, sender := range g.nodes {
				if !sender.honest || sender.idx == target.idx || len(seen[sender.id]) == 0 {
					continue
				}
				ob := seen[sender.id][r.intn(len(seen[sender.id]))]
				m := &gpbft.GMessage{Sender: sender.id,
					Vote:      gpbft.Payload{Instance: g.instance, Round: 0, Phase: ph, SupplementalData: g.supp, Value: fork},
					Signature: ob.sig, Ticket: ob.ticket}
				switch ph {
				case gpbft.DECIDE_PHASE:
					m.Justification = &gpbft.Justification{Vote: gpbft.Payload{Instance: g.instance, Round: 0, Phase: gpbft.COMMIT_PHASE, SupplementalData: g.supp, Value: fork},
						Signers: bitfield.NewFromSet(signers), Signature: []byte("not an aggregate signature")}
				case gpbft.COMMIT_PHASE:
					m.Justification = &gpbft.Justification{Vote: gpbft.Payload{Instance: g.instance, Round: 0, Phase: gpbft.PREPARE_PHASE, SupplementalData: g.supp, Value: fork},
						Signers: bitfield.NewFromSet(signers), Signature: []byte("not an aggregate signature")}
				}
				bv++
				g.pool = append(g.pool, &pendingMsg{to: target.idx, msg: m, from: bi, ready: g.now})
			}
		}
	}
	g.run(200*n, nil)
	g.stabilised = true
	roundAtStab := g.maxRound()
	decided := g.run(60000, nil)
	g.checkDecisions()
	for _, nd := range g.nodes {
		if nd.honest && nd.decided != nil && !nd.decided.Vote.Value.Eq(common) {
			viol("every decided value is a prefix of the chain proposed by at least one honest participant", "c02-decided-foreign-value",
				fmt.Sprintf("participant %d decided %s, no honest participant proposed it (all proposed %s)", nd.idx, nd.decided.Vote.Value, common))
		}
	}
	return &simResult{g: g, decided: decided, byzVotes: bv, roundAtStab: roundAtStab,
		desc: map[string]any{"scenario": "replayed honest signatures on forged votes", "nodes": n, "powers": pw, "byzantine": byz, "forged_messages": bv, "max_round": g.maxRound(), "all_decided": decided}}
}

// late starter with queued messages: one honest participant starts the instance LATE; everything sent to it before is
// queued by the participant and delivered when it starts.  Among the queued messages is a validly signed QUALITY vote of a
// faulty member (< 1/3 power) for a chain on a FOREIGN base -- it passes stateless validation and is dropped when the
// instance begins (the base is only known then).  The other honest participants have decided by then and fall silent
// except for their queued DECIDE votes; the latecomer must still decide (from the queue, without waiting for anybody).
func lateStarterScenario(r *rng, viol func(clause, sig, detail string)) *simResult {
	n := 4 + r.intn(2)
	pw := make([]int64, n)
	byz := make([]bool, n)
	for i := range pw {
		pw[i] = int64(10 + r.intn(5))
	}
	bi := r.intn(n)
	byz[bi] = true
	pw[bi] = 3
	late := (bi + 1 + r.intn(n-1)) % n
	base := mkTipset(0, "base")
	mk := func(b *gpbft.TipSet, tag string, k int) *gpbft.ECChain {
		ts := []*gpbft.TipSet{b}
		for i := 1; i <= k; i++ {
			ts = append(ts, mkTipset(int64(i), fmt.Sprintf("%s%d", tag, i)))
		}
		return &gpbft.ECChain{TipSets: ts}
	}
	common := mk(base, "c", 1+r.intn(2))
	inputs := make([]*gpbft.ECChain, n)
	for i := range inputs {
		inputs[i] = common
	}
	cfg := gnetCfg{n: n, powers: pw, byz: byz, inputs: inputs, delta: 2 * time.Second}
	g := newGnet(r, cfg, viol)
	g.stabilised = true // the network is timely throughout; only the start of one participant is late
	// the faulty member's votes on a foreign base, handed to the latecomer only (before it starts)
	foreign := mk(mkTipset(0, "another-base"), "f", 1)
	bv := 0
	for _, ph := range []gpbft.Phase{gpbft.QUALITY_PHASE, gpbft.PREPARE_PHASE} {
		mb := &gpbft.MessageBuilder{NetworkName: verifNet, PowerTable: g.pt,
			Payload: gpbft.Payload{Instance: g.instance, Round: 0, Phase: ph, SupplementalData: g.supp, Value: foreign}}
		if msg, err := mb.Build(g.ctx, g.backend, g.nodes[bi].id); err == nil {
			g.votes = append(g.votes, &sentVote{sender: bi, msg: msg, honest: false, seq: len(g.votes)})
			g.pool = append(g.pool, &pendingMsg{to: late, msg: msg, from: bi, ready: g.now})
			bv++
		}
	}
	for i := range g.nodes {
		if i != late {
			g.start(i)
		}
	}
	g.run(20000, nil) // the others decide; everything addressed to the latecomer has been handed to its participant
	g.start(late)
	roundAtStab := g.maxRound()
	decided := g.run(60000, nil)
	g.checkDecisions()
	dl := false
	for _, l := range g.log {
		if strings.HasPrefix(l, "deadlock") {
			dl = true
		}
	}
	ln := g.nodes[late]
	if ln.decided == nil {
		viol("every honest participant that has started the instance decides once the network is timely (messages that arrived before it started are delivered when it starts)",
			"c06-late-starter-undecided", fmt.Sprintf("participant %d started last with the votes of all others queued (and one undeliverable vote of a faulty member in front); it is in %+v, undecided", late, ln.p.Progress().Instant))
	}
	return &simResult{g: g, decided: decided, byzVotes: bv, roundAtStab: roundAtStab, deadlock: dl && !decided, budget: !decided && !dl,
		desc: map[string]any{"scenario": "late starter with queued messages", "nodes": n, "powers": pw, "byzantine": byz, "late": late, "votes": len(g.votes), "max_round": g.maxRound(), "all_decided": decided}}
}

// late starter after a MULTI-ROUND history: four of five equal members go through several rounds without the fifth (their
// PREPAREs are split 2-2 for a while, as in splitRoundsScenario), then decide; everything they sent has been handed to the
// fifth participant before it starts (its queue holds QUALITY, several rounds of CONVERGE/PREPARE/COMMIT and the DECIDE of
// every peer).  The peers have terminated and will not send again: once started, the latecomer must decide from what it
// was given -- no message was lost and the network is timely.
func lateStarterRoundsScenario(r *rng, viol func(clause, sig, detail string)) *simResult {
	n := 5
	powers := []int64{10, 10, 10, 10, 10}
	in := mkChain("lr", 1+r.intn(3))
	inputs := []*gpbft.ECChain{in, in, in, in, in}
	delta := time.Duration(1+r.intn(2)) * time.Second
	cfg := gnetCfg{n: n, powers: powers, byz: make([]bool, n), inputs: inputs, delta: delta}
	g := newGnet(r, cfg, viol)
	perm := shuffled(r, n)
	late := perm[4]
	half := map[int]bool{perm[0]: true, perm[1]: true}
	g.slow = func(from, to int, msg *gpbft.GMessage) bool {
		if to == late {
			return false
		}
		switch msg.Vote.Phase {
		case gpbft.QUALITY_PHASE:
			return half[to]
		case gpbft.CONVERGE_PHASE:
			return half[from] != half[to]
		}
		return false
	}
	for i := range g.nodes {
		if i != late {
			g.start(i)
		}
	}
	target := uint64(2 + r.intn(2))
	for k := 0; k < 4000; k++ {
		g.run(10, nil)
		all := true
		for i, nd := range g.nodes {
			if i != late && (nd.decided != nil || nd.p.Progress().Round < target) {
				all = false
			}
		}
		if all {
			break
		}
	}
	for _, pm := range g.pool {
		if pm.ready.After(g.now) {
			pm.ready = g.now
		}
	}
	g.slow = nil
	g.stabilised = true
	g.run(60000, nil) // the four decide; everything addressed to the latecomer is in its participant's queue
	others := true
	for i, nd := range g.nodes {
		if i != late && nd.decided == nil {
			others = false
		}
	}
	roundAtStab := g.maxRound()
	g.start(late)
	decided := g.run(60000, nil)
	g.checkDecisions()
	dl := false
	for _, l := range g.log {
		if strings.HasPrefix(l, "deadlock") {
			dl = true
		}
	}
	ln := g.nodes[late]
	if others && ln.decided == nil {
		viol("every honest participant that has started the instance decides once the network is timely (messages that arrived before it started are delivered when it starts)",
			"c06-late-starter-undecided", fmt.Sprintf("participant %d started after the four others had decided in round %d, with everything they sent queued; it is in %+v, undecided", late, roundAtStab, ln.p.Progress().Instant))
	}
	return &simResult{g: g, decided: decided, byzVotes: 0, roundAtStab: roundAtStab, deadlock: dl && !decided, budget: !decided && !dl,
		desc: map[string]any{"scenario": "late starter after a multi-round history of its peers (all of it queued before the start)", "nodes": n, "late": late, "target_round": target,
			"others_decided": others, "votes": len(g.votes), "max_round": g.maxRound(), "all_decided": decided}}
}

// quorum justification re-used for another value on the partial-message path: three honest members (75 %) propose V; the
// third one lags (the COMMITs and DECIDEs addressed to it are slow).  The DECIDE(V) of its peers reaches it in partial form
// while the chain is "not yet known" to it: validated against the announced key, not delivered.  The Byzantine member (25 %)
// then sends DECIDE(X) for a foreign chain X carrying the very same COMMIT-quorum justification.  Whatever was validated
// before, the laggard must not take X: no honest participant ever votes for a chain that no honest participant proposed.
func justificationReuseScenario(r *rng, viol func(clause, sig, detail string)) *simResult {
	n := 4
	powers := []int64{25, 25, 25, 25}
	byz := []bool{false, false, false, true}
	base := mkTipset(0, "base")
	v := &gpbft.ECChain{TipSets: []*gpbft.TipSet{base, mkTipset(1, "V1")}}
	x := &gpbft.ECChain{TipSets: []*gpbft.TipSet{base, mkTipset(1, "X1")}}
	inputs := []*gpbft.ECChain{v, v, v, v}
	cfg := gnetCfg{n: n, powers: powers, byz: byz, inputs: inputs, delta: 2 * time.Second}
	g := newGnet(r, cfg, viol)
	g.twoStage = true
	g.primed = map[string]bool{}
	lag := 2
	g.delay = func(from, to int, msg *gpbft.GMessage) (time.Duration, bool) {
		if to == lag && from != lag && (msg.Vote.Phase == gpbft.COMMIT_PHASE || msg.Vote.Phase == gpbft.DECIDE_PHASE) {
			return 1000000 * time.Second, true
		}
		return 0, false
	}
	for i := 0; i < 3; i++ {
		g.start(i)
	}
	for k := 0; k < 3000; k++ {
		g.run(10, nil)
		if g.nodes[0].decided != nil && g.nodes[1].decided != nil {
			break
		}
	}
	bv := 0
	var genuine *gpbft.GMessage
	for _, sv := range g.votes {
		if sv.honest && sv.msg.Vote.Phase == gpbft.DECIDE_PHASE && sv.msg.Justification != nil {
			genuine = sv.msg
			break
		}
	}
	if genuine != nil && g.nodes[lag].decided == nil {
		// the genuine DECIDE(V) messages reach the laggard in partial form; their chain is "not known yet"
		for _, sv := range g.votes {
			if sv.honest && sv.msg.Vote.Phase == gpbft.DECIDE_PHASE && sv.sender != lag {
				if pg, err := pmsg.VerifStrip(cloneMsg(sv.msg)); err == nil {
					_, _ = g.nodes[lag].p.PartiallyValidateMessage(g.ctx, pg)
				}
			}
		}
		// the same justification on a DECIDE for the foreign chain, validly signed by the Byzantine member
		mb := &gpbft.MessageBuilder{NetworkName: verifNet, PowerTable: g.pt,
			Payload: gpbft.Payload{Instance: g.instance, Round: 0, Phase: gpbft.DECIDE_PHASE, SupplementalData: g.supp, Value: x}, Justification: genuine.Justification}
		if msg, err := mb.Build(g.ctx, g.backend, g.nodes[3].id); err == nil {
			g.votes = append(g.votes, &sentVote{sender: 3, msg: msg, honest: false, seq: len(g.votes)})
			for _, to := range []int{lag, 0, 1} {
				g.pool = append(g.pool, &pendingMsg{to: to, msg: msg, from: 3, ready: g.now})
				g.primed[fmt.Sprintf("%d/%p", to, msg)] = true
			}
			bv++
		}
		g.stopAt = g.now.Add(3 * time.Second)
		g.run(2000, nil)
		g.stopAt = time.Time{}
	}
	for _, pm := range g.pool {
		if pm.ready.After(g.now) {
			pm.ready = g.now
		}
	}
	g.delay = nil
	g.stabilised = true
	decided := g.run(60000, nil)
	g.checkDecisions()
	return &simResult{g: g, decided: decided, byzVotes: bv, roundAtStab: g.maxRound(),
		desc: map[string]any{"scenario": "a COMMIT-quorum justification for V re-used on a DECIDE for a foreign chain, after the genuine DECIDE(V) was validated in partial form by the laggard", "laggard": lag,
			"genuine_found": genuine != nil, "votes": len(g.votes), "max_round": g.maxRound(), "all_decided": decided}}
}

// failed decision hand-over: the host of one honest participant P fails to accept P's decision (a storage error), while a
// Byzantine member B (30 % < 1/3) keeps two partitions apart and behaves "honestly" in both of them -- two validly signed,
// mutually conflicting sets of votes.  Partition 1 = {P, B, three honest members} decides value A (70 %).  Partition 2 =
// {B, three other honest members whose EC view ends at the base} holds 60 %: without a SECOND set of votes from P it can
// decide nothing, and once the delayed messages arrive it learns A.  No message between honest participants is lost;
// every reported decision (accepted by the host or not) must be the same chain.
func decisionFaultScenario(r *rng, viol func(clause, sig, detail string)) *simResult {
	n := 8
	powers := []int64{10, 30, 10, 10, 10, 10, 10, 10}
	base := mkTipset(0, "base")
	a := &gpbft.ECChain{TipSets: []*gpbft.TipSet{base, mkTipset(1, "A1")}}
	b0 := &gpbft.ECChain{TipSets: []*gpbft.TipSet{base}}
	inputs := []*gpbft.ECChain{a, a, a, a, a, b0, b0, b0}
	delta := time.Duration(1+r.intn(2)) * time.Second
	cfg := gnetCfg{n: n, powers: powers, byz: make([]bool, n), inputs: inputs, delta: delta}
	g := newGnet(r, cfg, viol)
	b2 := g.addShadow(1, b0)
	phase2 := false
	world := func(i int) int {
		switch {
		case i == 0:
			if phase2 {
				return 2
			}
			return 1
		case i >= 1 && i <= 4:
			return 1
		default:
			return 2
		}
	}
	g.delay = func(from, to int, _ *gpbft.GMessage) (time.Duration, bool) {
		if world(from) != world(to) {
			return 1000000 * time.Second, true // held back by the adversary; released below
		}
		return 0, false
	}
	p := g.nodes[0]
	p.failDecision = 1
	for _, i := range []int{0, 1, 2, 3, 4} {
		g.start(i)
	}
	for k := 0; k < 3000; k++ {
		g.run(10, nil)
		done := len(p.reported) > 0
		for _, i := range []int{1, 2, 3, 4} {
			if g.nodes[i].decided == nil {
				done = false
			}
		}
		if done {
			break
		}
	}
	first := len(p.reported) > 0
	// second partition: the other three honest members and the Byzantine member's second personality start now
	phase2 = true
	for _, i := range []int{5, 6, 7, b2} {
		g.start(i)
	}
	g.stopAt = g.now.Add(120 * time.Second)
	g.run(40000, nil)
	g.stopAt = time.Time{}
	// the adversary lets go: everything held back is delivered
	for _, pm := range g.pool {
		if pm.ready.After(g.now) {
			pm.ready = g.now
		}
	}
	g.delay = nil
	g.stabilised = true
	g.run(60000, nil)
	g.nodes[1].honest = false
	g.nodes[b2].honest = false
	g.checkDecisions()
	var rep []string
	for _, nd := range g.nodes {
		for _, d := range nd.reported {
			rep = append(rep, fmt.Sprintf("node%d:%s", nd.idx, d.Vote.Value))
		}
	}
	return &simResult{g: g, decided: true, byzVotes: 1, roundAtStab: g.maxRound(),
		desc: map[string]any{"scenario": "failed decision hand-over at one honest participant + a Byzantine member (30 %) voting in two partitions", "first_partition_decided": first,
			"reported": rep, "votes": len(g.votes), "max_round": g.maxRound()}}
}

// byte-scale storage powers (hundreds to thousands of TiB, as on mainnet): the 16-bit scaled powers that every quorum tally
// uses are derived from them; no Byzantine member, honest inputs fork, random delays, then a timely phase.  Agreement and
// the sanity of the scaled table (0 <= scaled power, sum <= 0xffff, order preserved) are monitored.
func largePowerScenario(r *rng, viol func(clause, sig, detail string)) *simResult {
	n := 3 + r.intn(3)
	powers := make([]int64, n)
	for i := range powers {
		powers[i] = int64(100+r.intn(4000)) << 40 // TiB in bytes
	}
	inputs := genInputs(r, n)
	cfg := gnetCfg{n: n, powers: powers, byz: make([]bool, n), inputs: inputs, delta: 2 * time.Second}
	if r.bool() {
		cfg.maxDelay = 7 * time.Second
	}
	g := newGnet(r, cfg, viol)
	var sum int64
	for i, sp := range g.pt.ScaledPower {
		sum += sp
		if sp < 0 || sp > 0xffff {
			viol("quorum tallies use scaled powers in [0, 0xffff]", "c01-scaled-power-out-of-range", fmt.Sprintf("entry %d: raw %s scaled %d", i, g.pt.Entries[i].Power, sp))
		}
		if i > 0 && g.pt.Entries[i-1].Power.Int.Cmp(g.pt.Entries[i].Power.Int) > 0 && g.pt.ScaledPower[i-1] < sp {
			viol("scaling preserves the order of the powers", "c01-scaled-power-order", fmt.Sprintf("entries %d,%d: raw %s > %s but scaled %d < %d", i-1, i, g.pt.Entries[i-1].Power, g.pt.Entries[i].Power, g.pt.ScaledPower[i-1], sp))
		}
	}
	if sum != g.pt.ScaledTotal || sum > 0xffff || sum <= 0 {
		viol("the scaled total is the sum of the scaled powers and at most 0xffff", "c01-scaled-total", fmt.Sprintf("sum %d total %d", sum, g.pt.ScaledTotal))
	}
	for i := range g.nodes {
		g.start(i)
	}
	g.run(300+r.intn(600), nil)
	g.stabilised = true
	roundAtStab := g.maxRound()
	decided := g.run(60000, nil)
	g.checkDecisions()
	return &simResult{g: g, decided: decided, byzVotes: 0, roundAtStab: roundAtStab, budget: !decided,
		desc: map[string]any{"scenario": "byte-scale storage powers", "nodes": n, "powers": powers, "scaled": g.pt.ScaledPower, "votes": len(g.votes), "max_round": g.maxRound(), "all_decided": decided}}
}

// network-trace scenario: every honest member begins the instance at time 0 (so that nothing is queued inside a participant
// before its instance exists), then an adversarial prefix (random delays, Byzantine traffic), then a timely phase.  The whole
// execution is recorded as a schedule of the Layer-N network model (RefineNet): starts, deliveries of the messages the real
// validator let through, alarms, Byzantine votes.
func netTraceScenario(r *rng, viol func(clause, sig, detail string)) *simResult {
	n := 3 + r.intn(3)
	powers := make([]int64, n)
	for i := range powers {
		powers[i] = int64(5 + r.intn(20))
	}
	var total int64
	for _, p := range powers {
		total += p
	}
	byz := make([]bool, n)
	if r.chance(70) {
		i := r.intn(n)
		if 3*powers[i] < total-3*int64(n) {
			byz[i] = true
		}
	}
	inputs := genInputs(r, n)
	cfg := gnetCfg{n: n, powers: powers, byz: byz, inputs: inputs, delta: 2 * time.Second}
	if r.chance(50) {
		cfg.maxDelay = 7 * time.Second
	}
	g := newGnet(r, cfg, viol)
	var sb int64
	for i, nd := range g.nodes {
		if byz[i] {
			sp, _ := g.pt.Get(nd.id)
			sb += sp
		}
	}
	if 3*sb >= g.pt.ScaledTotal {
		for i := range g.nodes {
			g.nodes[i].honest = true
			byz[i] = false
		}
	}
	g.rec = true
	// make the tokens of the common chains stable
	for _, in := range inputs {
		g.nct.raw(in)
	}
	ctl := &byzCtl{g: g, r: r}
	for _, nd := range g.nodes {
		if !nd.honest {
			ctl.byz = append(ctl.byz, nd)
		}
	}
	ctl.alts = append(ctl.alts, inputs...)
	ctl.alts = append(ctl.alts, &gpbft.ECChain{TipSets: []*gpbft.TipSet{g.base, mkTipset(1, "byz1")}}, &gpbft.ECChain{TipSets: []*gpbft.TipSet{g.base}})
	for i, nd := range g.nodes {
		if nd.honest {
			g.start(i)
			g.fireAlarm(nd) // the start alarm: the instance begins
		}
	}
	g.run(150+r.intn(400), ctl.act)
	g.stabilised = true
	roundAtStab := g.maxRound()
	decided := g.run(2500, nil)
	g.checkDecisions()
	bv := 0
	for _, v := range g.votes {
		if !v.honest {
			bv++
		}
	}
	return &simResult{g: g, decided: decided, byzVotes: bv, roundAtStab: roundAtStab,
		desc: map[string]any{"scenario": "network trace for the Layer-N network model", "nodes": n, "powers": powers, "byzantine": byz, "max_delay": cfg.maxDelay.String(), "votes": len(g.votes), "byz_votes": bv,
			"actions": len(g.acts), "max_round": g.maxRound(), "all_decided": decided}}
}

// split-rounds scenario (no Byzantine message, nothing lost): four equal participants with the same input; before
// stabilisation the QUALITY votes addressed to one half and the CONVERGE messages between the halves are held back, so
// PREPAREs split 2-2 and every round ends in COMMIT bottom; when all four have reached round 4 (> the round after which
// rebroadcast is scheduled ahead of the phase timeout) the held messages are released and the network is timely.  Every
// participant must still hold an alarm for its phase timeout and decide within the bound.
func splitRoundsScenario(r *rng, viol func(clause, sig, detail string)) *simResult {
	n := 4
	powers := []int64{10, 10, 10, 10}
	in := mkChain("sr", 1+r.intn(3))
	inputs := []*gpbft.ECChain{in, in, in, in}
	delta := time.Duration(1+r.intn(3)) * time.Second
	cfg := gnetCfg{n: n, powers: powers, byz: make([]bool, n), inputs: inputs, delta: delta}
	g := newGnet(r, cfg, viol)
	perm := shuffled(r, n)
	half := map[int]bool{perm[0]: true, perm[1]: true} // the half that does not hear the QUALITY votes in time
	g.slow = func(from, to int, msg *gpbft.GMessage) bool {
		switch msg.Vote.Phase {
		case gpbft.QUALITY_PHASE:
			return half[to]
		case gpbft.CONVERGE_PHASE:
			return half[from] != half[to]
		}
		return false
	}
	for i := range g.nodes {
		g.start(i)
	}
	target := uint64(4 + r.intn(2))
	for k := 0; k < 4000; k++ {
		g.run(10, nil)
		all := true
		for _, nd := range g.nodes {
			if nd.decided != nil || nd.p.Progress().Round < target {
				all = false
			}
		}
		if all || g.allDecided() {
			break
		}
	}
	// release what was held back
	for _, pm := range g.pool {
		if pm.ready.After(g.now) {
			pm.ready = g.now
		}
	}
	g.slow = nil
	g.stabilised = true
	roundAtStab := g.maxRound()
	decided := g.run(60000, nil)
	g.checkDecisions()
	dl := false
	for _, l := range g.log {
		if strings.HasPrefix(l, "deadlock") {
			dl = true
		}
	}
	return &simResult{g: g, decided: decided, byzVotes: 0, roundAtStab: roundAtStab, deadlock: dl && !decided, budget: !decided && !dl,
		desc: map[string]any{"scenario": "PREPAREs split 2-2 for several rounds (QUALITY to one half and CONVERGE between the halves held back), released when all are in round >= 4; no Byzantine message", "nodes": n, "delta": delta.String(),
			"target_round": target, "input_len": in.Len(), "votes": len(g.votes), "byz_votes": 0, "max_round": g.maxRound(), "all_decided": decided}}
}

// late-QUALITY scenario (no Byzantine message at all): one member is crash-silent, so EVERY remaining member is needed for a
// strong quorum; the QUALITY votes addressed to the smallest member arrive just after its QUALITY timeout (it has trimmed
// its proposal to the base by then); nothing is lost and the network is timely from then on.  The late QUALITY quorum
// must make the common input acceptable to that member, or the honest PREPAREs stay split round after round.
func lateQualityScenario(r *rng, viol func(clause, sig, detail string)) *simResult {
	big := []int64{333, 1000, 50, 7}[r.intn(4)]
	pw := []int64{big, big, 1, big}
	byz := []bool{false, false, false, true} // crash-silent: never sends anything
	perm := shuffled(r, 4)
	powers := make([]int64, 4)
	bz := make([]bool, 4)
	victim := 0
	for i, p := range perm {
		powers[i] = pw[p]
		bz[i] = byz[p]
		if p == 2 {
			victim = i
		}
	}
	in := mkChain("lq", 1+r.intn(3))
	inputs := []*gpbft.ECChain{in, in, in, in}
	delta := 2 * time.Second
	cfg := gnetCfg{n: 4, powers: powers, byz: bz, inputs: inputs, delta: delta}
	g := newGnet(r, cfg, viol)
	// QUALITY timeout is 2*delta; the late votes arrive 5%..50% after it
	late := 2*delta + time.Duration(int64(delta)/10+r.i64n(int64(delta)))
	onlyOne := r.chance(30)
	first := -1
	g.delay = func(from, to int, msg *gpbft.GMessage) (time.Duration, bool) {
		if to == victim && msg.Vote.Phase == gpbft.QUALITY_PHASE {
			if first < 0 {
				first = from
			}
			if !onlyOne || from == first {
				return late, true
			}
		}
		return time.Duration(r.i64n(int64(delta)/4 + 1)), true
	}
	for i := range g.nodes {
		g.start(i)
	}
	g.stopAt = g.now.Add(late + time.Millisecond)
	g.run(100000, nil)
	g.stopAt = time.Time{}
	g.stabilised = true
	roundAtStab := g.maxRound()
	decided := g.run(60000, nil)
	g.checkDecisions()
	dl := false
	for _, l := range g.log {
		if strings.HasPrefix(l, "deadlock") {
			dl = true
		}
	}
	return &simResult{g: g, decided: decided, byzVotes: 0, roundAtStab: roundAtStab, deadlock: dl && !decided, budget: !decided && !dl,
		desc: map[string]any{"scenario": "QUALITY votes reach the smallest member just after its QUALITY timeout; one member crash-silent; no Byzantine message", "nodes": 4, "powers": powers, "crash_silent": bz, "victim": victim,
			"late_by": late.String(), "only_one_vote_late": onlyOne, "input_len": in.Len(), "votes": len(g.votes), "byz_votes": 0, "max_round": g.maxRound(), "all_decided": decided}}
}

// foreign-value sway attempt: the honest participants share one input; QUALITY votes reach only some of them, so their
// round-0 PREPAREs split (input vs base) and everybody commits bottom at the timeout; COMMITs between honest participants
// are slow.  The Byzantine member (just under one third) aggregates the COMMITs for bottom it sees on the wire into a valid
// justification and immediately offers CONVERGE (and PREPARE) for a chain NOBODY proposed, in every round; whenever an
// honest participant votes for that chain it follows up with its own justified vote.
func foreignSwayScenario(r *rng, viol func(clause, sig, detail string)) *simResult {
	n := 4 + r.intn(2)
	pw := make([]int64, n)
	byz := make([]bool, n)
	for i := range pw {
		pw[i] = 100
	}
	b := r.intn(n)
	byz[b] = true
	pw[b] = int64(100*(n-1)/2 - 1 - r.intn(20)) // < 1/3 of the total
	base := mkTipset(0, "base")
	input := &gpbft.ECChain{TipSets: []*gpbft.TipSet{base, mkTipset(1, "x1")}}
	foreign := &gpbft.ECChain{TipSets: []*gpbft.TipSet{base, mkTipset(1, "z1")}}
	inputs := make([]*gpbft.ECChain, n)
	for i := range inputs {
		inputs[i] = input
	}
	inputs[b] = foreign
	cfg := gnetCfg{n: n, powers: pw, byz: byz, inputs: inputs, delta: 2 * time.Second}
	g := newGnet(r, cfg, viol)
	deaf := map[int]bool{} // honest participants that do not hear the others' QUALITY in time
	for i := range g.nodes {
		if i != b && len(deaf) < 1+r.intn(2) {
			deaf[i] = true
		}
	}
	// variant: ONE honest participant lags -- only the COMMIT and CONVERGE messages addressed to it are slow, the others
	// move on with the Byzantine member's help (it commits bottom with them); the laggard then sees, for the next round,
	// only the Byzantine CONVERGE (foreign value justified by the COMMIT-bottom quorum) plus a weak quorum of PREPAREs and
	// skips ahead: it must NOT adopt the foreign value
	lagVariant := r.chance(50)
	var laggards []int // lagVariant: the honest participant that lags in round r is laggards[r % len]
	if lagVariant {
		for _, i := range shuffled(r, n) {
			if i != b {
				laggards = append(laggards, i)
			}
		}
	}
	lagAt := func(round uint64) int { return laggards[int(round%uint64(len(laggards)))] }
	g.slow = func(from, to int, msg *gpbft.GMessage) bool {
		if lagVariant {
			// everything the others send in round r, and their CONVERGEs of round r+1, reach the laggard of round r late: of
			// round r+1 it first sees the Byzantine CONVERGE and the others' PREPAREs, and skips ahead (skipToRound)
			if msg.Vote.Phase == gpbft.DECIDE_PHASE {
				return false
			}
			return to == lagAt(msg.Vote.Round) ||
				(msg.Vote.Phase == gpbft.CONVERGE_PHASE && msg.Vote.Round > 0 && to == lagAt(msg.Vote.Round-1)) ||
				(msg.Vote.Phase == gpbft.QUALITY_PHASE && deaf[to])
		}
		return msg.Vote.Phase == gpbft.COMMIT_PHASE || (msg.Vote.Phase == gpbft.QUALITY_PHASE && deaf[to])
	}
	bz := g.nodes[b]
	bv := 0
	bottom := &gpbft.ECChain{}
	done := map[string]bool{}
	// aggregate the votes for (round, phase, value) seen on the wire (plus the Byzantine member's own) into a justification
	aggregate := func(round uint64, phase gpbft.Phase, value *gpbft.ECChain) *gpbft.Justification {
		payload := gpbft.Payload{Instance: g.instance, Round: round, Phase: phase, SupplementalData: g.supp, Value: value}
		sigs := map[int][]byte{}
		for _, v := range g.votes {
			if v.msg.Vote.Round == round && v.msg.Vote.Phase == phase && v.msg.Vote.Value.Eq(value) {
				sigs[g.ptIndex(v.msg.Sender)] = v.msg.Signature
			}
		}
		if own, err := g.backend.Sign(g.ctx, g.pt.Entries[g.ptIndex(bz.id)].PubKey, payload.MarshalForSigning(verifNet)); err == nil {
			sigs[g.ptIndex(bz.id)] = own
		}
		var mask []int
		var pwr int64
		for i := range g.pt.Entries {
			if _, ok := sigs[i]; ok {
				mask = append(mask, i)
				pwr += g.pt.ScaledPower[i]
			}
		}
		if !indepStrong(pwr, g.pt.ScaledTotal) {
			return nil
		}
		bf := bitfield.New()
		var ss [][]byte
		for _, i := range mask {
			bf.Set(uint64(i))
			ss = append(ss, sigs[i])
		}
		agg, err := g.backend.Aggregate(g.pt.Entries.PublicKeys())
		if err != nil {
			return nil
		}
		sig, err := agg.Aggregate(mask, ss)
		if err != nil {
			return nil
		}
		return &gpbft.Justification{Vote: payload, Signers: bf, Signature: sig}
	}
	emit := func(round uint64, ph gpbft.Phase, v *gpbft.ECChain, j *gpbft.Justification) {
		k := fmt.Sprint(round, ph, v.IsZero())
		if done[k] {
			return
		}
		mb := &gpbft.MessageBuilder{NetworkName: verifNet, PowerTable: g.pt, Justification: j,
			Payload: gpbft.Payload{Instance: g.instance, Round: round, Phase: ph, SupplementalData: g.supp, Value: v}}
		if ph == gpbft.CONVERGE_PHASE {
			mb.BeaconForTicket = []byte("beacon")
		}
		m2, err := mb.Build(g.ctx, g.backend, bz.id)
		if err != nil {
			return
		}
		done[k] = true
		bv++
		g.votes = append(g.votes, &sentVote{sender: bz.idx, msg: m2, honest: false, seq: len(g.votes)})
		for _, to := range g.nodes {
			if to.honest {
				g.pool = append(g.pool, &pendingMsg{to: to.idx, msg: m2, from: bz.idx, ready: g.now})
			}
		}
	}
	g.onSend = func(from int, msg *gpbft.GMessage) {
		round := msg.Vote.Round
		switch {
		case msg.Vote.Phase == gpbft.COMMIT_PHASE && msg.Vote.Value.IsZero():
			if lagVariant {
				emit(round, gpbft.COMMIT_PHASE, bottom, nil) // the Byzantine member commits bottom with the others
			}
			if j := aggregate(round, gpbft.COMMIT_PHASE, bottom); j != nil {
				emit(round+1, gpbft.CONVERGE_PHASE, foreign, j)
				emit(round+1, gpbft.PREPARE_PHASE, foreign, j)
			}
		case msg.Vote.Phase == gpbft.PREPARE_PHASE && msg.Vote.Value.Eq(foreign):
			if j := aggregate(round, gpbft.PREPARE_PHASE, foreign); j != nil {
				emit(round, gpbft.COMMIT_PHASE, foreign, j)
			}
		case msg.Vote.Phase == gpbft.COMMIT_PHASE && msg.Vote.Value.Eq(foreign):
			if j := aggregate(round, gpbft.COMMIT_PHASE, foreign); j != nil {
				emit(0, gpbft.DECIDE_PHASE, foreign, j)
			}
		}
	}
	for i := range g.nodes {
		g.start(i)
	}
	g.run(2500+r.intn(1500), nil)
	g.stabilised = true
	roundAtStab := g.maxRound()
	decided := g.run(60000, nil)
	g.checkDecisions()
	dl := false
	for _, l := range g.log {
		if strings.HasPrefix(l, "deadlock") {
			dl = true
		}
	}
	hf := 0
	for _, v := range g.votes {
		if v.honest && v.msg.Vote.Value.Eq(foreign) {
			hf++
		}
	}
	if os.Getenv("VERIF_DEBUG_SWAY") != "" && lagVariant {
		fmt.Fprintf(os.Stderr, "--- sway run: byz=%d laggards=%v\n", b, laggards)
		for _, v := range g.votes {
			val := "bottom"
			if !v.msg.Vote.Value.IsZero() {
				val = string(v.msg.Vote.Value.Head().Key)
			}
			fmt.Fprintf(os.Stderr, "  node%d r%d %s %s just=%v\n", v.sender, v.msg.Vote.Round, v.msg.Vote.Phase, val, v.msg.Justification != nil)
		}
	}
	return &simResult{g: g, decided: decided, byzVotes: bv, roundAtStab: roundAtStab, deadlock: dl && !decided, budget: !decided && !dl,
		desc: map[string]any{"scenario": "foreign-value sway via CONVERGE justified by COMMIT-bottom", "rotating_laggards": laggards, "honest_votes_for_the_foreign_value": hf, "nodes": n, "powers": pw, "byzantine": byz, "votes": len(g.votes), "byz_votes": bv, "max_round": g.maxRound(), "all_decided": decided}}
}

func shuffled(r *rng, n int) []int {
	p := make([]int, n)
	for i := range p {
		p[i] = i
	}
	for j := n - 1; j > 0; j-- {
		k := r.intn(j + 1)
		p[j], p[k] = p[k], p[j]
	}
	return p
}

// C01 / C02: adversarial executions of real participants; monitors on the implementation, and every execution's
// vote trace is checked inside Coq against the Layer-S transition system (conforms) — the same system for which
// agreement and validity are proved.
func runSpecSim(o *out, r *rng, thorough bool, pid string) {
	o.Rule = "adversarial multi-node executions of REAL gpbft.Participants (3-7 nodes, skewed power tables, forked inputs over a common base, Byzantine identities < 1/3 scaled power playing equivocation in every step, foreign-chain CONVERGE, justification recombination, decide injection, replays; random delay/reorder/drop of re-broadcasts, staggered starts, then a timely phase); each execution's complete vote trace is replayed inside Coq against the Layer-S guards (conforms); non-trivial = the run left round 0 or contains >=1 Byzantine message"
	runs := 64
	if thorough {
		runs = 600
	}
	prefix := strings.ToLower(pid)
	for i := 0; i < runs; i++ {
		var local []violation
		viol := func(clause, sig, detail string) {
			local = append(local, violation{Clause: clause, Signature: sig, Detail: detail})
		}
		var res *simResult
		if i%8 == 3 {
			res = signatureReplayScenario(r, viol)
		} else if i%12 == 1 {
			res = decisionFaultScenario(r, viol)
		} else if i%12 == 7 {
			res = justificationReuseScenario(r, viol)
		} else if i%6 == 5 {
			res = splitBrainScenario(r, viol)
		} else if i%12 == 4 {
			res = largePowerScenario(r, viol)
		} else if i%6 == 2 {
			res = foreignSwayScenario(r, viol)
		} else {
			res = simScenario(r, viol)
		}
		for _, v := range local {
			if strings.HasPrefix(v.Signature, prefix) {
				o.violate(v.Clause, v.Signature, res.desc, v.Detail)
			}
			o.Dist["monitor:"+v.Signature]++
			if len(o.Extra) < 12 {
				o.Extra[fmt.Sprintf("dbg-%d-%s", i, v.Signature)] = v.Detail
			}
		}
		o.Dist[fmt.Sprintf("max-round-%d", min(res.g.maxRound(), 5))]++
		powers, honest, inputs, votes, nv := res.g.specTrace()
		if nv <= 400 {
			o.coqCase(fmt.Sprintf("run %d %v", i, res.desc),
				fmt.Sprintf("spec_trace_ok %s %s %s %s", powers, honest, inputs, votes))
		} else {
			o.Dist["trace-too-long-for-coq"]++
		}
		o.count(pid+"-run", fmt.Sprint(res.desc, votes), res.g.maxRound() > 0 || res.byzVotes > 0)
		if !res.decided {
			o.Dist["not-all-decided-in-budget"]++
			var st []string
			for _, nd := range res.g.nodes {
				if nd.honest && nd.started && nd.decided == nil {
					st = append(st, fmt.Sprintf("node%d:%+v alarm=%v", nd.idx, nd.p.Progress().Instant, nd.hasAlarm))
				}
			}
			if len(o.Extra) < 14 {
				o.Extra[fmt.Sprintf("undecided-%d", i)] = fmt.Sprint(res.desc, st, res.g.log, " steps=", res.g.steps, " pool=", len(res.g.pool))
			}
		}
		if i < 2 {
			o.sample(res.desc)
		}
	}
	// network-level correspondence: real multi-node executions replayed as schedules of the Layer-N NETWORK model; inside Coq
	// the schedule must be admissible (RefineRun.all_okb: the hypotheses of the network theorems hold on real traffic) and the
	// model members must end where the real participants ended
	nt := 10
	if thorough {
		nt = 80
	}
	for i := 0; i < nt; i++ {
		viol := func(clause, sig, detail string) {}
		res := netTraceScenario(r, viol)
		if len(res.g.acts) > 2500 {
			o.Dist["net-trace-too-long-for-coq"]++
			continue
		}
		cfgT, honestT, inputsT, actsT, finalsT := res.g.netTrace()
		o.coqCase(fmt.Sprintf("network trace %d %v", i, res.desc), fmt.Sprintf("net_trace_ok %s %s %s %s %s", cfgT, honestT, inputsT, actsT, finalsT))
		o.Dist[fmt.Sprintf("net-trace-max-round-%d", min(res.g.maxRound(), 5))]++
		o.count(pid+"-net-trace", actsT, res.g.maxRound() > 0 || res.byzVotes > 0)
	}
	if pid == "C02" {
		// second sentence of C02: unanimous honest input + strong honest quorum + synchrony + no faulty sender => that chain is decided
		hp := 40
		if thorough {
			hp = 300
		}
		for i := 0; i < hp; i++ {
			var local []violation
			viol := func(clause, sig, detail string) {
				local = append(local, violation{Clause: clause, Signature: sig, Detail: detail})
			}
			n := 3 + r.intn(6)
			powers := make([]int64, n)
			for k := range powers {
				powers[k] = int64(1 + r.intn(40))
			}
			in := genInputs(r, 1)[0]
			inputs := make([]*gpbft.ECChain, n)
			for k := range inputs {
				inputs[k] = in
			}
			g := newGnet(r, gnetCfg{n: n, powers: powers, byz: make([]bool, n), inputs: inputs, delta: 2 * time.Second}, viol)
			g.stabilised = true
			for k := range g.nodes {
				g.start(k)
			}
			ok := g.run(20000, nil)
			g.checkDecisions()
			desc := map[string]any{"scenario": "happy-path", "nodes": n, "powers": powers, "input_len": in.Len()}
			if !ok {
				o.violate("when all honest participants propose the same chain under synchrony with no faulty sender, that chain is decided", "c02-happy-path-undecided", desc, "")
			}
			for _, nd := range g.nodes {
				if nd.decided != nil && !nd.decided.Vote.Value.Eq(in) {
					o.violate("when all honest participants propose the same chain under synchrony with no faulty sender, that chain itself is decided", "c02-happy-path-other-value", desc, nd.decided.Vote.Value.String())
				}
				if nd.maxRound > 0 {
					o.violate("the unanimous chain is decided without leaving round 0", "c02-happy-path-rounds", desc, fmt.Sprint(nd.maxRound))
				}
			}
			for _, v := range local {
				if strings.HasPrefix(v.Signature, prefix) {
					o.violate(v.Clause, v.Signature, desc, v.Detail)
				}
			}
			powersT, honest, inputsT, votes, _ := g.specTrace()
			o.coqCase(fmt.Sprintf("happy path %v", desc), fmt.Sprintf("spec_trace_ok %s %s %s %s", powersT, honest, inputsT, votes))
			o.count("C02-happy-path", fmt.Sprint(desc), in.Len() > 1)
		}
	}
	o.finish("From F3 Require Spec.\nFrom F3 Require Import SpecRun Instance InstanceRun RefineNet RefineRun.")
}
