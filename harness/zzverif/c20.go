//go:build verif

package main

import (
	"bufio"
	"context"
	"encoding/json"
	"fmt"
	"strings"
	"sync"
	"time"

	"github.com/filecoin-project/go-f3/certexchange"
	"github.com/filecoin-project/go-f3/certexchange/polling"
	"github.com/filecoin-project/go-f3/certs"
	"github.com/filecoin-project/go-f3/internal/clock"
	logging "github.com/ipfs/go-log/v2"
	"github.com/libp2p/go-libp2p/core/network"
)

func init() { runners["C20"] = runC20 }

func predTerm(mn, mx, iv time.Duration, inc bool, ed, bo time.Duration) string {
	return fmt.Sprintf("(mk_predictor %s %s %s %s %s %s)", cZ(int64(mn)), cZ(int64(mx)), cZ(int64(iv)), cBool(inc), cZ(int64(ed)), cZ(int64(bo)))
}

func runC20(o *out, r *rng, thorough bool, replay string) {
	o.Rule = "predictor: random (min,default,max) settings and progress sequences (steady/bursty/stalled/resumed/huge) run on the real predictor and on the generated model; subscriber: real polling rounds over an in-process libp2p mocknet against a real server; non-trivial = sequence contains a progress != 1, or the polling round advanced the store; the real Subscriber.run against a scripted slow peer on the mock clock: the wait after a round whose requests took time, and after rounds whose requests took none"
	n := 400
	if thorough {
		n = 6000
	}
	durs := []time.Duration{time.Millisecond, 100 * time.Millisecond, time.Second, 30 * time.Second, 2 * time.Minute, time.Hour}
	for i := 0; i < n; i++ {
		mn := pick(r, durs[:4])
		mx := mn * time.Duration(1+r.intn(200))
		df := mn + time.Duration(r.i64n(int64(mx-mn)+1))
		p := polling.VerifNewPredictor(mn, df, mx)
		mode := r.intn(5)
		steps := 1 + r.intn(40)
		var pairs []string
		var progs []uint64
		nontrivial := false
		prevIv := df
		for k := 0; k < steps; k++ {
			var pr uint64
			switch mode {
			case 0:
				pr = 1
			case 1:
				pr = uint64(r.intn(4))
			case 2:
				pr = 0
			case 3:
				pr = uint64(r.intn(3))
				if r.chance(10) {
					pr = uint64(5 + r.intn(500))
				}
			default:
				pr = uint64(r.intn(3))
				if k > steps/2 {
					pr = 1
				}
			}
			if pr != 1 {
				nontrivial = true
			}
			_, _, iv0, _, _, bo0 := p.State()
			w := p.Update(pr)
			_, _, iv1, _, _, bo1 := p.State()
			progs = append(progs, pr)
			pairs = append(pairs, cPair(cU(pr), cZ(int64(w))))
			// ---- property monitors on the real predictor ----
			in := map[string]any{"min": mn, "default": df, "max": mx, "progress_sequence": append([]uint64{}, progs...)}
			if iv1 < mn || iv1 > mx {
				o.violate("predicted interval stays within [min,max]", "predictor-clamp", in, fmt.Sprint(iv1))
			}
			if w < mn || w > 10*mx {
				o.violate("wait within [min, 10*max]", "predictor-wait-range", in, fmt.Sprint(w))
			}
			if bo0 == 0 && pr == 1 && (iv1 != iv0 || w != iv0 || bo1 != 0) {
				o.violate("steady production of one certificate per interval is a fixed point", "predictor-steady", in, fmt.Sprint(iv0, iv1, w))
			}
			if bo0 == 0 && pr >= 2 && (iv1 > iv0 || (iv0 > mn && iv1 >= iv0)) {
				o.violate("interval shortens when several certificates appear per poll", "predictor-shorten", in, fmt.Sprint(iv0, iv1))
			}
			if pr == 0 && (w < iv0 && bo0 == 0 || bo0 > 0 && w != bo0 || bo1 < bo0) {
				o.violate("backs off when no certificate appears", "predictor-backoff", in, fmt.Sprint(iv0, bo0, w, bo1))
			}
			if bo0 > 0 && pr >= 1 && (bo1 != 0 || iv1 != iv0) {
				o.violate("back-off ends on progress", "predictor-restore", in, fmt.Sprint(bo0, bo1))
			}
			prevIv = iv1
		}
		_ = prevIv
		a, b, c, d, e, f := p.State()
		o.coqCase(fmt.Sprintf("predictor min=%v default=%v max=%v progress=%v", mn, df, mx, progs),
			fmt.Sprintf("check_pred (newPredictor %s %s %s) %s %s", cZ(int64(mn)), cZ(int64(df)), cZ(int64(mx)), cList(pairs), predTerm(a, b, c, d, e, f)))
		o.count("predictor-seq", fmt.Sprint(mn, df, mx, progs), nontrivial)
		if i < 2 {
			o.sample(map[string]any{"kind": "predictor", "min": mn.String(), "default": df.String(), "max": mx.String(), "progress": progs})
		}
	}
	// arbitrary (possibly non-reachable) states: single update step vs model
	for i := 0; i < n; i++ {
		mn := time.Duration(100 + r.i64n(int64(time.Second)))
		mx := mn + time.Duration(r.i64n(int64(time.Hour)))
		iv := mn + time.Duration(r.i64n(int64(mx-mn)+1))
		ed := time.Duration(r.i64n(int64(mx) + 1))
		bo := time.Duration(0)
		if r.chance(40) {
			bo = mn + time.Duration(r.i64n(int64(10*mx-mn)+1))
		}
		inc := r.bool()
		var pr uint64
		switch r.intn(5) {
		case 0:
			pr = 0
		case 1:
			pr = 1
		case 2:
			pr = 2
		case 3:
			pr = uint64(3 + r.intn(1000))
		default:
			pr = r.u64() >> uint(1+r.intn(62))
		}
		p := polling.VerifSetPredictor(mn, mx, iv, inc, ed, bo)
		w := p.Update(pr)
		a, b, c, d, e, f := p.State()
		o.coqCase(fmt.Sprintf("predictor-state %v progress=%d", []any{mn, mx, iv, inc, ed, bo}, pr),
			fmt.Sprintf("check_pred %s [%s] %s", predTerm(mn, mx, iv, inc, ed, bo), cPair(cU(pr), cZ(int64(w))), predTerm(a, b, c, d, e, f)))
		o.count("predictor-step", fmt.Sprint(mn, mx, iv, inc, ed, bo, pr), pr != 1)
	}

	// ---- subscriber polling rounds against a real server over mocknet ----
	rounds := 12
	if thorough {
		rounds = 80
	}
	for i := 0; i < rounds; i++ {
		ctx, cancel := context.WithCancel(context.Background())
		ctx, _ = clock.WithMockClock(ctx)
		g := newCertGen(r, 4+r.intn(4), 0)
		initial := g.table
		total := 1 + r.intn(9)
		var all []*certs.FinalityCertificate
		for k := 0; k < total; k++ {
			all = append(all, g.makeCert())
		}
		have := r.intn(total + 1) // client already holds this many
		net := newCxNet(ctx, 0, initial, all)
		cstore, _ := newMemStore(ctx, 0, initial)
		for _, c := range all[:have] {
			must(cstore.Put(ctx, c))
		}
		sub := &polling.Subscriber{
			Client:              certexchange.Client{Host: net.client, NetworkName: verifNet, RequestTimeout: 5 * time.Second},
			Store:               cstore,
			SignatureVerifier:   g.backend,
			MinimumPollInterval: time.Millisecond, MaximumPollInterval: time.Second, InitialPollInterval: 100 * time.Millisecond,
		}
		must(sub.VerifInit(ctx))
		sub.VerifPeerSeen(net.srvHost.ID())
		// the node's own GPBFT may store certificates between two rounds: they count as progress of the round that notices them
		loc := 0
		if have < total && r.chance(50) {
			loc = 1 + r.intn(total-have)
			for _, c := range all[have : have+loc] {
				must(cstore.Put(ctx, c))
			}
			o.Dist["subscriber-round-with-local-progress"]++
		}
		before := sub.VerifPoller().NextInstance
		progress, newCert, err := sub.VerifPollOnce(ctx)
		after := sub.VerifPoller().NextInstance
		var latest uint64
		if l := cstore.Latest(); l != nil {
			latest = l.GPBFTInstance + 1
		}
		in := map[string]any{"server_certs": total, "client_had": have}
		if err != nil {
			o.violate("polling round succeeds against an honest server", "subscriber-error", in, err.Error())
		} else {
			if progress != after-before || after != latest || after != uint64(total) {
				o.violate("progress equals the number of instances the store advanced", "subscriber-progress", in,
					fmt.Sprintf("progress=%d (as signed %d) next before=%d after=%d store_next=%d", progress, int64(progress), before, after, latest))
			}
			if newCert != (total > have+loc) {
				o.violate("new-certificate flag reflects certificates received", "subscriber-newcert", in, fmt.Sprint(newCert))
			}
		}
		// tie of the translated return expression: model applied to (start, next) must equal the observed value
		o.coqCase(fmt.Sprintf("subscriber poll server=%d client=%d", total, have),
			fmt.Sprintf("andb (Z.eqb (subscriber_progress_2 %s %s) %s) (Z.eqb (catchup_progress %s %s) %s)",
				cU(before), cU(after), cU(progress), cU(uint64(total)-1), cU(before), cU(uint64(total)-before)))
		o.count("subscriber-round", fmt.Sprint(total, have), total > have)
		if i < 2 {
			o.sample(map[string]any{"kind": "subscriber-round", "server_certs": total, "client_had": have, "progress": progress, "new": newCert})
		}
		net.close()
		cancel()
	}
	// ---- the real polling loop (Subscriber.run) on a mock clock, no peers: every round makes no progress, so the interval
	// the loop predicts after round k is a pure function of how it configured its predictor: it must be the k-th value of a
	// predictor built from (Minimum, Initial, Maximum)PollInterval.  The intervals are read from the loop's own debug log.
	loops := 4
	if thorough {
		loops = 20
	}
	for i := 0; i < loops; i++ {
		mn := pick(r, durs[:3])
		mx := mn * time.Duration(20+r.intn(200))
		df := mn*2 + time.Duration(r.i64n(int64(mx/2-mn*2)+1))
		obs, err := observeRunIntervals(r, mn, df, mx, 6)
		in := map[string]any{"minimum": mn.String(), "initial": df.String(), "maximum": mx.String()}
		if err != nil {
			o.Dist["run-loop-inconclusive"]++
			continue
		}
		p := polling.VerifNewPredictor(mn, df, mx)
		var want []time.Duration
		for range obs {
			want = append(want, p.Update(0))
		}
		if fmt.Sprint(obs) != fmt.Sprint(want) {
			o.violate("the polling cadence starts at the configured initial interval and stays within the configured minimum and maximum", "subscriber-run-predictor-config", in,
				fmt.Sprintf("intervals predicted by the loop after rounds without progress: %v, a predictor configured (min, initial, max): %v", obs, want))
		}
		o.count("subscriber-run-loop", fmt.Sprint(mn, df, mx), true)
	}
	// ---- the real loop against a scripted peer: the wait is the predicted interval, extended ONLY by the time THIS round's
	// own requests took (and by at most half of the interval)
	scen := 3
	if thorough {
		scen = 12
	}
	for i := 0; i < scen; i++ {
		runWaitScenario(o, r, i)
	}
	o.finish("From F3 Require Import GoInt PredictorGen PredictorRun.")
}

// runWaitScenario: Subscriber.run on a mock clock with one scripted peer.  Round 1: the peer answers after `slow` of
// mock time while the certificate arrives in the subscriber's store locally (progress without a new certificate from
// the peer: the wait is extended by the request time, at most half).  Later rounds: the peer answers at once with the
// next certificate (no request time at all): the wait must be exactly the predicted interval.
func runWaitScenario(o *out, r *rng, idx int) {
	runLogMu.Lock()
	defer runLogMu.Unlock()
	ctx, cancel := context.WithCancel(context.Background())
	defer cancel()
	ctx, mock := clock.WithMockClock(ctx)
	g := newCertGen(r, 4, 0)
	table := g.table
	var cs []*certs.FinalityCertificate
	for k := 0; k < 5; k++ {
		cs = append(cs, g.makeCert())
	}
	net := newCxNet(ctx, 0, table, nil)
	defer net.close()
	cstore, _ := newMemStore(ctx, 0, table)
	mn := time.Second
	df := time.Duration(8+r.intn(8)) * time.Second
	mx := 200 * time.Second
	slow := time.Duration(2+r.intn(5)) * time.Second
	type reqEv struct{ first uint64 }
	arrived := make(chan reqEv, 16)
	type resp struct {
		pending uint64
		certs   []*certs.FinalityCertificate
	}
	answers := make(chan resp, 16)
	// the scripted peer replaces the real server's handler on the server host
	net.srvHost.SetStreamHandler(certexchange.FetchProtocolName(verifNet), func(st network.Stream) {
		var req certexchange.Request
		br := bufio.NewReader(st)
		if err := req.UnmarshalCBOR(br); err != nil {
			_ = st.Reset()
			return
		}
		arrived <- reqEv{req.FirstInstance}
		a := <-answers
		bw := bufio.NewWriter(st)
		hdr := certexchange.ResponseHeader{PendingInstance: a.pending}
		_ = hdr.MarshalCBOR(bw)
		for _, c := range a.certs {
			_ = c.MarshalCBOR(bw)
		}
		_ = bw.Flush()
		_ = st.Close()
	})
	sub := &polling.Subscriber{
		Client:              certexchange.Client{Host: net.client, NetworkName: verifNet, RequestTimeout: 500 * time.Second},
		Store:               cstore,
		SignatureVerifier:   g.backend,
		MinimumPollInterval: mn, MaximumPollInterval: mx, InitialPollInterval: df,
	}
	must(sub.VerifInit(ctx))
	sub.VerifPeerSeen(net.srvHost.ID())
	discoveries := sub.VerifDiscoveries(16)
	pr := logging.NewPipeReader(logging.PipeFormat(logging.JSONOutput), logging.PipeLevel(logging.LevelDebug))
	defer pr.Close()
	_ = logging.SetLogLevel("f3/certexchange", "debug")
	defer func() { _ = logging.SetLogLevel("f3/certexchange", "error") }()
	type pw struct{ predicted, waiting time.Duration }
	lines := make(chan pw, 64)
	go func() {
		sc := bufio.NewScanner(pr)
		sc.Buffer(make([]byte, 1<<20), 1<<20)
		for sc.Scan() {
			var rec struct {
				Msg string `json:"msg"`
			}
			if json.Unmarshal(sc.Bytes(), &rec) != nil {
				continue
			}
			const pfx = "predicted interval is "
			if !strings.HasPrefix(rec.Msg, pfx) {
				continue
			}
			rest := rec.Msg[len(pfx):]
			k := strings.Index(rest, " (waiting ")
			if k < 0 {
				continue
			}
			w := rest[k+len(" (waiting "):]
			if e := strings.IndexAny(w, ",)"); e > 0 {
				w = w[:e]
			}
			d1, err1 := time.ParseDuration(rest[:k])
			d2, err2 := time.ParseDuration(strings.TrimSpace(w))
			if err1 == nil && err2 == nil {
				lines <- pw{d1, d2}
			}
		}
	}()
	done := make(chan struct{})
	go func() { _ = sub.VerifRun(ctx); close(done) }()
	defer func() { cancel(); <-done }()
	waitReq := func() bool {
		deadline := time.Now().Add(6 * time.Second)
		for time.Now().Before(deadline) {
			select {
			case <-arrived:
				return true
			case <-time.After(15 * time.Millisecond):
				mock.Add(0) // let timers that are already due fire
			}
		}
		return false
	}
	waitLine := func() (pw, bool) {
		select {
		case l := <-lines:
			return l, true
		case <-time.After(6 * time.Second):
			return pw{}, false
		}
	}
	in := map[string]any{"scenario": idx, "initial": df.String(), "slow_request": slow.String()}
	// round 1
	time.Sleep(30 * time.Millisecond)
	mock.Add(df)
	if !waitReq() {
		o.Dist["wait-scenario-inconclusive"]++
		return
	}
	mock.Add(slow)
	must(cstore.Put(ctx, cs[0])) // the certificate arrives locally while the request is in flight
	answers <- resp{pending: 1, certs: []*certs.FinalityCertificate{cs[0]}} // the peer delivers what the store already has: progress, but nothing new from the network
	l1, ok := waitLine()
	if !ok {
		o.Dist["wait-scenario-inconclusive"]++
		return
	}
	until := l1.predicted - slow
	if until < 0 {
		until = 0
	}
	want1 := until + min(slow, until/2)
	if l1.waiting != want1 {
		o.violate("the wait is the predicted interval, extended only by the time its own requests took and by at most half of the interval", "subscriber-wait", in,
			fmt.Sprintf("round 1 (request took %s, progress made locally): predicted %s, waiting %s, expected %s", slow, l1.predicted, l1.waiting, want1))
	}
	o.coqCase(fmt.Sprintf("subscriber wait scenario %d round 1", idx), fmt.Sprintf("Z.eqb (subscriber_delay %s %s) %s", cZ(int64(l1.predicted-slow)), cZ(int64(slow)), cZ(int64(l1.waiting))))
	// rounds 2..4: the peer answers at once with the next certificate
	prev := l1.waiting
	for k := 1; k <= 3; k++ {
		time.Sleep(60 * time.Millisecond) // the loop logs just before it re-arms its timer
		if k == 2 && prev > 2 {
			// half-way through the wait a peer is discovered (the server's own id again: nothing new to poll): the pending
			// poll must still happen when it was due -- the wait is extended by the own requests' time only
			mock.Add(prev / 2)
			discoveries <- net.srvHost.ID()
			time.Sleep(60 * time.Millisecond)
			mock.Add(prev - prev/2)
			if !waitReq() {
				// not due yet?  let the full wait pass once more: if the request shows up now, the discovery had postponed the poll
				mock.Add(prev)
				if waitReq() {
					o.violate("the wait before the next poll is the predicted interval, extended only by the time its own requests took", "subscriber-wait-extended-by-discovery", in,
						fmt.Sprintf("round %d: the poll was due %s after the previous one; a peer was discovered half-way and the poll only happened after a further full wait", k+1, prev))
					answers <- resp{pending: uint64(k + 1), certs: []*certs.FinalityCertificate{cs[k]}}
					_, _ = waitLine()
				} else {
					o.Dist["wait-scenario-inconclusive-discovery"]++
				}
				return
			}
			o.Dist["wait-scenario-discovery-mid-wait"]++
			goto arrived
		}
		mock.Add(prev) // exactly when the timer is due
		if !waitReq() {
			o.Dist[fmt.Sprintf("wait-scenario-inconclusive-round%d", k+1)]++
			return
		}
	arrived:
		answers <- resp{pending: uint64(k + 1), certs: []*certs.FinalityCertificate{cs[k]}}
		lk, ok := waitLine()
		if !ok {
			o.Dist["wait-scenario-inconclusive"]++
			return
		}
		// this round's requests took no (mock) time and the timer fired on time: nothing may be added to the predicted interval
		if lk.waiting != lk.predicted {
			o.violate("the wait is extended only by the time its own requests took", "subscriber-wait-stale-offset", in,
				fmt.Sprintf("round %d: this round's requests took no time, predicted %s, yet waiting %s (round 1's request took %s)", k+1, lk.predicted, lk.waiting, slow))
		}
		o.coqCase(fmt.Sprintf("subscriber wait scenario %d round %d", idx, k+1), fmt.Sprintf("Z.eqb (subscriber_delay %s 0) %s", cZ(int64(lk.predicted)), cZ(int64(lk.waiting))))
		prev = lk.waiting
		o.count("subscriber-wait-round", fmt.Sprint(idx, k), true)
	}
	o.count("subscriber-wait-scenario", fmt.Sprint(idx, df, slow), true)
}

var runLogMu sync.Mutex

// observeRunIntervals starts the real Subscriber.run with no peers on a mock clock, advances the clock until the loop has
// completed `want` rounds and returns the intervals it predicted (parsed from its debug log "predicted interval is X").
func observeRunIntervals(r *rng, mn, df, mx time.Duration, want int) ([]time.Duration, error) {
	runLogMu.Lock()
	defer runLogMu.Unlock()
	ctx, cancel := context.WithCancel(context.Background())
	defer cancel()
	ctx, mock := clock.WithMockClock(ctx)
	g := newCertGen(r, 4, 0)
	net := newCxNet(ctx, 0, g.table, nil)
	defer net.close()
	cstore, _ := newMemStore(ctx, 0, g.table)
	sub := &polling.Subscriber{
		Client:              certexchange.Client{Host: net.client, NetworkName: verifNet, RequestTimeout: 5 * time.Second},
		Store:               cstore,
		SignatureVerifier:   g.backend,
		MinimumPollInterval: mn, MaximumPollInterval: mx, InitialPollInterval: df,
	}
	must(sub.VerifInit(ctx))
	pr := logging.NewPipeReader(logging.PipeFormat(logging.JSONOutput), logging.PipeLevel(logging.LevelDebug))
	defer pr.Close()
	_ = logging.SetLogLevel("f3/certexchange", "debug")
	defer func() { _ = logging.SetLogLevel("f3/certexchange", "error") }()
	lines := make(chan time.Duration, 64)
	go func() {
		sc := bufio.NewScanner(pr)
		sc.Buffer(make([]byte, 1<<20), 1<<20)
		for sc.Scan() {
			var rec struct {
				Msg string `json:"msg"`
			}
			if json.Unmarshal(sc.Bytes(), &rec) != nil {
				continue
			}
			const pfx = "predicted interval is "
			if !strings.HasPrefix(rec.Msg, pfx) {
				continue
			}
			rest := rec.Msg[len(pfx):]
			if k := strings.Index(rest, " ("); k > 0 {
				if d, err := time.ParseDuration(rest[:k]); err == nil {
					lines <- d
				}
			}
		}
	}()
	done := make(chan struct{})
	go func() { _ = sub.VerifRun(ctx); close(done) }()
	var obs []time.Duration
	deadline := time.Now().Add(8 * time.Second)
	for len(obs) < want && time.Now().Before(deadline) {
		mock.Add(mx)
		select {
		case d := <-lines:
			obs = append(obs, d)
		case <-time.After(20 * time.Millisecond):
		}
	}
	cancel()
	<-done
	if len(obs) < want {
		return obs, fmt.Errorf("only %d of %d rounds observed", len(obs), want)
	}
	return obs, nil
}
