//go:build verif

package main

import (
	"bytes"
	"fmt"
	"io"
	"os"
	"path/filepath"
	"sort"
	"strings"
	"time"

	"github.com/filecoin-project/go-f3/internal/writeaheadlog"
	cbg "github.com/whyrusleeping/cbor-gen"
)

func init() { runners["C11"] = runC11 }

// vEntry: harness WAL entry: CBOR array(3) [epoch, id, payload]
type vEntry struct {
	Epoch   uint64
	ID      uint64
	Payload []byte
	Reject  bool // not serialised: the encoder gives up after the first fields, like a generated encoder meeting an over-long field
}

func (e *vEntry) WALEpoch() uint64 { return e.Epoch }
func (e *vEntry) MarshalCBOR(w io.Writer) error {
	cw := cbg.NewCborWriter(w)
	if err := cw.WriteMajorTypeHeader(cbg.MajArray, 3); err != nil {
		return err
	}
	if err := cw.WriteMajorTypeHeader(cbg.MajUnsignedInt, e.Epoch); err != nil {
		return err
	}
	if err := cw.WriteMajorTypeHeader(cbg.MajUnsignedInt, e.ID); err != nil {
		return err
	}
	if e.Reject {
		return fmt.Errorf("payload of entry %d is too long", e.ID)
	}
	if err := cw.WriteMajorTypeHeader(cbg.MajByteString, uint64(len(e.Payload))); err != nil {
		return err
	}
	_, err := cw.Write(e.Payload)
	return err
}
func (e *vEntry) UnmarshalCBOR(r io.Reader) error {
	cr := cbg.NewCborReader(r)
	maj, n, err := cr.ReadHeader()
	if err != nil {
		return err
	}
	if maj != cbg.MajArray || n != 3 {
		return fmt.Errorf("bad entry header")
	}
	if maj, e.Epoch, err = cr.ReadHeader(); err != nil || maj != cbg.MajUnsignedInt {
		return fmt.Errorf("bad epoch: %v", err)
	}
	if maj, e.ID, err = cr.ReadHeader(); err != nil || maj != cbg.MajUnsignedInt {
		return fmt.Errorf("bad id: %v", err)
	}
	maj, n, err = cr.ReadHeader()
	if err != nil || maj != cbg.MajByteString || n > 4<<20 {
		return fmt.Errorf("bad payload: %v", err)
	}
	e.Payload = make([]byte, n)
	if _, err := io.ReadFull(cr, e.Payload); err != nil {
		return err
	}
	return nil
}

func encLen(e *vEntry) int {
	var b bytes.Buffer
	must(e.MarshalCBOR(&b))
	return b.Len()
}

func cName(s string) string { return cBytes([]byte(s)) }

func listWal(dir string) []string {
	es, err := os.ReadDir(dir)
	must(err)
	var out []string
	for _, e := range es {
		if strings.HasSuffix(e.Name(), ".wal.cbor") {
			out = append(out, e.Name())
		}
	}
	sort.Strings(out)
	return out
}

func runC11(o *out, r *rng, thorough bool, replay string) {
	o.Rule = "histories of append (small .. 400KiB records, forcing rotation above 1MiB)/rotate/close/purge/reopen on the real WAL in a scratch directory, with crashes simulated by abandoning the handle and truncating the last file at a chosen byte offset of an in-flight append (thorough: every offset); All() and the directory contents are compared with the Coq model after every step; non-trivial = >=1 rotation or restart and >=2 epochs; histories include appends REJECTED by the encoder after it has produced part of the record (nothing acknowledged, the log as before)"
	base := filepath.Join(o.dir, "wal")
	nh := 80
	if thorough {
		nh = 200
	}
	for hi := 0; hi < nh; hi++ {
		dir := filepath.Join(base, fmt.Sprintf("h%d", hi))
		must(os.MkdirAll(dir, 0o755))
		w, err := writeaheadlog.Open[vEntry](dir)
		must(err)
		var ops, desc []string
		acked := map[uint64]uint64{} // id -> epoch, acknowledged and not knowingly purged
		var ackOrder []uint64
		purgedBelow := uint64(0)
		nextID := uint64(1)
		epochs := map[uint64]bool{}
		rotations, restarts := 0, 0
		known := map[string]bool{}
		viol := func(clause, sig, detail string) {
			o.violate(clause, sig, map[string]any{"history": append([]string{}, desc...)}, detail)
		}
		heavy := hi%3 == 1 // every third history: mostly large records, so that SIZE-triggered rotations happen often
		mkEntry := func() *vEntry {
			sz := r.intn(64)
			if heavy && r.chance(65) {
				e := &vEntry{Epoch: uint64(r.intn(12)), ID: nextID, Payload: bytes.Repeat([]byte{byte(nextID)}, 350000+r.intn(400000))}
				nextID++
				return e
			}
			switch r.intn(10) {
			case 0:
				sz = 200000 + r.intn(200000)
			case 1:
				sz = 5000 + r.intn(60000)
			}
			e := &vEntry{Epoch: uint64(r.intn(12)), ID: nextID, Payload: bytes.Repeat([]byte{byte(nextID)}, sz)}
			nextID++
			return e
		}
		freshName := func() string {
			for _, n := range listWal(dir) {
				if !known[n] {
					known[n] = true
					rotations++
					return n
				}
			}
			return fmt.Sprintf("unused-%d", nextID)
		}
		checkAll := func() {
			got, err := w.All()
			if err != nil {
				viol("All succeeds", "wal-all-error", err.Error())
				return
			}
			ids := make([]int64, len(got))
			seen := map[uint64]bool{}
			for i, e := range got {
				ids[i] = int64(e.ID)
				seen[e.ID] = true
				if _, ok := acked[e.ID]; !ok {
					viol("reads never return an entry that was not appended", "wal-phantom", fmt.Sprint(e.ID))
				}
				if len(e.Payload) > 0 && (e.Payload[0] != byte(e.ID) || e.Payload[len(e.Payload)-1] != byte(e.ID)) {
					viol("acknowledged entries are returned intact", "wal-corrupt-entry", fmt.Sprint(e.ID))
				}
			}
			for id, ep := range acked {
				if ep >= purgedBelow && !seen[id] && id < 1<<62 {
					viol("every acknowledged, not purged entry is returned", "wal-lost-entry", fmt.Sprintf("id=%d epoch=%d purgedBelow=%d", id, ep, purgedBelow))
				}
			}
			ops = append(ops, fmt.Sprintf("WAll %s", cListZ(ids)))
			desc = append(desc, fmt.Sprintf("all=%v", ids))
		}
		checkFiles := func() {
			var fs []string
			for _, n := range listWal(dir) {
				// parse the file with the same decoder
				f, err := os.Open(filepath.Join(dir, n))
				must(err)
				var ids []int64
				last := int64(-1)
				for {
					var e vEntry
					if err := e.UnmarshalCBOR(f); err != nil {
						break
					}
					ids = append(ids, int64(e.ID))
					if int64(e.ID) <= last {
						viol("entries appear in append order within a log file", "wal-file-order", n)
					}
					last = int64(e.ID)
				}
				f.Close()
				fs = append(fs, cPair(cName(n), cListZ(ids)))
			}
			ops = append(ops, fmt.Sprintf("WFiles %s", cList(fs)))
			desc = append(desc, "files")
		}
		steps := 8 + r.intn(25)
		for st := 0; st < steps; st++ {
			if r.chance(10) {
				// an append that is REJECTED (the entry cannot be encoded): an error is returned, nothing is acknowledged, and the
				// log is exactly as before -- in particular the acknowledged appends that follow are readable
				e := mkEntry()
				e.Reject = true
				if err := w.Append(*e); err == nil {
					viol("an entry that cannot be encoded is not acknowledged", "wal-rejected-append-acked", fmt.Sprint(e.ID))
				}
				fnr := freshName() // maybeRotate runs before the encoder: a rejected append may still open a new (empty) file
				ops = append(ops, fmt.Sprintf("WReject %s", cName(fnr)))
				desc = append(desc, fmt.Sprintf("rejected-append id=%d", e.ID))
				o.Dist["rejected-appends"]++
			}
			switch k := r.intn(100); {
			case k < 55:
				e := mkEntry()
				if err := w.Append(*e); err != nil {
					viol("append succeeds", "wal-append-error", err.Error())
					continue
				}
				acked[e.ID] = e.Epoch
				ackOrder = append(ackOrder, e.ID)
				epochs[e.Epoch] = true
				rotBefore := rotations
				fn := freshName()
				ops = append(ops, fmt.Sprintf("WAppend (mkRec %s %s %d) %s", cU(e.Epoch), cU(e.ID), encLen(e), cName(fn)))
				desc = append(desc, fmt.Sprintf("append id=%d epoch=%d size=%d", e.ID, e.Epoch, encLen(e)))
				if rotations > rotBefore && len(ackOrder) > 1 && e.Epoch > 0 && r.chance(50) {
					// directed: the append opened a new file; close it and purge right at the new record's epoch
					must(w.Rotate())
					ops = append(ops, "WFlush")
					desc = append(desc, "flush")
					must(w.Purge(e.Epoch))
					if e.Epoch > purgedBelow {
						purgedBelow = e.Epoch
					}
					ops = append(ops, fmt.Sprintf("WPurge %s", cU(e.Epoch)))
					desc = append(desc, fmt.Sprintf("purge %d", e.Epoch))
					checkAll()
					checkFiles()
				}
			case k < 63:
				if r.bool() {
					must(w.Rotate())
				} else {
					must(w.Close())
				}
				ops = append(ops, "WFlush")
				desc = append(desc, "flush")
			case k < 73:
				keep := uint64(r.intn(12))
				must(w.Purge(keep))
				// which acked entries may legitimately disappear: those below keep (conservative side is checked by the model)
				if keep > purgedBelow {
					purgedBelow = keep
				}
				ops = append(ops, fmt.Sprintf("WPurge %s", cU(keep)))
				desc = append(desc, fmt.Sprintf("purge %d", keep))
			case k < 83:
				_ = w.Close()
				w, err = writeaheadlog.Open[vEntry](dir)
				must(err)
				restarts++
				ops = append(ops, "WFlush", "WReopen")
				desc = append(desc, "close", "reopen")
			case k < 93:
				// crash inside an append: the record is written, the handle abandoned, the file cut
				e := mkEntry()
				e.ID |= 1 << 62 // in-flight records are marked so monitors do not require them
				e.Payload = bytes.Repeat([]byte{byte(e.ID)}, len(e.Payload))
				if err := w.Append(*e); err != nil {
					viol("append succeeds", "wal-append-error", err.Error())
					continue
				}
				fn := freshName()
				files := listWal(dir)
				// the file that received the record is the most recently modified one
				var target string
				var newest time.Time
				for _, n := range files {
					st, _ := os.Stat(filepath.Join(dir, n))
					if target == "" || st.ModTime().After(newest) || (st.ModTime().Equal(newest) && n > target) {
						target, newest = n, st.ModTime()
					}
				}
				if known[fn] {
					target = fn
				}
				sz := encLen(e)
				cut := r.intn(sz + 1)
				switch r.intn(5) {
				case 0:
					cut = 0
				case 1:
					cut = sz
				case 2:
					cut = 1
				}
				st, err := os.Stat(filepath.Join(dir, target))
				must(err)
				must(os.Truncate(filepath.Join(dir, target), st.Size()-int64(sz)+int64(cut)))
				if cut == sz {
					acked[e.ID] = e.Epoch // complete record: may legitimately be returned
				} else {
					// never acknowledged and not complete: must not be returned
					delete(acked, e.ID)
				}
				epochs[e.Epoch] = true
				w, err = writeaheadlog.Open[vEntry](dir)
				must(err)
				restarts++
				ops = append(ops, fmt.Sprintf("WCrash (mkRec %s %s %d) %s %d", cU(e.Epoch), cU(e.ID), sz, cName(fn), cut))
				desc = append(desc, fmt.Sprintf("crash-append id=%d size=%d cut=%d file=%s", e.ID, sz, cut, target))
			default:
				checkFiles()
			}
			if r.chance(40) {
				checkAll()
			}
		}
		checkAll()
		checkFiles()
		_ = w.Close()
		o.coqCase(fmt.Sprintf("history %d: %s", hi, strings.Join(desc, " | ")), fmt.Sprintf("wal_history_ok %s", cList(ops)))
		o.count("wal-history", strings.Join(ops, ";"), (rotations >= 2 || restarts >= 1) && len(epochs) >= 2)
		if hi < 2 {
			o.sample(map[string]any{"history": desc})
		}
		os.RemoveAll(dir)
	}
	os.RemoveAll(base)
	o.finish("From F3 Require Import Wal WalRun.")
}
