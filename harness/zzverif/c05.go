//go:build verif

package main

import (
	"bytes"
	"context"
	"errors"
	"fmt"
	"os"
	"runtime"
	"sort"
	"strings"
	"sync"

	"github.com/filecoin-project/go-bitfield"
	"github.com/filecoin-project/go-f3/gpbft"
	"github.com/filecoin-project/go-f3/internal/caching"
	"github.com/filecoin-project/go-f3/pmsg"
	"github.com/filecoin-project/go-f3/sim/signing"
)

func init() {
	runners["C05"] = func(o *out, r *rng, th bool, rp string) { runValidator(o, r, th, "C05") }
	runners["C13"] = func(o *out, r *rng, th bool, rp string) { runValidator(o, r, th, "C13") }
}

// ---------- environment: committees of two instances, structural signature registry ----------
type valEnv struct {
	r       *rng
	ctx     context.Context
	backend *signing.FakeBackend
	cmts    map[uint64]*gpbft.Committee
	t       *tok
	sigs    map[string]string // signature bytes -> Coq (key, pdesc)
	aggs    map[string]string // aggregate bytes -> Coq (keys, pdesc)
	tks     map[string]string // ticket bytes -> Coq ticket
	chains  []*gpbft.ECChain
	supp    gpbft.SupplementalData
}

type valCP struct{ e *valEnv }

func (c valCP) GetCommittee(_ context.Context, inst uint64) (*gpbft.Committee, error) {
	if cm, ok := c.e.cmts[inst]; ok {
		return cm, nil
	}
	return nil, errors.New("verif: no committee")
}

func netTok(nn gpbft.NetworkName) int {
	if nn == verifNet {
		return 1
	}
	return 2
}

func (e *valEnv) keyTok(k gpbft.PubKey) int64 { return e.t.of("key", k) }
func (e *valEnv) chainKeyTok(c *gpbft.ECChain) int64 {
	if c.IsZero() {
		return 0
	}
	k := c.Key()
	return e.t.of("chainkey", k[:])
}
func (e *valEnv) keyTokOfKey(k gpbft.ECChainKey) int64 {
	if k.IsZero() {
		return 0
	}
	return e.t.of("chainkey", k[:])
}
func (e *valEnv) suppTok(s gpbft.SupplementalData) int64 {
	return e.t.of("supp", append(append([]byte{}, s.Commitments[:]...), s.PowerTable.Bytes()...))
}
func (e *valEnv) chainTerm(c *gpbft.ECChain) string {
	return fmt.Sprintf("(mkCh %d %s)", e.chainKeyTok(c), cBool(c.Validate() == nil))
}
func (e *valEnv) pdesc(nn gpbft.NetworkName, p gpbft.Payload, key int64) string {
	return fmt.Sprintf("(mkPd %d %d %d %d %d %d)", netTok(nn), p.Instance, p.Round, int(p.Phase), e.suppTok(p.SupplementalData), key)
}
func (e *valEnv) voteTerm(p gpbft.Payload) string {
	return fmt.Sprintf("(mkVote %d %d %d %d %s)", p.Instance, p.Round, int(p.Phase), e.suppTok(p.SupplementalData), e.chainTerm(p.Value))
}
func (e *valEnv) justTerm(j *gpbft.Justification) string {
	if j == nil {
		return "None"
	}
	var ss []int64
	_ = j.Signers.ForEach(func(b uint64) error { ss = append(ss, int64(b)); return nil })
	sig := "None"
	if d, ok := e.aggs[string(j.Signature)]; ok {
		sig = "(Some " + d + ")"
	}
	return fmt.Sprintf("(Some (mkJust %s %s %s))", e.voteTerm(j.Vote), cListZ(ss), sig)
}
func (e *valEnv) msgTerm(m *gpbft.GMessage) string {
	sig := "None"
	if d, ok := e.sigs[string(m.Signature)]; ok {
		sig = "(Some " + d + ")"
	}
	tk := "None"
	if d, ok := e.tks[string(m.Ticket)]; ok && len(m.Ticket) > 0 {
		tk = "(Some " + d + ")"
	}
	return fmt.Sprintf("(mkG %d %s %s %s %s)", m.Sender, e.voteTerm(m.Vote), sig, tk, e.justTerm(m.Justification))
}
func (e *valEnv) cmtTerm(cm *gpbft.Committee) string {
	var ms []string
	for i, en := range cm.PowerTable.Entries {
		ms = append(ms, fmt.Sprintf("(mkMem %d %d %d)", en.ID, cm.PowerTable.ScaledPower[i], e.keyTok(en.PubKey)))
	}
	return fmt.Sprintf("(mkCmt %s %d)", cList(ms), cm.PowerTable.ScaledTotal)
}

func newValEnv(r *rng) *valEnv {
	e := &valEnv{r: r, ctx: context.Background(), backend: signing.NewFakeBackend(), cmts: map[uint64]*gpbft.Committee{}, t: newTok(),
		sigs: map[string]string{}, aggs: map[string]string{}, tks: map[string]string{}}
	e.supp = gpbft.SupplementalData{PowerTable: ptCid}
	for _, inst := range []uint64{10, 11} {
		n := 3 + r.intn(4)
		var entries gpbft.PowerEntries
		for i := 0; i < n; i++ {
			k, _ := e.backend.GenerateKey()
			pw := int64(5+r.intn(30)) << 20
			if i == n-1 && r.chance(60) {
				pw = 1 // dust: zero scaled power
			}
			entries = append(entries, gpbft.PowerEntry{ID: gpbft.ActorID(100*inst + uint64(i)), Power: gpbft.NewStoragePower(pw), PubKey: k})
		}
		pt := gpbft.NewPowerTable()
		must(pt.Add(entries...))
		agg, err := e.backend.Aggregate(pt.Entries.PublicKeys())
		must(err)
		e.cmts[inst] = &gpbft.Committee{PowerTable: pt, Beacon: []byte(fmt.Sprintf("beacon-%d", inst)), AggregateVerifier: agg}
	}
	base := mkTipset(0, "base")
	e.chains = []*gpbft.ECChain{
		{TipSets: []*gpbft.TipSet{base, mkTipset(1, "a1"), mkTipset(2, "a2")}},
		{TipSets: []*gpbft.TipSet{base, mkTipset(1, "b1")}},
		{TipSets: []*gpbft.TipSet{base}},
	}
	return e
}

func (e *valEnv) invalidChain() *gpbft.ECChain {
	if e.r.bool() {
		return &gpbft.ECChain{TipSets: []*gpbft.TipSet{mkTipset(5, "x"), mkTipset(3, "y")}} // decreasing epochs
	}
	ts := make([]*gpbft.TipSet, gpbft.ChainMaxLen+1)
	for i := range ts {
		ts[i] = mkTipset(int64(i), fmt.Sprintf("l%d", i))
	}
	return &gpbft.ECChain{TipSets: ts}
}

// a justification signed by a random strong quorum (or a chosen signer set) of the instance's committee
func (e *valEnv) justify(nn gpbft.NetworkName, p gpbft.Payload, signers []int) *gpbft.Justification {
	cm := e.cmts[p.Instance]
	if cm == nil {
		cm = e.cmts[10]
	}
	pt := cm.PowerTable
	if signers == nil {
		var pw int64
		for _, i := range shuffled(e.r, len(pt.Entries)) {
			if pt.ScaledPower[i] == 0 {
				continue
			}
			signers = append(signers, i)
			pw += pt.ScaledPower[i]
			if indepStrong(pw, pt.ScaledTotal) && e.r.chance(70) {
				break
			}
		}
	}
	sort.Ints(signers)
	for len(signers) > 0 && signers[len(signers)-1] >= len(pt.Entries) {
		signers = signers[:len(signers)-1] // indices of another instance's (larger) committee
	}
	msg := p.MarshalForSigning(nn)
	bf := bitfield.New()
	var sigs [][]byte
	var keys []int64
	for _, i := range signers {
		s, err := e.backend.Sign(e.ctx, pt.Entries[i].PubKey, msg)
		must(err)
		sigs = append(sigs, s)
		bf.Set(uint64(i))
		keys = append(keys, e.keyTok(pt.Entries[i].PubKey))
	}
	agg, err := e.backend.Aggregate(pt.Entries.PublicKeys())
	must(err)
	sig, err := agg.Aggregate(signers, sigs)
	must(err)
	e.aggs[string(sig)] = fmt.Sprintf("(%s, %s)", cListZ(keys), e.pdesc(nn, p, e.chainKeyTok(p.Value)))
	return &gpbft.Justification{Vote: p, Signers: bf, Signature: sig}
}

// a message built and signed with the production MessageBuilder
func (e *valEnv) build(nn gpbft.NetworkName, senderIdx int, p gpbft.Payload, just *gpbft.Justification, ticket bool) *gpbft.GMessage {
	cm := e.cmts[p.Instance]
	if cm == nil {
		cm = e.cmts[10]
	}
	pt := cm.PowerTable
	en := pt.Entries[senderIdx%len(pt.Entries)]
	mb := &gpbft.MessageBuilder{NetworkName: nn, PowerTable: pt, Payload: p, Justification: just}
	if ticket {
		mb.BeaconForTicket = cm.Beacon
	}
	m, err := mb.Build(e.ctx, e.backend, en.ID)
	must(err)
	e.sigs[string(m.Signature)] = fmt.Sprintf("(%d, %s)", e.keyTok(en.PubKey), e.pdesc(nn, p, e.chainKeyTok(p.Value)))
	if len(m.Ticket) > 0 {
		e.tks[string(m.Ticket)] = fmt.Sprintf("(mkTk %d %d %d %d)", e.keyTok(en.PubKey), netTok(nn), p.Instance, p.Round)
	}
	return m
}

// a VALID message of the given step
func (e *valEnv) validMsg(inst, round uint64, phase gpbft.Phase, value *gpbft.ECChain) *gpbft.GMessage {
	r := e.r
	cm := e.cmts[inst]
	// a sender with non-zero scaled power (a zero-power member cannot sign: MessageBuilder refuses)
	var powered []int
	for i, sp := range cm.PowerTable.ScaledPower {
		if sp > 0 {
			powered = append(powered, i)
		}
	}
	sender := powered[r.intn(len(powered))]
	bottom := &gpbft.ECChain{}
	p := gpbft.Payload{Instance: inst, Round: round, Phase: phase, SupplementalData: e.supp, Value: value}
	var just *gpbft.Justification
	prevJust := func() *gpbft.Justification {
		if r.bool() {
			return e.justify(verifNet, gpbft.Payload{Instance: inst, Round: round - 1, Phase: gpbft.PREPARE_PHASE, SupplementalData: e.supp, Value: value}, nil)
		}
		return e.justify(verifNet, gpbft.Payload{Instance: inst, Round: round - 1, Phase: gpbft.COMMIT_PHASE, SupplementalData: e.supp, Value: bottom}, nil)
	}
	switch phase {
	case gpbft.QUALITY_PHASE:
		p.Round = 0
	case gpbft.PREPARE_PHASE:
		if round > 0 {
			just = prevJust()
		}
	case gpbft.CONVERGE_PHASE:
		if round == 0 {
			p.Round, round = 1, 1
		}
		just = prevJust()
	case gpbft.COMMIT_PHASE:
		if !value.IsZero() {
			just = e.justify(verifNet, gpbft.Payload{Instance: inst, Round: round, Phase: gpbft.PREPARE_PHASE, SupplementalData: e.supp, Value: value}, nil)
		}
	case gpbft.DECIDE_PHASE:
		p.Round = 0
		just = e.justify(verifNet, gpbft.Payload{Instance: inst, Round: uint64(r.intn(4)), Phase: gpbft.COMMIT_PHASE, SupplementalData: e.supp, Value: value}, nil)
	}
	return e.build(verifNet, sender, p, just, phase == gpbft.CONVERGE_PHASE)
}

func cloneMsg(m *gpbft.GMessage) *gpbft.GMessage {
	c := *m
	if m.Justification != nil {
		j := *m.Justification
		c.Justification = &j
	}
	c.Signature = append([]byte{}, m.Signature...)
	c.Ticket = append([]byte{}, m.Ticket...)
	return &c
}

// one field-level corruption or recombination; returns the name of what was done
func (e *valEnv) corrupt(m *gpbft.GMessage, other *gpbft.GMessage) string {
	r := e.r
	cm := e.cmts[m.Vote.Instance]
	if cm == nil {
		cm = e.cmts[10]
	}
	pt := cm.PowerTable
	bottom := &gpbft.ECChain{}
	switch k := r.intn(28); k {
	case 26, 27: // a member with an entry (and a key) in the table but ZERO scaled power, with a correct signature of its own
		for i, sp := range pt.ScaledPower {
			if sp == 0 && m.Vote.Value != nil {
				en := pt.Entries[i]
				m.Sender = en.ID
				sig, err := e.backend.Sign(e.ctx, en.PubKey, m.Vote.MarshalForSigning(verifNet))
				if err != nil {
					return "sender-zero-power"
				}
				m.Signature = sig
				e.sigs[string(sig)] = fmt.Sprintf("(%d, %s)", e.keyTok(en.PubKey), e.pdesc(verifNet, m.Vote, e.chainKeyTok(m.Vote.Value)))
				return "sender-zero-power-signed"
			}
		}
		m.Sender = 999999
		return "sender-unknown"
	case 0:
		m.Sender = 999999
		return "sender-unknown"
	case 1:
		for i, sp := range pt.ScaledPower {
			if sp == 0 {
				m.Sender = pt.Entries[i].ID
				return "sender-zero-power"
			}
		}
		m.Sender = pt.Entries[(pt.Lookup[m.Sender]+1)%len(pt.Entries)].ID
		return "sender-other"
	case 2:
		m.Vote.Instance = []uint64{8, 9, 11, 12, 13}[r.intn(5)]
		return "instance"
	case 3:
		m.Vote.Round += uint64(1 + r.intn(3))
		return "round-up"
	case 4:
		if m.Vote.Round > 0 {
			m.Vote.Round--
		}
		return "round-down"
	case 5:
		m.Vote.Phase = gpbft.Phase(r.intn(8))
		return "phase"
	case 6:
		m.Vote.Value = bottom
		return "value-bottom"
	case 7:
		m.Vote.Value = e.chains[r.intn(len(e.chains))]
		return "value-other"
	case 8:
		m.Vote.Value = e.invalidChain()
		return "value-invalid"
	case 9:
		m.Vote.SupplementalData.Commitments[1] ^= 7
		return "supp"
	case 10:
		if len(m.Signature) > 0 {
			m.Signature[r.intn(len(m.Signature))] ^= 1
		}
		return "sig-garbage"
	case 11:
		m.Signature = append([]byte{}, other.Signature...)
		return "sig-of-other-message"
	case 12: // signature by the same sender over this payload but another network
		if idx, ok := pt.Lookup[m.Sender]; ok && pt.ScaledPower[idx] > 0 && m.Vote.Value != nil && e.cmts[m.Vote.Instance] == cm {
			alt := e.build("other-net", idx, m.Vote, nil, false)
			m.Signature = alt.Signature
		}
		return "sig-other-network"
	case 13:
		m.Ticket = nil
		return "ticket-missing"
	case 14:
		m.Ticket = append([]byte{}, other.Ticket...)
		return "ticket-of-other"
	case 15:
		m.Justification = nil
		return "just-missing"
	case 16:
		m.Justification = other.Justification
		return "just-of-other-message"
	case 17:
		if m.Justification != nil {
			m.Justification.Vote.Phase = gpbft.Phase(1 + r.intn(5))
		}
		return "just-phase"
	case 18:
		if m.Justification != nil {
			if r.bool() && m.Justification.Vote.Round > 0 {
				m.Justification.Vote.Round -= uint64(1 + r.intn(int(m.Justification.Vote.Round)))
			} else {
				m.Justification.Vote.Round += uint64(1 + r.intn(2))
			}
		}
		return "just-round"
	case 19:
		if m.Justification != nil {
			m.Justification.Vote.Instance++
		}
		return "just-instance"
	case 20:
		if m.Justification != nil {
			m.Justification.Vote.Value = e.chains[r.intn(len(e.chains))]
		}
		return "just-value"
	case 21:
		if m.Justification != nil { // honestly signed by too few
			var few []int
			var pw int64
			for _, i := range shuffled(r, len(pt.Entries)) {
				if pt.ScaledPower[i] > 0 && !indepStrong(pw+pt.ScaledPower[i], pt.ScaledTotal) {
					few = append(few, i)
					pw += pt.ScaledPower[i]
				}
			}
			if len(few) > 0 {
				m.Justification = e.justify(verifNet, m.Justification.Vote, few)
			}
		}
		return "just-below-quorum"
	case 22:
		if m.Justification != nil {
			bf, _ := m.Justification.Signers.Copy()
			if r.bool() {
				bf.Set(uint64(len(pt.Entries) + r.intn(3)))
			} else {
				bf.Set(uint64(r.intn(len(pt.Entries))))
			}
			m.Justification.Signers = bf
		}
		return "just-signers"
	case 23:
		if m.Justification != nil {
			m.Justification.Signature = append([]byte{}, m.Justification.Signature...)
			m.Justification.Signature[r.intn(len(m.Justification.Signature))] ^= 1
		}
		return "just-sig-garbage"
	case 24:
		if m.Justification != nil {
			m.Justification.Vote.SupplementalData.Commitments[2] ^= 9
		}
		return "just-supp"
	default:
		if m.Justification != nil {
			m.Justification.Vote.Value = e.invalidChain()
		}
		return "just-value-invalid"
	}
}

// declValid: the validity rules of the property statement, evaluated independently of the validator (own table
// look-ups, own signature checks against the backend).  Returns "" if the message is valid, else the first broken rule.
func (e *valEnv) declValid(m *gpbft.GMessage) string { return e.declValidX(m, false) }

// keysOnly: ignore what can only be judged once the chains themselves are known (well-formedness of the values)
func (e *valEnv) declValidX(m *gpbft.GMessage, keysOnly bool) string {
	cm := e.cmts[m.Vote.Instance]
	if cm == nil {
		return "no-committee"
	}
	pt := cm.PowerTable
	idx, ok := pt.Lookup[m.Sender]
	if !ok || pt.ScaledPower[idx] == 0 {
		return "sender"
	}
	key := pt.Entries[idx].PubKey
	v := m.Vote
	if !keysOnly && v.Value.Validate() != nil {
		return "value-malformed"
	}
	bottom := v.Value.IsZero()
	switch v.Phase {
	case gpbft.QUALITY_PHASE:
		if v.Round != 0 || bottom {
			return "quality-constraints"
		}
	case gpbft.CONVERGE_PHASE:
		if v.Round == 0 || bottom {
			return "converge-constraints"
		}
		if !gpbft.VerifyTicket(verifNet, cm.Beacon, v.Instance, v.Round, key, e.backend, m.Ticket) {
			return "ticket"
		}
	case gpbft.DECIDE_PHASE:
		if v.Round != 0 || bottom {
			return "decide-constraints"
		}
	case gpbft.PREPARE_PHASE, gpbft.COMMIT_PHASE:
	default:
		return "phase"
	}
	if e.backend.Verify(key, v.MarshalForSigning(verifNet), m.Signature) != nil {
		return "signature"
	}
	needs := !(v.Phase == gpbft.QUALITY_PHASE || (v.Phase == gpbft.PREPARE_PHASE && v.Round == 0) || (v.Phase == gpbft.COMMIT_PHASE && bottom))
	j := m.Justification
	if !needs {
		if j != nil {
			return "unexpected-justification"
		}
		return ""
	}
	if j == nil {
		return "missing-justification"
	}
	if j.Vote.Instance != v.Instance || !j.Vote.SupplementalData.Eq(&v.SupplementalData) || (!keysOnly && j.Vote.Value.Validate() != nil) {
		return "justification-header"
	}
	okShape := false
	switch v.Phase {
	case gpbft.CONVERGE_PHASE, gpbft.PREPARE_PHASE:
		okShape = j.Vote.Round+1 == v.Round && ((j.Vote.Phase == gpbft.COMMIT_PHASE && j.Vote.Value.IsZero()) || (j.Vote.Phase == gpbft.PREPARE_PHASE && j.Vote.Value.Eq(v.Value)))
	case gpbft.COMMIT_PHASE:
		okShape = j.Vote.Round == v.Round && j.Vote.Phase == gpbft.PREPARE_PHASE && j.Vote.Value.Eq(v.Value)
	case gpbft.DECIDE_PHASE:
		okShape = j.Vote.Phase == gpbft.COMMIT_PHASE && j.Vote.Value.Eq(v.Value)
	}
	if !okShape {
		return "justification-shape"
	}
	var pw int64
	var mask []int
	bad := false
	_ = j.Signers.ForEach(func(b uint64) error {
		if int(b) >= len(pt.Entries) || pt.ScaledPower[b] == 0 {
			bad = true
			return nil
		}
		pw += pt.ScaledPower[b]
		mask = append(mask, int(b))
		return nil
	})
	if bad || 3*pw < 2*pt.ScaledTotal {
		return "justification-quorum"
	}
	if cm.AggregateVerifier.VerifyAggregate(mask, j.Vote.MarshalForSigning(verifNet), j.Signature) != nil {
		return "justification-aggregate"
	}
	return ""
}

// relevant: still of interest to a participant at this progress (the property's "relevant to the current instance, round and step")
func relevantTo(p gpbft.Instant, m *gpbft.GMessage) bool {
	if m.Vote.Instance != p.ID {
		return false
	}
	if p.Phase == gpbft.DECIDE_PHASE {
		return m.Vote.Phase == gpbft.DECIDE_PHASE
	}
	return m.Vote.Phase == gpbft.QUALITY_PHASE || m.Vote.Phase == gpbft.DECIDE_PHASE || m.Vote.Round >= p.Round || m.Vote.Round+1 == p.Round
}

func verdictCode(err error) int {
	switch {
	case err == nil:
		return 0
	case errors.Is(err, gpbft.ErrValidationInvalid):
		return 1
	case errors.Is(err, gpbft.ErrValidationNoCommittee):
		return 2
	case errors.Is(err, gpbft.ErrValidationNotRelevant):
		return 3
	case errors.Is(err, gpbft.ErrValidationTooOld):
		return 4
	}
	return -1
}

func msgBytes(m *gpbft.GMessage) []byte {
	var b bytes.Buffer
	if err := m.MarshalCBOR(&b); err != nil {
		return nil
	}
	return b.Bytes()
}

func runValidator(o *out, r *rng, thorough bool, pid string) {
	o.Rule = "histories of validation calls on ONE long-lived real cachingValidator (accessor: own progress function, small caches so that eviction happens) vs a FRESH validator per call: valid messages of every step/round built with the production MessageBuilder, each with 0-2 field-level corruptions or recombinations (26 kinds: sender, instance, round, step, value incl. invalid chains, supplemental data, signature over another payload/network, ticket, justification shape/round/instance/value/signers at the 2/3 boundary/out of range/zero power/aggregate), replays of valid twins before and after their forged variants; one-shot, partial, and two-stage (strip with production ToPartialGMessage, announced key matching/zero/mismatching/other, completion with the original/another/an invalid chain through the production inferJustificationVoteValue); every verdict is compared with the Validator.v model inside Coq; non-trivial = history contains accepted and rejected calls; the two-stage path is also completed with the EMPTY chain; validations whose context is cancelled from inside the signature verifier (a valid message must not be branded invalid, and is accepted afterwards); random histories on the real caching.GroupedSet (capacities 1..3) compared with Gpbft/CacheModel.v"
	nh := 90
	if thorough {
		nh = 600
	}
	for hi := 0; hi < nh; hi++ {
		e := newValEnv(r)
		prog := gpbft.InstanceProgress{}
		cacheSet := 6 + r.intn(40)
		v := gpbft.VerifNewValidator(verifNet, e.backend, valCP{e}, func() gpbft.InstanceProgress { return prog }, caching.NewGroupedSet(2, cacheSet), 2)
		fresh := func() *gpbft.VerifValidator {
			return gpbft.VerifNewValidator(verifNet, e.backend, valCP{e}, func() gpbft.InstanceProgress { return prog }, caching.NewGroupedSet(4, 1000), 2)
		}
		var ops, desc []string
		viol := func(clause, sig, detail string) {
			o.violate(clause, sig, map[string]any{"history": append([]string{}, desc...)}, detail)
		}
		var pool []*gpbft.GMessage // messages seen so far (for replays and recombination)
		accepted, rejected := 0, 0
		steps := 12 + r.intn(30)
		for st := 0; st < steps; st++ {
			prog = gpbft.InstanceProgress{Instant: gpbft.Instant{ID: []uint64{9, 10, 10, 10, 11, 12}[r.intn(6)], Round: uint64(r.intn(4)), Phase: gpbft.Phase(1 + r.intn(5))}}
			var m *gpbft.GMessage
			kind := "valid"
			if len(pool) > 0 && r.chance(25) {
				m = cloneMsg(pool[r.intn(len(pool))])
				kind = "replay"
			} else {
				inst := []uint64{10, 10, 11}[r.intn(3)]
				round := uint64(0)
				switch r.intn(4) {
				case 0:
					round = prog.Round
				case 1:
					round = prog.Round + 1
				case 2:
					round = uint64(r.intn(5))
				}
				ph := gpbft.Phase(1 + r.intn(5))
				val := e.chains[r.intn(len(e.chains))]
				if ph == gpbft.COMMIT_PHASE && r.chance(40) {
					val = &gpbft.ECChain{}
				}
				if ph == gpbft.PREPARE_PHASE && r.chance(10) {
					val = &gpbft.ECChain{}
				}
				m = e.validMsg(inst, round, ph, val)
			}
			if r.chance(55) {
				other := m
				if len(pool) > 0 {
					other = pool[r.intn(len(pool))]
				}
				kind += "+" + e.corrupt(m, other)
				if r.chance(20) {
					kind += "+" + e.corrupt(m, other)
				}
			}
			if m.Vote.Value == nil {
				m.Vote.Value = &gpbft.ECChain{}
			}
			if kind == "valid" && m.Justification == nil && (m.Vote.Phase == gpbft.QUALITY_PHASE || m.Vote.Phase == gpbft.PREPARE_PHASE) && r.chance(12) {
				// a vote for a MALFORMED chain, genuinely signed over that chain's key: whoever sees only the key cannot tell;
				// once the chain is known the message must be rejected (on either path)
				if cm := e.cmts[m.Vote.Instance]; cm != nil {
					if idx, ok := cm.PowerTable.Lookup[m.Sender]; ok {
						p2 := m.Vote
						p2.Value = e.invalidChain()
						m = e.build(verifNet, idx, p2, nil, false)
						kind = "value-invalid-signed"
					}
				}
			}
			if r.chance(70) {
				// a progress state for which the message is relevant (same instance, its round or the next, not in DECIDE)
				pr := m.Vote.Round
				if r.chance(30) {
					pr++
				} else if r.chance(20) && pr > 0 {
					pr = uint64(r.intn(int(pr)))
				}
				prog = gpbft.InstanceProgress{Instant: gpbft.Instant{ID: m.Vote.Instance, Round: pr, Phase: gpbft.Phase(1 + r.intn(4))}}
				if r.chance(10) && m.Vote.Instance > 0 {
					prog.ID = m.Vote.Instance - 1 // a message of the next instance
				}
			}
			progTerm := fmt.Sprintf("(mkProg %d %d %d)", prog.ID, prog.Round, int(prog.Phase))
			pool = append(pool, cloneMsg(m))
			mode := r.intn(10)
			if pid == "C13" {
				mode = 5 + r.intn(5)
			}
			switch {
			case mode < 5: // one-shot
				_, err := v.Validate(e.ctx, m)
				code := verdictCode(err)
				_, errF := fresh().Validate(e.ctx, m)
				if verdictCode(errF) != code {
					viol("the verdict depends only on the message, the committee and the current progress, never on which messages were validated earlier", "c05-history-dependent",
						fmt.Sprintf("%s: warm validator %v, fresh validator %v", kind, err, errF))
				}
				if code < 0 {
					viol("verdicts are classified", "c05-unknown-error", err.Error())
				}
				why := e.declValid(m)
				if code == 0 && why != "" {
					viol("a consensus message is accepted only if it satisfies every protocol validity rule for its step", "c05-unsound-accept", fmt.Sprintf("%s accepted although: %s", kind, why))
				}
				if why == "" && code == 1 {
					viol("no valid message is ever branded invalid", "c05-valid-branded-invalid", fmt.Sprintf("%s: %v", kind, err))
				}
				if why == "" && relevantTo(prog.Instant, m) && code != 0 {
					viol("every valid message that is still relevant to the current instance, round and step is accepted", "c05-relevant-valid-rejected", fmt.Sprintf("%s @%v: %v", kind, prog.Instant, err))
				}
				ops = append(ops, fmt.Sprintf("(%s, OFull %s, %d)", progTerm, e.msgTerm(m), code))
				desc = append(desc, fmt.Sprintf("validate[%s] %s r%d i%d @%v -> %d", kind, m.Vote.Phase, m.Vote.Round, m.Vote.Instance, prog.Instant, code))
				if code == 0 {
					accepted++
				} else {
					rejected++
				}
			default: // partial / two-stage
				orig := cloneMsg(m)
				pg, err := pmsg.VerifStrip(m)
				must(err)
				// strip(m) completed with the original chain reproduces m
				if !orig.Vote.Value.IsZero() {
					cp := *pg
					g := *pg.GMessage
					cp.GMessage = &g
					if g.Justification != nil {
						j := *g.Justification
						cp.GMessage.Justification = &j
					}
					back := pmsg.VerifComplete(&cp, orig.Vote.Value)
					legit := orig.Justification == nil || orig.Justification.Vote.Value.IsZero() || orig.Justification.Vote.Value.Eq(orig.Vote.Value)
					if legit && kind == "valid" && !bytes.Equal(msgBytes(back), msgBytes(orig)) {
						viol("stripping a valid message to its partial form and completing it with the original chain reproduces the original message", "c13-strip-complete", kind)
					}
				}
				// announced key: as stripped, zero, or another chain's
				keyKind := "key-ok"
				switch r.intn(8) {
				case 0:
					pg.VoteValueKey = gpbft.ECChainKey{}
					keyKind = "key-zero"
				case 1:
					pg.VoteValueKey = e.chains[r.intn(len(e.chains))].Key()
					keyKind = "key-other"
				}
				// occasionally an unstripped / odd wire form
				if r.chance(8) {
					pg.Vote.Value = e.chains[r.intn(len(e.chains))]
					keyKind += "+wire-value"
				}
				if r.chance(12) && pg.Justification != nil {
					j := *pg.Justification
					j.Vote.Value = e.chains[r.intn(len(e.chains))]
					pg.GMessage.Justification = &j
					keyKind += "+wire-just-value"
				} else if pg.Justification != nil && pg.Justification.Vote.Phase == gpbft.COMMIT_PHASE && !orig.Vote.Value.IsZero() &&
					(orig.Vote.Phase == gpbft.PREPARE_PHASE || orig.Vote.Phase == gpbft.CONVERGE_PHASE) && r.chance(35) {
					// attacker-shaped wire form: the COMMIT-for-bottom justification of a later-round PREPARE / CONVERGE carries the
					// vote's own chain as its value (the aggregate is the genuine one over bottom)
					j := *pg.Justification
					j.Vote.Value = orig.Vote.Value
					pg.GMessage.Justification = &j
					keyKind += "+wire-just-value-own"
				}
				wire := cloneMsg(pg.GMessage)
				ktok := e.keyTokOfKey(pg.VoteValueKey)
				pv, perr := v.PartiallyValidate(e.ctx, pg)
				pcode := verdictCode(perr)
				if keyKind == "key-ok" {
					// honest wire form of `orig`: the partial verdict must agree with the validity rules on orig
					// what the wire form stands for: the message reconstructed from it with the sender's chain
					cpw := gpbft.PartialGMessage{GMessage: cloneMsg(wire), VoteValueKey: pg.VoteValueKey}
					recon := pmsg.VerifComplete(&cpw, orig.Vote.Value)
					why := e.declValidX(recon, true)
					if pcode == 0 && why != "" {
						viol("a consensus message is accepted only if it satisfies every protocol validity rule for its step", "c05-unsound-accept", fmt.Sprintf("partial validation accepted %s although: %s", kind, why))
					}
					if why == "" && pcode == 1 {
						viol("no valid message is ever branded invalid", "c05-valid-branded-invalid", fmt.Sprintf("partial %s: %v", kind, perr))
					}
					if why == "" && relevantTo(prog.Instant, recon) && pcode != 0 {
						viol("every valid message that is still relevant to the current instance, round and step is accepted", "c05-relevant-valid-rejected", fmt.Sprintf("partial %s @%v: %v", kind, prog.Instant, perr))
					}
				}
				if mode < 7 || pcode != 0 {
					_, errF := fresh().PartiallyValidate(e.ctx, &gpbft.PartialGMessage{GMessage: cloneMsg(wire), VoteValueKey: pg.VoteValueKey})
					if verdictCode(errF) != pcode {
						viol("the verdict depends only on the message, the committee and the current progress, never on which messages were validated earlier", "c05-history-dependent",
							fmt.Sprintf("partial %s/%s: warm %v fresh %v", kind, keyKind, perr, errF))
					}
					ops = append(ops, fmt.Sprintf("(%s, OPartial %s %d, %d)", progTerm, e.msgTerm(wire), ktok, pcode))
					desc = append(desc, fmt.Sprintf("partial[%s %s] %s r%d i%d @%v -> %d", kind, keyKind, m.Vote.Phase, m.Vote.Round, m.Vote.Instance, prog.Instant, pcode))
					if pcode == 0 {
						accepted++
					} else {
						rejected++
					}
					break
				}
				// completion
				x := orig.Vote.Value
				xKind := "chain-original"
				switch r.intn(8) {
				case 0:
					x = e.chains[r.intn(len(e.chains))]
					xKind = "chain-other"
				case 1:
					x = e.invalidChain()
					xKind = "chain-invalid"
				case 2:
					// the announced (non-zero) key is answered with the empty chain: a vote for bottom must not get through
					x = &gpbft.ECChain{}
					xKind = "chain-empty"
				}
				if x.IsZero() && xKind != "chain-empty" {
					x = e.chains[2]
					xKind = "chain-base"
				}
				completed := pmsg.VerifComplete(pg, x)
				_, ferr := v.FullyValidate(e.ctx, pv)
				fcode := verdictCode(ferr)
				ops = append(ops, fmt.Sprintf("(%s, OTwo %s %d %s, %d)", progTerm, e.msgTerm(wire), ktok, e.chainTerm(x), fcode))
				desc = append(desc, fmt.Sprintf("two-stage[%s %s %s] %s r%d i%d @%v -> %d", kind, keyKind, xKind, m.Vote.Phase, m.Vote.Round, m.Vote.Instance, prog.Instant, fcode))
				if fcode == 0 {
					accepted++
					if why := e.declValid(completed); why != "" {
						viol("a consensus message is accepted only if it satisfies every protocol validity rule for its step", "c05-unsound-accept", fmt.Sprintf("two-stage validation accepted %s/%s/%s although: %s", kind, keyKind, xKind, why))
					}
					// never admits what one-shot validation of the completed message rejects, nor a chain with another key
					if _, err1 := fresh().Validate(e.ctx, completed); err1 != nil {
						viol("two-stage validation accepts only messages that one-shot validation of the completed message accepts", "c13-two-stage-admits-more",
							fmt.Sprintf("%s/%s/%s: one-shot says %v", kind, keyKind, xKind, err1))
					}
					if pg.VoteValueKey != completed.Vote.Value.Key() {
						viol("a chain whose key differs from the announced key is never admitted through the two-stage path", "c13-key-mismatch-admitted", keyKind+"/"+xKind)
					}
				} else {
					rejected++
					// one-shot acceptance of the completed message with a matching key must be matched by the two-stage path
					if _, err1 := fresh().Validate(e.ctx, completed); err1 == nil && pg.VoteValueKey == completed.Vote.Value.Key() && !strings.Contains(keyKind, "wire-value") {
						viol("two-stage validation accepts every message that one-shot validation of the completed message accepts", "c13-two-stage-admits-less",
							fmt.Sprintf("%s/%s/%s: two-stage says %v", kind, keyKind, xKind, ferr))
					}
				}
			}
		}
		// scripted: a genuine quorum justification for value A, once validated in partial form, must not carry a vote
		// for value B (same sender set, same round): the stripped justification bytes are identical for both
		for _, ph := range []gpbft.Phase{gpbft.COMMIT_PHASE, gpbft.DECIDE_PHASE, gpbft.CONVERGE_PHASE} {
			a, bch := e.chains[0], e.chains[1]
			rd := uint64(1 + r.intn(3))
			mA := e.validMsg(10, rd, ph, a)
			if ph != gpbft.COMMIT_PHASE && ph != gpbft.DECIDE_PHASE && mA.Justification.Vote.Phase != gpbft.PREPARE_PHASE {
				continue // CONVERGE justified by COMMIT-bottom does not bind a value
			}
			prog = gpbft.InstanceProgress{Instant: gpbft.Instant{ID: 10, Round: mA.Vote.Round, Phase: gpbft.PREPARE_PHASE}}
			progTerm := fmt.Sprintf("(mkProg %d %d %d)", prog.ID, prog.Round, int(prog.Phase))
			pgA, err := pmsg.VerifStrip(cloneMsg(mA))
			must(err)
			wireA := cloneMsg(pgA.GMessage)
			_, errA := v.PartiallyValidate(e.ctx, pgA)
			ops = append(ops, fmt.Sprintf("(%s, OPartial %s %d, %d)", progTerm, e.msgTerm(wireA), e.keyTokOfKey(pgA.VoteValueKey), verdictCode(errA)))
			desc = append(desc, fmt.Sprintf("partial[scripted honest %s for A] -> %d", ph, verdictCode(errA)))
			// the forged twin: the same sender's genuinely signed vote for B with A's justification
			pB := mA.Vote
			pB.Value = bch
			idx := e.cmts[10].PowerTable.Lookup[mA.Sender]
			mB := e.build(verifNet, idx, pB, mA.Justification, ph == gpbft.CONVERGE_PHASE)
			pgB, err := pmsg.VerifStrip(cloneMsg(mB))
			must(err)
			wireB := cloneMsg(pgB.GMessage)
			_, errB := v.PartiallyValidate(e.ctx, pgB)
			_, errF := fresh().PartiallyValidate(e.ctx, &gpbft.PartialGMessage{GMessage: cloneMsg(wireB), VoteValueKey: pgB.VoteValueKey})
			if verdictCode(errB) != verdictCode(errF) {
				viol("the verdict depends only on the message, the committee and the current progress, never on which messages were validated earlier", "c05-history-dependent",
					fmt.Sprintf("%s for B carrying the quorum justification of A: warm validator %v, fresh validator %v", ph, errB, errF))
			}
			if errB == nil {
				viol("a justification for a different value is never admitted through the two-stage path", "c13-justification-for-other-value",
					fmt.Sprintf("partial validation accepted %s for B justified by a quorum for A", ph))
			}
			ops = append(ops, fmt.Sprintf("(%s, OPartial %s %d, %d)", progTerm, e.msgTerm(wireB), e.keyTokOfKey(pgB.VoteValueKey), verdictCode(errB)))
			desc = append(desc, fmt.Sprintf("partial[scripted %s for B with A's justification] -> %d", ph, verdictCode(errB)))
		}
		// concurrent validation of the pool on the warm validator equals sequential fresh verdicts
		if pid == "C05" && len(pool) > 0 {
			prog = gpbft.InstanceProgress{Instant: gpbft.Instant{ID: 10, Round: 1, Phase: gpbft.PREPARE_PHASE}}
			want := make([]int, len(pool))
			for i, m := range pool {
				_, err := fresh().Validate(e.ctx, cloneMsg(m))
				want[i] = verdictCode(err)
			}
			var wg sync.WaitGroup
			got := make([][]int, 4)
			for g := 0; g < 4; g++ {
				got[g] = make([]int, len(pool))
				wg.Add(1)
				go func(g int) {
					defer wg.Done()
					for i, m := range pool {
						_, err := v.Validate(e.ctx, cloneMsg(m))
						got[g][i] = verdictCode(err)
					}
				}(g)
			}
			wg.Wait()
			for g := range got {
				for i := range pool {
					if got[g][i] != want[i] {
						viol("concurrent validation yields the same verdicts", "c05-concurrent-verdict", fmt.Sprintf("message %d: %d vs %d", i, got[g][i], want[i]))
					}
				}
			}
		}
		// scripted interleaving (logical concurrency made deterministic): validation of a VALID message is held inside
		// signature verification while a forged twin (same size, broken signature) is validated and rejected on the same
		// long-lived validator; once the first call completes, the forged twin must still be rejected -- the verdict
		// cached by one call must never be attributable to another message.
		if pid == "C05" && hi%4 == 0 && os.Getenv("VERIF_SKIP_INFLIGHT") == "" {
			inFlightScenario(o, e, r)
			ctxEndsScenario(o, e, r)
		}
		cs := cList([]string{cPair("10", e.cmtTerm(e.cmts[10])), cPair("11", e.cmtTerm(e.cmts[11]))})
		o.coqCase(fmt.Sprintf("history %d: %s", hi, strings.Join(desc, " | ")), fmt.Sprintf("val_history_ok 1 %s 2 %s", cs, cList(ops)))
		o.count(pid+"-history", strings.Join(ops, ";"), accepted > 0 && rejected > 0)
		o.Dist[fmt.Sprintf("accepted-%d", min(accepted/5*5, 20))]++
		if hi < 1 {
			o.sample(map[string]any{"history": desc})
		}
	}
	runCacheCorrespondence(o, r, thorough)
	o.finish("From F3 Require CacheModel.\nFrom F3 Require Import GoInt QuorumGen ProgressGen Validator ValidatorRun.")
}

// the real internal/caching.GroupedSet against Gpbft/CacheModel.v: every boolean it returns, over random histories of
// Add / Contains / RemoveGroupsLessThan with small capacities (generations inside a Set, least-recently-used group
// eviction, pooled Sets re-used for new groups)
func runCacheCorrespondence(o *out, r *rng, thorough bool) {
	n := 40
	if thorough {
		n = 400
	}
	for i := 0; i < n; i++ {
		mg := 1 + r.intn(3)
		ms := 1 + r.intn(3)
		gs := caching.NewGroupedSet(mg, ms)
		var ops []string
		added := map[string]bool{}
		steps := 10 + r.intn(50)
		for st := 0; st < steps; st++ {
			g := uint64(r.intn(5))
			ns := []byte{byte('a' + r.intn(2))}
			v := []byte{byte(r.intn(6))}
			key := int(ns[0]-'a')*100 + int(v[0])
			switch c := r.intn(100); {
			case c < 50:
				got, err := gs.Add(g, ns, v)
				must(err)
				ops = append(ops, fmt.Sprintf("(CacheModel.CAdd %d %d, %s)", g, key, cBool(got)))
				if !got && !added[fmt.Sprint(g, key)] {
					o.violate("the verdict never depends on which messages were validated earlier: the cache answers 'already validated' only for what was added", "c05-cache-phantom-entry",
						map[string]any{"history": ops}, fmt.Sprintf("Add(%d, %d) reported an existing entry that was never added", g, key))
				}
				added[fmt.Sprint(g, key)] = true
			case c < 90:
				got, err := gs.Contains(g, ns, v)
				must(err)
				ops = append(ops, fmt.Sprintf("(CacheModel.CContains %d %d, %s)", g, key, cBool(got)))
				if got && !added[fmt.Sprint(g, key)] {
					o.violate("the verdict never depends on which messages were validated earlier: the cache answers 'already validated' only for what was added", "c05-cache-phantom-entry",
						map[string]any{"history": ops}, fmt.Sprintf("Contains(%d, %d) is true although it was never added", g, key))
				}
			default:
				b := uint64(r.intn(6))
				got := gs.RemoveGroupsLessThan(b)
				ops = append(ops, fmt.Sprintf("(CacheModel.CRemoveLt %d, %s)", b, cBool(got)))
			}
		}
		o.coqCase(fmt.Sprintf("cache history %d (groups %d, set size %d)", i, mg, ms), fmt.Sprintf("CacheModel.crun_ok %d%%nat %d%%nat CacheModel.g_empty %s", mg, ms, cList(ops)))
		o.count("cache-history", strings.Join(ops, ";"), true)
	}
}

// gateVerifier lets the first signature verification after arm() block until release() is called.
type gateVerifier struct {
	inner   gpbft.Verifier
	mu      sync.Mutex
	armed   bool
	entered chan struct{}
	gate    chan struct{}
}

func (g *gateVerifier) Verify(pk gpbft.PubKey, msg, sig []byte) error {
	g.mu.Lock()
	hold := g.armed
	g.armed = false
	g.mu.Unlock()
	if hold {
		close(g.entered)
		<-g.gate
	}
	return g.inner.Verify(pk, msg, sig)
}
func (g *gateVerifier) Aggregate(pks []gpbft.PubKey) (gpbft.Aggregate, error) {
	return g.inner.Aggregate(pks)
}

func inFlightScenario(o *out, e *valEnv, r *rng) {
	prev := runtime.GOMAXPROCS(1) // one P: pooled per-P scratch state is shared by the two validations
	defer runtime.GOMAXPROCS(prev)
	prog := gpbft.InstanceProgress{Instant: gpbft.Instant{ID: 10, Round: 0, Phase: gpbft.QUALITY_PHASE}}
	for _, ph := range []gpbft.Phase{gpbft.QUALITY_PHASE, gpbft.PREPARE_PHASE, gpbft.COMMIT_PHASE} {
		round := uint64(0)
		if ph != gpbft.QUALITY_PHASE {
			round = uint64(r.intn(2))
		}
		prog.Round, prog.Phase = round, ph
		valid := e.validMsg(10, round, ph, e.chains[r.intn(2)])
		forged := cloneMsg(valid)
		forged.Signature[r.intn(len(forged.Signature))] ^= 0x5a
		gv := &gateVerifier{inner: e.backend, entered: make(chan struct{}), gate: make(chan struct{})}
		w := gpbft.VerifNewValidator(verifNet, gv, valCP{e}, func() gpbft.InstanceProgress { return prog }, caching.NewGroupedSet(4, 1000), 2)
		fresh := gpbft.VerifNewValidator(verifNet, e.backend, valCP{e}, func() gpbft.InstanceProgress { return prog }, caching.NewGroupedSet(4, 1000), 2)
		_, wantF := fresh.Validate(e.ctx, cloneMsg(forged))
		_, wantV := fresh.Validate(e.ctx, cloneMsg(valid))
		gv.mu.Lock()
		gv.armed = true
		gv.mu.Unlock()
		done := make(chan error, 1)
		go func() {
			_, err := w.Validate(e.ctx, cloneMsg(valid))
			done <- err
		}()
		select {
		case <-gv.entered:
		case err := <-done: // no signature verification happened (e.g. zero-power sender): nothing in flight
			_ = err
			continue
		}
		_, errMid := w.Validate(e.ctx, cloneMsg(forged)) // validated while the valid one is in flight
		close(gv.gate)
		errV := <-done
		_, errAfter := w.Validate(e.ctx, cloneMsg(forged))
		in := map[string]any{"phase": ph.String(), "round": round, "scenario": "valid message held in signature verification; forged twin validated meanwhile, then again"}
		if verdictCode(errMid) != verdictCode(wantF) || verdictCode(errAfter) != verdictCode(wantF) || verdictCode(errV) != verdictCode(wantV) {
			o.violate("the verdict depends only on the message, the committee and the current progress, never on which messages were validated earlier (nor concurrently)",
				"c05-in-flight-verdict", in,
				fmt.Sprintf("forged twin: fresh validator %v; long-lived validator during the in-flight validation %v, afterwards %v; valid message %v (fresh %v)", wantF, errMid, errAfter, errV, wantV))
		}
		o.count("C05-in-flight", fmt.Sprint(ph, round), true)
	}
}

// cancelVerifier ends the validation's context from inside the first signature verification (the caller gave up, the
// deadline passed): whatever the validator then reports, a VALID message must not be branded invalid -- peers are
// penalised for invalid messages -- and the same message must be accepted when validated again.
type cancelVerifier struct {
	inner  gpbft.Verifier
	mu     sync.Mutex
	cancel context.CancelFunc
}

func (c *cancelVerifier) Verify(pk gpbft.PubKey, msg, sig []byte) error {
	c.mu.Lock()
	if c.cancel != nil {
		c.cancel()
		c.cancel = nil
	}
	c.mu.Unlock()
	return c.inner.Verify(pk, msg, sig)
}
func (c *cancelVerifier) Aggregate(pks []gpbft.PubKey) (gpbft.Aggregate, error) {
	return c.inner.Aggregate(pks)
}

func ctxEndsScenario(o *out, e *valEnv, r *rng) {
	for _, ph := range []gpbft.Phase{gpbft.QUALITY_PHASE, gpbft.PREPARE_PHASE, gpbft.CONVERGE_PHASE, gpbft.COMMIT_PHASE, gpbft.DECIDE_PHASE} {
		round := uint64(0)
		if ph == gpbft.PREPARE_PHASE || ph == gpbft.COMMIT_PHASE {
			round = uint64(r.intn(3))
		}
		if ph == gpbft.CONVERGE_PHASE {
			round = uint64(1 + r.intn(2))
		}
		prog := gpbft.InstanceProgress{Instant: gpbft.Instant{ID: 10, Round: round, Phase: gpbft.QUALITY_PHASE}}
		valid := e.validMsg(10, round, ph, e.chains[r.intn(2)])
		if e.declValid(valid) != "" {
			continue
		}
		cv := &cancelVerifier{inner: e.backend}
		w := gpbft.VerifNewValidator(verifNet, cv, valCP{e}, func() gpbft.InstanceProgress { return prog }, caching.NewGroupedSet(4, 1000), 2)
		for _, how := range []string{"cancelled", "cancelled-again"} {
			ctx, cancel := context.WithCancel(e.ctx)
			cv.mu.Lock()
			cv.cancel = cancel
			cv.mu.Unlock()
			_, err1 := w.Validate(ctx, cloneMsg(valid))
			cancel()
			_, err2 := w.Validate(e.ctx, cloneMsg(valid))
			in := map[string]any{"phase": ph.String(), "round": round, "justified": valid.Justification != nil, "scenario": "the validation's context ends while the sender's signature is being verified"}
			if verdictCode(err1) == 1 {
				o.violate("no valid message is ever branded invalid", "c05-valid-branded-invalid", in, fmt.Sprintf("context %s mid-validation: %v", how, err1))
			}
			if err2 != nil {
				o.violate("the verdict depends only on the message, the committee and the current progress, never on which messages were validated earlier",
					"c05-history-dependent", in, fmt.Sprintf("after a validation cut short by its context the valid message is rejected: %v", err2))
			}
			o.count("C05-context-ends", fmt.Sprint(ph, round, how), true)
		}
	}
}
