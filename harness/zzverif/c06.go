//go:build verif

package main

import (
	"fmt"
	"strings"
	"time"

	"github.com/filecoin-project/go-f3/gpbft"
)

func init() { runners["C06"] = runC06 }

// C06: termination once the network is timely
func runC06(o *out, r *rng, thorough bool, rp string) {
	o.Rule = "multi-node executions of REAL participants: an arbitrary prefix (delay/reorder up to 40s, drops of re-broadcasts only, staggered starts, Byzantine identities < 1/3 sending validly signed equivocations / foreign CONVERGEs / recombined justifications / injected DECIDEs), then stabilisation (every message within the synchrony bound, adversary silent, every honest participant started); monitors: every started honest participant decides, within rounds-at-stabilisation + 6 if no Byzantine message was ever sent, + 40 otherwise; a run that ends with undecided participants, nothing in flight and no alarm pending is a stall; single-participant event traces (alarms at or after their time) are replayed against Layer N inside Coq so that the timer state machine of the model is the code's; non-trivial = run left round 0 before stabilisation or had Byzantine traffic"
	runs := 100
	if thorough {
		runs = 1200
	}
	for i := 0; i < runs; i++ {
		var local []violation
		viol := func(clause, sig, detail string) {
			local = append(local, violation{Clause: clause, Signature: sig, Detail: detail})
		}
		var res *simResult
		if i%10 == 9 {
			res = lateQualityScenario(r, viol)
			o.Dist["late-quality-scenario"]++
		} else if i%10 == 7 {
			res = lateStarterScenario(r, viol)
			o.Dist["late-starter-scenario"]++
		} else if i%10 == 4 {
			res = splitRoundsScenario(r, viol)
			o.Dist["split-rounds-scenario"]++
		} else if i%10 == 2 {
			res = lateStarterRoundsScenario(r, viol)
			o.Dist["late-starter-rounds-scenario"]++
		} else {
			res = simScenario(r, viol)
		}
		bound := res.roundAtStab + 6
		if res.byzVotes > 0 {
			bound = res.roundAtStab + 40
		}
		res.desc["round_at_stabilisation"] = res.roundAtStab
		res.desc["bound"] = bound
		var st []string
		for _, nd := range res.g.nodes {
			if nd.honest && nd.started {
				st = append(st, fmt.Sprintf("node%d:%+v decided=%v alarm=%v", nd.idx, nd.p.Progress().Instant, nd.decided != nil, nd.hasAlarm))
			}
		}
		res.desc["final"] = st
		switch {
		case res.deadlock:
			o.violate("every honest participant that has started the instance decides once the network is timely", "c06-stall",
				res.desc, "undecided honest participants with nothing in flight and no alarm pending: "+strings.Join(st, "; "))
		case res.g.maxRound() > bound:
			o.violate("every honest participant decides within a bounded number of further rounds", "c06-round-bound",
				res.desc, fmt.Sprintf("round %d reached, bound %d", res.g.maxRound(), bound))
		case res.budget:
			o.Dist["inconclusive-step-budget"]++
			if len(o.Extra) < 10 {
				o.Extra[fmt.Sprintf("inconclusive-%d", i)] = fmt.Sprint(res.desc)
			}
		}
		for _, v := range local {
			if strings.HasPrefix(v.Signature, "c06") {
				o.violate(v.Clause, v.Signature, res.desc, v.Detail)
			}
		}
		extra := res.g.maxRound() - min(res.g.maxRound(), res.roundAtStab)
		o.Dist[fmt.Sprintf("extra-rounds-%d", min(extra, 8))]++
		o.Dist[fmt.Sprintf("round-at-stab-%d", min(res.roundAtStab, 6))]++
		o.count("C06-run", fmt.Sprint(res.desc), res.roundAtStab > 0 || res.byzVotes > 0)
		if i < 2 {
			o.sample(res.desc)
		}
	}
	// timed single-participant traces against Layer N
	nt := 120
	if thorough {
		nt = 600
	}
	for i := 0; i < nt; i++ {
		viol := func(clause, sig, detail string) {}
		d := genInstTrace(r, viol)
		o.coqCase(fmt.Sprintf("trace %d: %s", i, strings.Join(d.desc, " | ")),
			fmt.Sprintf("trace_ok %s %s %s", d.cfgTerm(), d.ct.raw(d.input), cList(d.events)))
		o.count("C06-trace", strings.Join(d.events, ";"), len(d.host.bcasts) >= 2)
	}
	// the node-level lost wake-up (InstanceTimers.alarm_pending_refuted) replayed on the real participant
	for k := 0; k < 3; k++ {
		d, asleep := scriptLostWakeup(r, k)
		o.coqCase(fmt.Sprintf("lost wake-up script %d: %s", k, strings.Join(d.desc, " | ")),
			fmt.Sprintf("trace_ok %s %s %s", d.cfgTerm(), d.ct.raw(d.input), cList(d.events)))
		if asleep {
			o.Dist["node-level-lost-wakeup-reproduced"]++
		} else {
			o.Dist["node-level-lost-wakeup-not-reproduced"]++
		}
		o.count("C06-lost-wakeup-script", strings.Join(d.events, ";"), asleep)
	}
	// late QUALITY quorum: candidates grow after the QUALITY phase (updateCandidatesFromQuality) and a later CONVERGE relies on it
	for k := 0; k < 4; k++ {
		d, adopted := scriptLateQuality(r, k)
		o.coqCase(fmt.Sprintf("late QUALITY script %d: %s", k, strings.Join(d.desc, " | ")),
			fmt.Sprintf("trace_ok %s %s %s", d.cfgTerm(), d.ct.raw(d.input), cList(d.events)))
		if adopted {
			o.Dist["late-quality-value-adopted-at-converge"]++
		} else {
			o.Dist["late-quality-value-not-adopted"]++
		}
		o.count("C06-late-quality-script", strings.Join(d.events, ";"), true)
	}
	o.finish("From F3 Require Import GoInt QuorumGen Instance InstanceRun.")
}

// a participant in round 1 (> rebroadcastImmediatelyAfterRound = 0) whose next rebroadcast deadline falls after the
// phase timeout: the alarm is reverted to the phase timeout, and when that fires with the deadline not yet reached
// no alarm is set.  Returns the driver and whether the participant is left undecided with no alarm pending.
func scriptLostWakeup(r *rng, variant int) (*instDriver, bool) {
	base := mkTipset(0, "base")
	input := &gpbft.ECChain{TipSets: []*gpbft.TipSet{base, mkTipset(1, "m1")}}
	powers := []int64{10, 30, 30}
	opts := []gpbft.Option{gpbft.WithDelta(time.Second), gpbft.WithDeltaBackOffExponent(1.5), gpbft.WithRebroadcastBackoff(1.3, 0, 700*time.Millisecond, 5*time.Second),
		gpbft.WithMaxLookaheadRounds(4), gpbft.WithRebroadcastImmediatelyAfterRound(0)}
	d := newInstDriver(r, 3, powers[0], powers, input, opts...)
	bottom := &gpbft.ECChain{}
	bc := input.BaseChain()
	ms := func(x int) time.Duration { return time.Duration(x) * time.Millisecond }
	must(d.start())
	d.now = d.t0.Add(ms(10))
	d.deliver(2, 1, gpbft.PREPARE_PHASE, bc, d.justify(0, gpbft.COMMIT_PHASE, bottom))
	d.now = d.t0.Add(ms(11))
	d.deliver(2, 1, gpbft.CONVERGE_PHASE, bc, d.justify(0, gpbft.COMMIT_PHASE, bottom)) // skip to round 1
	d.now = d.alarm                                                                     // CONVERGE timeout
	d.hasAl = false
	_ = d.fireAlarm() // -> PREPARE round 1
	d.now = d.t0.Add(ms(4500 + 37*variant))
	d.deliver(3, 1, gpbft.CONVERGE_PHASE, bc, d.justify(0, gpbft.COMMIT_PHASE, bottom)) // first rebroadcast deadline
	d.now = d.alarm
	d.hasAl = false
	_ = d.fireAlarm() // rebroadcast; next deadline after the phase timeout: alarm reverted to the phase timeout
	d.now = d.alarm
	d.hasAl = false
	_ = d.fireAlarm() // phase timeout: deadline not reached
	pr := d.p.Progress()
	return d, !d.hasAl && d.host.decision == nil && pr.Phase == gpbft.PREPARE_PHASE
}

// the subject's QUALITY phase times out with only its own vote (proposal trimmed to the base); the QUALITY votes of a
// strong quorum arrive afterwards; round 0 ends in COMMIT bottom; in round 1 the others offer a prefix of the common
// input at CONVERGE.  Returns the driver and whether the subject PREPAREd that prefix in round 1.
func scriptLateQuality(r *rng, variant int) (*instDriver, bool) {
	input := mkChain("lq", 2)
	powers := []int64{1, 30, 30}
	opts := []gpbft.Option{gpbft.WithDelta(time.Second), gpbft.WithDeltaBackOffExponent(1.5), gpbft.WithRebroadcastBackoff(1.3, 0, 700*time.Millisecond, 5*time.Second),
		gpbft.WithMaxLookaheadRounds(4)}
	d := newInstDriver(r, 3, powers[0], powers, input, opts...)
	bottom := &gpbft.ECChain{}
	offered := input
	if variant%2 == 1 {
		offered = input.Prefix(1)
	}
	lateQ := input
	if variant >= 2 {
		lateQ = offered
	}
	selfQueue := 0
	flush := func() {
		for selfQueue < len(d.host.bcasts) && d.host.decision == nil {
			m := d.host.bcasts[selfQueue]
			selfQueue++
			_, _ = d.deliver(d.subject, m.Vote.Round, m.Vote.Phase, m.Vote.Value, m.Justification)
		}
	}
	alarm := func() {
		flush()
		if d.alarm.After(d.now) {
			d.now = d.alarm
		}
		d.hasAl = false
		_ = d.fireAlarm()
		flush()
	}
	tick := func() { d.now = d.now.Add(10 * time.Millisecond) }
	must(d.start())
	alarm() // QUALITY timeout: only the own vote -> proposal = base, PREPARE base
	tick()
	d.deliver(2, 0, gpbft.QUALITY_PHASE, input, nil)
	tick()
	d.deliver(3, 0, gpbft.QUALITY_PHASE, lateQ, nil) // late strong quorum for (a prefix of) the input
	tick()
	d.deliver(2, 0, gpbft.PREPARE_PHASE, input, nil)
	tick()
	d.deliver(3, 0, gpbft.PREPARE_PHASE, input, nil) // base can no longer reach a quorum: COMMIT bottom
	flush()
	tick()
	d.deliver(2, 0, gpbft.COMMIT_PHASE, bottom, nil)
	tick()
	d.deliver(3, 0, gpbft.COMMIT_PHASE, bottom, nil) // strong quorum for bottom: round 1, CONVERGE
	flush()
	tick()
	d.deliver(2, 1, gpbft.CONVERGE_PHASE, offered, d.justify(0, gpbft.COMMIT_PHASE, bottom))
	tick()
	d.deliver(3, 1, gpbft.CONVERGE_PHASE, offered, d.justify(0, gpbft.COMMIT_PHASE, bottom))
	alarm() // CONVERGE timeout
	adopted := false
	for _, m := range d.host.bcasts {
		if m.Vote.Round == 1 && m.Vote.Phase == gpbft.PREPARE_PHASE && m.Vote.Value.Eq(offered) {
			adopted = true
		}
	}
	return d, adopted
}
