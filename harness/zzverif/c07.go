//go:build verif

package main

import (
	"fmt"
	"math"
	"strings"
	"time"

	"github.com/filecoin-project/go-f3/gpbft"
)

func init() {
	runners["C07"] = func(o *out, r *rng, th bool, rp string) { runInstTraces(o, r, th, "C07") }
}

type instOpts struct {
	finale bool // end with a DECIDE exchange so that the subject reports a decision
	skew   bool // large powers plus dust members with zero scaled power
	huge   int  // > 0: byte-scale raw powers, the table's total has this many bits and one puppet holds 50-75 % of it
	supp   func(cur gpbft.PowerEntries) gpbft.SupplementalData
	queued bool // messages arrive before the start alarm fires: beginInstance drains the participant's queue (ReceiveMany)
}

// one event trace of a single real participant; returns the driver
func genInstTrace(r *rng, viol func(clause, sig, detail string)) *instDriver {
	return genInstTraceOpt(r, viol, instOpts{})
}

func genInstTraceOpt(r *rng, viol func(clause, sig, detail string), io instOpts) *instDriver {
	members := 4 + r.intn(4)
	powers := make([]int64, members)
	for i := range powers {
		powers[i] = int64(5 + r.intn(20))
	}
	powers[0] = int64(1 + r.intn(12)) // the subject: never more than a third on its own
	if io.queued {
		// one puppet holds more than a third (a weak quorum on its own): its queued round-1 votes can make the subject skip ahead
		var rest int64
		for i := range powers {
			if i != 1 {
				rest += powers[i]
			}
		}
		powers[1] = rest*2/3 + int64(r.intn(5))
	}
	if io.skew {
		for i := range powers {
			powers[i] *= 1 << 30
		}
		for k := 0; k < 1+r.intn(2); k++ {
			powers = append(powers, int64(1+r.intn(3))) // dust: scaled power 0
			members++
		}
	}
	if io.huge > 0 {
		// one dominant puppet (never the subject), then everything scaled so that the total has exactly io.huge bits: the
		// scaling arithmetic 0xffff*power/total then runs next to a native integer width with a large numerator
		var rest int64
		for i := range powers {
			if i != 1 {
				rest += powers[i]
			}
		}
		powers[1] = rest * int64(1+r.intn(3))
		var sum int64
		for _, p := range powers {
			sum += p
		}
		bits := io.huge
		if bits > 62 {
			bits = 62
		}
		unit := (int64(1) << uint(bits-1)) / sum
		if unit < 1 {
			unit = 1
		}
		unit += unit * int64(r.intn(900)) / 1000
		for i := range powers {
			powers[i] *= unit
		}
		// keep the total inside [2^(bits-1), 2^bits)
		for {
			var tot int64
			for _, p := range powers {
				tot += p
			}
			if tot < int64(1)<<uint(bits-1) {
				powers[1] += int64(1)<<uint(bits-1) - tot
				continue
			}
			if bits < 62 && tot >= int64(1)<<uint(bits) {
				for i := range powers {
					powers[i] = powers[i]/2 + 1
				}
				continue
			}
			break
		}
	}
	base := mkTipset(0, "base")
	line := []*gpbft.TipSet{base, mkTipset(1, "m1"), mkTipset(2, "m2"), mkTipset(3, "m3"), mkTipset(4, "m4")}
	inLen := 1 + r.intn(5)
	input := &gpbft.ECChain{TipSets: line[:inLen]}
	opts := []gpbft.Option{gpbft.WithDelta(time.Second), gpbft.WithDeltaBackOffExponent(1.5), gpbft.WithRebroadcastBackoff(1.3, 0, 700*time.Millisecond, 5*time.Second),
		gpbft.WithMaxLookaheadRounds(uint64(r.intn(6))), gpbft.WithRebroadcastImmediatelyAfterRound(uint64(r.intn(4)))}
	d := newInstDriver(r, members, powers[0], powers, input, opts...)
	if io.supp != nil {
		d.supp = io.supp(d.pt.Entries)
	}
	fork := &gpbft.ECChain{TipSets: []*gpbft.TipSet{base, mkTipset(1, "f1"), mkTipset(2, "f2")}}
	values := []*gpbft.ECChain{input, fork, {TipSets: line[:1]}, {TipSets: line[:min(inLen+1, 5)]}}
	for l := 1; l <= inLen; l++ {
		values = append(values, &gpbft.ECChain{TipSets: line[:l]})
	}
	bottom := &gpbft.ECChain{}
	puppets := []gpbft.ActorID{}
	for i := 1; i < members; i++ {
		puppets = append(puppets, gpbft.ActorID(1+i))
	}
	mon := newInstMonitor(d, viol)
	var lastProg gpbft.Instant
	check := func(err error, what string) {
		if err != nil {
			viol("delivering any validated message or timer never yields an internal error or panic", "c07-internal-error", what+": "+err.Error())
		}
		pr := d.p.Progress().Instant
		if pr.Round < lastProg.Round || (pr.Round == lastProg.Round && pr.Phase < lastProg.Phase) {
			viol("(round, step) progress never moves backwards", "c07-progress-backwards", fmt.Sprintf("%+v -> %+v", lastProg, pr))
		}
		lastProg = pr
		mon.afterEvent()
	}
	if io.queued {
		// votes of the puppets that arrive before the subject has begun: QUALITY, a PREPARE and a COMMIT(bottom) of round 0,
		// justified votes of round 1, sometimes a DECIDE
		v0 := values[r.intn(len(values))]
		var qm []queuedMsg
		pp := func() gpbft.ActorID { return puppets[r.intn(len(puppets))] }
		if r.chance(80) {
			qm = append(qm, queuedMsg{pp(), 0, gpbft.QUALITY_PHASE, values[r.intn(len(values))], nil})
		}
		if r.chance(70) {
			qm = append(qm, queuedMsg{pp(), 0, gpbft.PREPARE_PHASE, v0, nil})
		}
		if r.chance(50) {
			qm = append(qm, queuedMsg{pp(), 0, gpbft.COMMIT_PHASE, bottom, nil})
		}
		big := gpbft.ActorID(2) // the puppet with more than a third of the power
		if r.chance(60) {
			qm = append(qm, queuedMsg{pp(), 1, gpbft.CONVERGE_PHASE, v0, d.justify(0, gpbft.COMMIT_PHASE, bottom)})
		}
		if r.chance(70) {
			if r.bool() {
				qm = append(qm, queuedMsg{big, 1, gpbft.PREPARE_PHASE, v0, d.justify(0, gpbft.PREPARE_PHASE, v0)})
			} else {
				qm = append(qm, queuedMsg{big, 1, gpbft.PREPARE_PHASE, v0, d.justify(0, gpbft.COMMIT_PHASE, bottom)})
			}
		}
		if r.chance(40) && !v0.IsZero() {
			qm = append(qm, queuedMsg{pp(), 1, gpbft.COMMIT_PHASE, v0, d.justify(1, gpbft.PREPARE_PHASE, v0)})
		}
		if r.chance(15) && !v0.IsZero() {
			qm = append(qm, queuedMsg{pp(), 0, gpbft.DECIDE_PHASE, v0, d.justify(uint64(r.intn(2)), gpbft.COMMIT_PHASE, v0)})
		}
		if err := d.startWithQueue(qm); err != nil {
			check(err, "start-with-queue")
			return d
		}
		check(nil, "start-with-queue")
	} else {
		if err := d.start(); err != nil {
			check(err, "start")
			return d
		}
		check(nil, "start")
	}
	selfQueue := 0 // index into host.bcasts of the next own message not yet looped back
	steps := 10 + r.intn(50)
	mode := r.intn(3) // 0 cooperative, 1 mixed, 2 hostile
	for st := 0; st < steps && d.host.decision == nil; st++ {
		pr := d.p.Progress().Instant
		cur := pr.Round
		act := r.intn(100)
		switch {
		case act < 12 && selfQueue < len(d.host.bcasts):
			m := d.host.bcasts[selfQueue]
			selfQueue++
			_, err := d.deliver(d.subject, m.Vote.Round, m.Vote.Phase, m.Vote.Value, m.Justification)
			check(err, "self-delivery")
		case act < 30:
			// alarm at (or after) its time
			if d.hasAl {
				// local delivery of the subject's own broadcasts is prompt relative to any timeout (Host contract:
				// "it should also be delivered locally"): flush them before a timer fires
				for selfQueue < len(d.host.bcasts) && d.host.decision == nil {
					m := d.host.bcasts[selfQueue]
					selfQueue++
					_, err := d.deliver(d.subject, m.Vote.Round, m.Vote.Phase, m.Vote.Value, m.Justification)
					check(err, "self-delivery")
				}
				if d.host.decision != nil {
					break
				}
				if d.alarm.After(d.now) {
					d.now = d.alarm
				}
				if r.chance(30) {
					d.now = d.now.Add(time.Duration(r.intn(1500)) * time.Millisecond)
				}
				d.hasAl = false
				check(d.fireAlarm(), "alarm")
			}
		case act < 55:
			// burst: (a random subset of) the puppets send the message the subject's current step waits for
			v := values[r.intn(len(values))]
			if r.chance(50) {
				if n := len(d.host.bcasts); n > 0 && !d.host.bcasts[n-1].Vote.Value.IsZero() {
					v = d.host.bcasts[n-1].Vote.Value
				}
			}
			bot := r.chance(50)
			k := 1 + r.intn(len(puppets))
			if r.chance(60) {
				k = len(puppets)
			}
			for _, pi := range shuffled(r, len(puppets))[:k] {
				if d.host.decision != nil {
					break
				}
				sender := puppets[pi]
				pr := d.p.Progress().Instant
				var err error
				switch pr.Phase {
				case gpbft.QUALITY_PHASE:
					_, err = d.deliver(sender, 0, gpbft.QUALITY_PHASE, v, nil)
				case gpbft.PREPARE_PHASE:
					var j *gpbft.Justification
					if pr.Round > 0 {
						j = d.justify(pr.Round-1, gpbft.COMMIT_PHASE, bottom)
					}
					_, err = d.deliver(sender, pr.Round, gpbft.PREPARE_PHASE, v, j)
				case gpbft.COMMIT_PHASE:
					if bot {
						_, err = d.deliver(sender, pr.Round, gpbft.COMMIT_PHASE, bottom, nil)
					} else {
						_, err = d.deliver(sender, pr.Round, gpbft.COMMIT_PHASE, v, d.justify(pr.Round, gpbft.PREPARE_PHASE, v))
					}
				case gpbft.CONVERGE_PHASE:
					cv := values[r.intn(len(values))]
					if r.chance(70) {
						_, err = d.deliver(sender, pr.Round, gpbft.CONVERGE_PHASE, cv, d.justify(pr.Round-1, gpbft.COMMIT_PHASE, bottom))
					} else {
						_, err = d.deliver(sender, pr.Round, gpbft.CONVERGE_PHASE, cv, d.justify(pr.Round-1, gpbft.PREPARE_PHASE, cv))
					}
				case gpbft.DECIDE_PHASE:
					_, err = d.deliver(sender, 0, gpbft.DECIDE_PHASE, v, d.justify(pr.Round, gpbft.COMMIT_PHASE, v))
				}
				check(err, "burst")
			}
		default:
			sender := puppets[r.intn(len(puppets))]
			round := cur
			switch r.intn(10) {
			case 0:
				if cur > 0 {
					round = cur - 1
				}
			case 1, 2:
				round = cur + 1
			case 3:
				round = cur + uint64(2+r.intn(6))
			}
			v := values[r.intn(len(values))]
			if mode == 0 || (mode == 1 && r.chance(60)) {
				// cooperative: vote for what the subject last broadcast
				if n := len(d.host.bcasts); n > 0 && !d.host.bcasts[n-1].Vote.Value.IsZero() {
					v = d.host.bcasts[n-1].Vote.Value
				}
			}
			if r.chance(15) {
				d.now = d.now.Add(time.Duration(r.intn(900)) * time.Millisecond)
			}
			switch ph := r.intn(100); {
			case ph < 18:
				_, err := d.deliver(sender, 0, gpbft.QUALITY_PHASE, v, nil)
				check(err, "quality")
			case ph < 45:
				var j *gpbft.Justification
				if round > 0 {
					if r.bool() {
						j = d.justify(round-1, gpbft.PREPARE_PHASE, v)
					} else {
						j = d.justify(round-1, gpbft.COMMIT_PHASE, bottom)
					}
				}
				_, err := d.deliver(sender, round, gpbft.PREPARE_PHASE, v, j)
				check(err, "prepare")
			case ph < 72:
				if r.chance(35) {
					_, err := d.deliver(sender, round, gpbft.COMMIT_PHASE, bottom, nil)
					check(err, "commit-bottom")
				} else {
					_, err := d.deliver(sender, round, gpbft.COMMIT_PHASE, v, d.justify(round, gpbft.PREPARE_PHASE, v))
					check(err, "commit")
				}
			case ph < 97:
				if round == 0 {
					round = 1
				}
				var j *gpbft.Justification
				if r.bool() {
					j = d.justify(round-1, gpbft.PREPARE_PHASE, v)
				} else {
					j = d.justify(round-1, gpbft.COMMIT_PHASE, bottom)
				}
				_, err := d.deliver(sender, round, gpbft.CONVERGE_PHASE, v, j)
				check(err, "converge")
			default:
				_, err := d.deliver(sender, 0, gpbft.DECIDE_PHASE, v, d.justify(round, gpbft.COMMIT_PHASE, v))
				check(err, "decide")
			}
		}
	}
	if io.finale && d.host.decision == nil {
		// DECIDE exchange: most puppets announce v (justified by a COMMIT quorum of some round), a few another value
		v := input
		if n := len(d.host.bcasts); n > 0 && !d.host.bcasts[n-1].Vote.Value.IsZero() && r.chance(70) {
			v = d.host.bcasts[n-1].Vote.Value
		} else if r.chance(40) {
			v = values[r.intn(len(values))]
		}
		jr := d.p.Progress().Round
		if r.chance(30) {
			jr = uint64(r.intn(4))
		}
		order := shuffled(r, len(puppets))
		for _, pi := range order {
			if d.host.decision != nil {
				break
			}
			sender := puppets[pi]
			vv := v
			if r.chance(12) {
				vv = values[r.intn(len(values))]
			}
			if r.chance(25) && selfQueue < len(d.host.bcasts) {
				m := d.host.bcasts[selfQueue]
				selfQueue++
				_, err := d.deliver(d.subject, m.Vote.Round, m.Vote.Phase, m.Vote.Value, m.Justification)
				check(err, "self-delivery")
				if d.host.decision != nil {
					break
				}
			}
			if r.chance(35) {
				// the same member first tries a DECIDE bound to other supplemental data
				if d.deliverForeignSupp(sender, 0, gpbft.DECIDE_PHASE, vv, jr, gpbft.COMMIT_PHASE) {
					viol("the justification of a decision is for the instance's supplemental data (votes bound to other supplemental data are not counted)", "c03-foreign-supplemental-counted",
						fmt.Sprintf("DECIDE of member %d with other commitments was accepted by the instance", sender))
				}
				if d.host.decision != nil {
					break
				}
			}
			_, err := d.deliver(sender, 0, gpbft.DECIDE_PHASE, vv, d.justify(jr, gpbft.COMMIT_PHASE, vv))
			check(err, "decide-finale")
		}
		for selfQueue < len(d.host.bcasts) && d.host.decision == nil {
			m := d.host.bcasts[selfQueue]
			selfQueue++
			_, err := d.deliver(d.subject, m.Vote.Round, m.Vote.Phase, m.Vote.Value, m.Justification)
			check(err, "self-delivery")
		}
	}
	// one message per slot
	seen := map[string]bool{}
	for _, m := range d.host.bcasts {
		k := fmt.Sprintf("round %d %s", m.Vote.Round, m.Vote.Phase)
		if seen[k] {
			viol("an honest participant emits at most one message per instance, round and step", "c07-two-messages-per-slot", k)
		}
		seen[k] = true
	}
	return d
}

func runInstTraces(o *out, r *rng, thorough bool, pid string) {
	o.Rule = "event traces of ONE real gpbft.Participant driven through a deterministic Host (scripted signatures, integer timeouts, jitter 0): puppets holding >= 2/3 of the power send VALID messages of every step for the current / previous / next / far-future rounds (cooperative, mixed and hostile mixes: equivocation across puppets, foreign chains, bottom commits, late and duplicate messages, own messages looped back at arbitrary times), alarms fire at or after their time; after every event (round, step), every broadcast (round, step, value, justification, ticket), rebroadcast request, alarm and decision is compared with the Layer-N model inside Coq; non-trivial = the participant left round 0 or received a conflicting value, and emitted >= 1 vote after the first delivery"
	n := 240
	if thorough {
		n = 2500
	}
	prefix := strings.ToLower(pid)
	for i := 0; i < n; i++ {
		var local []violation
		viol := func(clause, sig, detail string) { local = append(local, violation{Clause: clause, Signature: sig, Detail: detail}) }
		d := genInstTraceOpt(r, viol, instOpts{queued: pid == "C07" && i%5 == 4})
		desc := map[string]any{"events": d.desc}
		for _, v := range local {
			if strings.HasPrefix(v.Signature, prefix) {
				o.violate(v.Clause, v.Signature, desc, v.Detail)
			}
		}
		if d.queued {
			o.Dist["traces-starting-with-queued-messages"]++
		}
		o.coqCase(fmt.Sprintf("trace %d: %s", i, strings.Join(d.desc, " | ")), d.traceTerm())
		pr := d.p.Progress().Instant
		o.count(pid+"-trace", strings.Join(d.events, ";"), (pr.Round > 0 || len(d.host.bcasts) > 2) && len(d.host.bcasts) >= 2)
		o.Dist[fmt.Sprintf("final-phase-%s", pr.Phase)]++
		o.Dist[fmt.Sprintf("final-round-%d", min(pr.Round, 6))]++
		if i < 2 {
			o.sample(map[string]any{"events": d.desc, "final": fmt.Sprint(pr), "decided": d.host.decision != nil})
		}
	}
	if pid == "C07" {
		runNetMonitors(o, r, thorough, prefix)
		runLifecycle(o, r, thorough, prefix)
	}
	o.finish("From F3 Require Import GoInt QuorumGen Instance InstanceRun MsgQueue Lifecycle.")
}

// multi-node adversarial executions of real participants (netsim), monitors with the given prefix only
func runNetMonitors(o *out, r *rng, thorough bool, prefix string) {
	runs := 40
	if thorough {
		runs = 400
	}
	for i := 0; i < runs; i++ {
		var local []violation
		viol := func(clause, sig, detail string) { local = append(local, violation{Clause: clause, Signature: sig, Detail: detail}) }
		res := simScenario(r, viol)
		for _, v := range local {
			if strings.HasPrefix(v.Signature, prefix) {
				o.violate(v.Clause, v.Signature, res.desc, v.Detail)
			}
		}
		o.Dist[fmt.Sprintf("netsim-max-round-%d", min(res.g.maxRound(), 5))]++
		o.count(prefix+"-netsim-run", fmt.Sprint(res.desc), res.g.maxRound() > 0 || res.byzVotes > 0)
	}
}

// instMonitor: the clauses of C07 evaluated on the REAL participant's emissions against an independent record of what
// was delivered to it (first message per sender and slot, as the protocol counts votes)
type instMonitor struct {
	d        *instDriver
	viol     func(clause, sig, detail string)
	observer *gpbft.Participant
	seenB    int
	qualProp *gpbft.ECChain         // the proposal formed from QUALITY (its round-0 PREPARE value)
	prepVal  map[uint64]*gpbft.ECChain // its PREPARE value per round
	prepAt   map[uint64]time.Time
}

func newInstMonitor(d *instDriver, viol func(clause, sig, detail string)) *instMonitor {
	m := &instMonitor{d: d, viol: viol, prepVal: map[uint64]*gpbft.ECChain{}, prepAt: map[uint64]time.Time{}}
	od := *d
	oh := &subjHost{d: &od}
	od.host = oh
	p, err := gpbft.NewParticipant(oh, gpbft.WithDelta(time.Second))
	must(err)
	must(p.StartInstanceAt(0, od.now))
	must(p.ReceiveAlarm(od.ctx))
	m.observer = p
	return m
}

func (m *instMonitor) power(id gpbft.ActorID) int64 { p, _ := m.d.pt.Get(id); return p }

func (m *instMonitor) afterEvent() {
	d := m.d
	for ; m.seenB < len(d.host.bcasts); m.seenB++ {
		msg := d.host.bcasts[m.seenB]
		v := msg.Vote.Value
		r := msg.Vote.Round
		if _, err := m.observer.ValidateMessage(d.ctx, msg); err != nil {
			m.viol("every message an honest participant emits is valid and acceptable to its peers", "c07-emitted-invalid", fmt.Sprintf("%s round %d: %v", msg.Vote.Phase, r, err))
		}
		if !v.IsZero() && !d.input.HasPrefix(v) && !d.proven[ckey(v)] {
			m.viol("an honest participant only votes for a prefix of its input or a value for which it has received proof of a strong quorum", "c07-vote-no-evidence",
				fmt.Sprintf("%s round %d value %s", msg.Vote.Phase, r, v))
		}
		switch msg.Vote.Phase {
		case gpbft.PREPARE_PHASE:
			m.prepVal[r] = v
			m.prepAt[r] = d.now
			if r == 0 {
				m.qualProp = v
				want := d.input.BaseChain()
				for l := d.input.Len() - 1; l >= 1; l-- {
					pre := d.input.Prefix(l)
					var pw int64
					for id, c := range d.qualityBy {
						if c.HasPrefix(pre) {
							pw += m.power(id)
						}
					}
					if indepStrong(pw, d.scaledTotal) {
						want = pre
						break
					}
				}
				if !v.Eq(want) {
					m.viol("its round-0 PREPARE value is exactly the longest prefix of its input backed by a strong quorum of the QUALITY votes delivered to it so far (the base if none)",
						"c07-prepare0", fmt.Sprintf("prepared %s, expected %s", v, want))
				}
			} else if m.qualProp != nil {
				// best ticket among the CONVERGE values delivered for this round (first message per sender; best rank per value)
				var best *gpbft.ECChain
				bestRank := math.Inf(1)
				for _, cv := range d.convBy[r] {
					if cv.rank < bestRank {
						bestRank, best = cv.rank, cv.chain
					}
				}
				if best != nil && m.qualProp.HasPrefix(best) && !v.Eq(best) {
					m.viol("in later rounds it adopts the best-ticket CONVERGE value whenever that value is a prefix of the proposal it formed from QUALITY",
						"c07-converge-adoption", fmt.Sprintf("round %d: best ticket %s is a prefix of the QUALITY proposal %s but it prepared %s", r, best, m.qualProp, v))
				}
			}
		case gpbft.COMMIT_PHASE:
			pv := m.prepVal[r]
			if v.IsZero() && pv != nil {
				var support, voted int64
				for id, c := range d.prepBy[r] {
					voted += m.power(id)
					if c.Eq(pv) {
						support += m.power(id)
					}
				}
				if indepStrong(support, d.scaledTotal) {
					m.viol("it never commits bottom while holding a strong PREPARE quorum for its proposal", "c07-commit-bottom-with-quorum", fmt.Sprintf("round %d proposal %s", r, pv))
				}
				timeout := time.Duration(d.p.VerifPhaseTimeout(r, false))
				possible := indepStrong(support+d.scaledTotal-voted, d.scaledTotal)
				if d.now.Before(m.prepAt[r].Add(timeout)) && possible {
					m.viol("it never commits bottom before the PREPARE timeout unless that quorum has become impossible", "c07-commit-bottom-early",
						fmt.Sprintf("round %d proposal %s support %d voted %d of %d at %v (PREPARE began %v, timeout %v)", r, pv, support, voted, d.scaledTotal, d.now.Sub(d.t0), m.prepAt[r].Sub(d.t0), timeout))
				}
			}
		}
	}
}
