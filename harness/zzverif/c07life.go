//go:build verif

package main

import (
	"fmt"
	"strings"
	"time"

	"github.com/filecoin-project/go-f3/gpbft"
)

// Participant-level machinery around the instance (gpbft/participant.go), tied to Gpbft/MsgQueue.v and Gpbft/Lifecycle.v:
// (A) the queue of messages for instances that have not started, (B) which instance exists when, the host's alarm slot
// and the hand-over of decisions -- with hosts that sometimes fail to accept a decision or to provide a proposal.
func runLifecycle(o *out, r *rng, thorough bool, prefix string) {
	// ---------- (A) messageQueue ----------
	nq := 60
	if thorough {
		nq = 600
	}
	for i := 0; i < nq; i++ {
		maxRound := uint64(r.intn(4))
		var local []violation
		viol := func(clause, sig, detail string) { local = append(local, violation{Clause: clause, Signature: sig, Detail: detail}) }
		in := mkChain("q", 1)
		cfg := gnetCfg{n: 2, powers: []int64{70, 30}, byz: []bool{false, false}, inputs: []*gpbft.ECChain{in, in}, delta: time.Second,
			opts: []gpbft.Option{gpbft.WithMaxLookaheadRounds(maxRound)}}
		g := newGnet(r, cfg, viol)
		p := g.nodes[0].p
		cur := uint64(r.intn(3))
		must(p.StartInstanceAt(cur, g.now))
		tags := map[*gpbft.GMessage]int{}
		var terms []string
		type slot struct {
			inst, sender, round uint64
			phase               gpbft.Phase
		}
		firstOf := map[slot]int{}
		var admissible []slot
		nmsg := 8 + r.intn(40)
		for k := 0; k < nmsg; k++ {
			m := &gpbft.GMessage{Sender: gpbft.ActorID(1 + r.intn(3)),
				Vote: gpbft.Payload{Instance: cur + uint64(r.intn(4)), Round: uint64(r.intn(5)), Phase: gpbft.Phase(1 + r.intn(5)), Value: in}}
			if r.chance(45) {
				m.Justification = &gpbft.Justification{}
			}
			if r.chance(25) {
				m.Sender = 1 // one sender with many messages: nothing may be dropped for being many
			}
			tags[m] = k
			p.VerifQueueAdd(m)
			terms = append(terms, fmt.Sprintf("(mkQM %d %d %d %d %s %d)", m.Vote.Instance, m.Sender, m.Vote.Round, int(m.Vote.Phase), cBool(m.Justification != nil), k))
			s := slot{m.Vote.Instance, uint64(m.Sender), m.Vote.Round, m.Vote.Phase}
			if !(m.Vote.Round > maxRound && m.Justification == nil && m.Vote.Round > 0) {
				if _, ok := firstOf[s]; !ok {
					firstOf[s] = k
					admissible = append(admissible, s)
				}
			}
		}
		next := cur + uint64(r.intn(3))
		must(p.StartInstanceAt(next, g.now)) // finishCurrentInstance + beginNextInstance(next): queues below `next` are dropped
		for _, inst := range []uint64{next, next + 1} {
			got := p.VerifQueueDrain(inst)
			var obs []int64
			have := map[int]bool{}
			for _, m := range got {
				obs = append(obs, int64(tags[m]))
				have[tags[m]] = true
			}
			in2 := map[string]any{"max_round": maxRound, "messages": terms, "pruned_below": next, "drained": inst, "returned": obs}
			// independent of the model: the first arrival of every admissible slot of this instance must be handed over
			for _, s := range admissible {
				if s.inst == inst && !have[firstOf[s]] {
					o.violate("messages that arrived before the participant started the instance are delivered when it starts", prefix+"-queued-message-lost", in2,
						fmt.Sprintf("message #%d (sender %d round %d %s) was queued for instance %d but is not handed over at its start", firstOf[s], s.sender, s.round, s.phase, inst))
					break
				}
			}
			o.coqCase(fmt.Sprintf("message queue %d drain %d", i, inst),
				fmt.Sprintf("drain_ok %d %s %d %d %s", maxRound, cList(terms), next, inst, cListZ(obs)))
		}
		o.count(strings.ToUpper(prefix)+"-queue", strings.Join(terms, ";"), true)
	}
	// ---------- (B) life cycle ----------
	nl := 40
	if thorough {
		nl = 400
	}
	for i := 0; i < nl; i++ {
		var local []violation
		viol := func(clause, sig, detail string) { local = append(local, violation{Clause: clause, Signature: sig, Detail: detail}) }
		in := mkChain("lc", 1+r.intn(2))
		cfg := gnetCfg{n: 2, powers: []int64{70, 30}, byz: []bool{false, false}, inputs: []*gpbft.ECChain{in, in}, delta: time.Second}
		g := newGnet(r, cfg, viol)
		nd := g.nodes[0]
		p := nd.p
		var evs, desc []string
		inst0 := uint64(r.intn(3))
		g.instance = inst0
		observe := func(ev, what string) {
			evs = append(evs, fmt.Sprintf("(%s, (%d, %s, %s))", ev, p.Progress().ID, cBool(p.VerifRunning()), cBool(nd.hasAlarm)))
			desc = append(desc, fmt.Sprintf("%s -> id=%d running=%v alarm=%v", what, p.Progress().ID, p.VerifRunning(), nd.hasAlarm))
		}
		must(p.StartInstanceAt(inst0, g.now.Add(time.Second)))
		observe(fmt.Sprintf("LStartAt %d", inst0), fmt.Sprintf("StartInstanceAt(%d)", inst0))
		qualityOf := map[uint64]int{}
		sinceStart := 0 // executions are counted between two StartInstanceAt calls of the host (which may restart an instance)
		countQuality := func() {
			for k := range qualityOf {
				delete(qualityOf, k)
			}
			for _, m := range nd.bcasts[sinceStart:] {
				if m.Vote.Phase == gpbft.QUALITY_PHASE {
					qualityOf[m.Vote.Instance]++
				}
			}
		}
		maxID := inst0
		steps := 15 + r.intn(40)
		for st := 0; st < steps; st++ {
			before := len(nd.reported)
			if r.chance(12) {
				nd.failDecision = 1 // the host will fail to accept the next decision (storage error)
			}
			pid := p.Progress().ID
			switch c := r.intn(100); {
			case c < 40 && nd.hasAlarm:
				// the alarm fires.  Occasionally the host cannot provide a proposal for the instance to begin.
				beginOK := true
				g.instance = pid
				if !p.VerifRunning() && r.chance(15) {
					g.instance = pid + 1000
					beginOK = false
				}
				if nd.alarm.After(g.now) {
					g.now = nd.alarm
				}
				nd.hasAlarm = false
				_ = p.ReceiveAlarm(g.ctx)
				g.instance = pid
				term := len(nd.reported) > before
				accept := term && nd.decided != nil && nd.decided == nd.reported[len(nd.reported)-1]
				observe(fmt.Sprintf("LAlarm %s %s %s %s", cBool(beginOK), cBool(term), cBool(nd.hasAlarm), cBool(accept)), fmt.Sprintf("alarm(begin_ok=%v)", beginOK))
			case c < 90:
				// a message: one of the subject's own (looped back), or a vote of the other member for this / a later / an earlier instance
				var msg *gpbft.GMessage
				var k int = -1
				for j, pm := range g.pool {
					if pm.to == 0 {
						k = j
						break
					}
				}
				if k >= 0 && r.chance(70) {
					msg = g.pool[k].msg
					g.pool = append(g.pool[:k], g.pool[k+1:]...)
				} else {
					mi := pid + uint64(r.intn(3))
					if r.chance(15) && pid > 0 {
						mi = pid - 1
					}
					mb := &gpbft.MessageBuilder{NetworkName: verifNet, PowerTable: g.pt,
						Payload: gpbft.Payload{Instance: mi, Round: 0, Phase: gpbft.QUALITY_PHASE, SupplementalData: g.supp, Value: in}}
					var err error
					msg, err = mb.Build(g.ctx, g.backend, g.nodes[1].id)
					if err != nil {
						continue
					}
				}
				vm, err := p.ValidateMessage(g.ctx, msg)
				if err != nil {
					continue
				}
				g.instance = pid
				_ = p.ReceiveMessage(g.ctx, vm)
				term := len(nd.reported) > before
				accept := term && nd.decided != nil && nd.decided == nd.reported[len(nd.reported)-1]
				observe(fmt.Sprintf("LDeliver %d %s %s %s", msg.Vote.Instance, cBool(term), cBool(nd.hasAlarm), cBool(accept)), fmt.Sprintf("deliver(inst %d %s from %d)", msg.Vote.Instance, msg.Vote.Phase, msg.Sender))
			default:
				// the host (re)starts at the next instance it knows to be open
				ni := p.Progress().ID + uint64(r.intn(2))
				if len(nd.reported) > 0 && ni <= nd.reported[len(nd.reported)-1].Vote.Instance {
					ni = nd.reported[len(nd.reported)-1].Vote.Instance + 1
				}
				must(p.StartInstanceAt(ni, g.now.Add(time.Second)))
				nd.decided = nil
				sinceStart = len(nd.bcasts)
				observe(fmt.Sprintf("LStartAt %d", ni), fmt.Sprintf("StartInstanceAt(%d)", ni))
			}
			nd.decided = nil // the run loop of netsim is not used here: `decided` only says whether the LAST hand-over was accepted
			if id := p.Progress().ID; id < maxID {
				// only StartInstanceAt may move the instance number, and the host never starts an earlier instance here
				o.violate("progress never moves backwards", prefix+"-instance-backwards", map[string]any{"events": desc}, fmt.Sprintf("instance %d after %d", id, maxID))
			} else {
				maxID = id
			}
			countQuality()
			for inst, n := range qualityOf {
				if n > 1 {
					o.violate("an honest participant emits at most one message per instance, round and step (an instance is executed once)", prefix+"-instance-executed-twice",
						map[string]any{"events": desc}, fmt.Sprintf("instance %d was begun %d times (QUALITY broadcast each time)", inst, n))
				}
			}
		}
		o.coqCase(fmt.Sprintf("life cycle %d: %s", i, strings.Join(desc, " | ")), fmt.Sprintf("ltrace_ok l0 %s", cList(evs)))
		o.count(strings.ToUpper(prefix)+"-lifecycle", strings.Join(evs, ";"), len(nd.reported) > 0)
	}
}
