//go:build verif

package main

import (
	"time"
	"bufio"
	"bytes"
	"context"
	"errors"
	"fmt"
	"strings"
	"sync"

	"github.com/filecoin-project/go-f3/certs"
	"github.com/filecoin-project/go-f3/certstore"
	"github.com/filecoin-project/go-f3/gpbft"
	"github.com/filecoin-project/go-f3/manifest"
	"github.com/ipfs/go-datastore"
	"github.com/ipfs/go-datastore/query"
	ds_sync "github.com/ipfs/go-datastore/sync"
)

func init() {
	runners["C09"] = func(o *out, r *rng, th bool, rp string) { runStore(o, r, th, "C09") }
	runners["C10"] = func(o *out, r *rng, th bool, rp string) { runStore(o, r, th, "C10") }
	runners["C17"] = func(o *out, r *rng, th bool, rp string) { runStore(o, r, th, "C17") }
}

var errCrash = errors.New("verif: simulated crash")

// crashDS lets `budget` low-level writes through and then fails every write (the process "dies").
type crashDS struct {
	datastore.Batching
	mu     sync.Mutex
	budget int // <0 = unlimited
	writes int
}

func (c *crashDS) spend() bool {
	c.mu.Lock()
	defer c.mu.Unlock()
	if c.budget < 0 {
		c.writes++
		return true
	}
	if c.budget == 0 {
		return false
	}
	c.budget--
	c.writes++
	return true
}
func (c *crashDS) Put(ctx context.Context, k datastore.Key, v []byte) error {
	if !c.spend() {
		return errCrash
	}
	return c.Batching.Put(ctx, k, v)
}
func (c *crashDS) Delete(ctx context.Context, k datastore.Key) error {
	if !c.spend() {
		return errCrash
	}
	return c.Batching.Delete(ctx, k)
}
func (c *crashDS) Batch(ctx context.Context) (datastore.Batch, error) {
	return datastore.NewBasicBatch(c), nil
}

func storeErrCode(err error) int {
	if err == nil {
		return 0
	}
	s := err.Error()
	has := func(x string) bool { return strings.Contains(s, x) }
	switch {
	case has("failed to apply power table delta"), has("applying power deltas"):
		d := deltaErrCode(err)
		if d < 0 {
			return -1
		}
		return 20 + d
	case has("loading latest cert"):
		return 1
	case errors.Is(err, certstore.ErrNotInitialized):
		return 2
	case has("different initial instance"):
		return 3
	case has("wrong power table"):
		return 4
	case has("already initialized"):
		return 5
	case has("empty initial power table"):
		return 6
	case has("only stores certificates on or after"), has("before the first instance"):
		return 7
	case has("is for bottom"):
		return 8
	case has("invalid chain in finality certificate"):
		return 9
	case has("attempted to add cert at"):
		return 10
	case has("new power table differs"):
		return 11
	case has("would empty the power table"):
		return 12
	case has("start is larger than end"):
		return 14
	case has("cannot return future power table"):
		return 15
	case has("failed to find expected power table"), has("failed to load initial power table"), has("failed to load power table"):
		return 16
	case errors.Is(err, certstore.ErrCertNotFound):
		return 13
	}
	return -1
}

func importErrCode(err error) int {
	if err == nil {
		return 0
	}
	s := err.Error()
	has := func(x string) bool { return strings.Contains(s, x) }
	switch {
	case has("does not match that in the manifest") && has("initial instance"):
		return 1
	case has("does not match that in the manifest"):
		return 2
	case has("is missing"):
		return 3
	case has("expected latest instance"):
		return 4
	case has("new power table differs"):
		return 5
	case errors.Is(err, certstore.ErrNoCertificateExtracted):
		return 6
	case has("extracted latest instance"):
		return 7
	}
	if d := deltaErrCode(err); d > 0 {
		return 20 + d
	}
	if c := storeErrCode(err); c > 0 {
		return 100 + c
	}
	return -1
}

type storeRun struct {
	o     *out
	r     *rng
	x     *c04ctx
	ctx   context.Context
	inner datastore.Batching
	cds   *crashDS
	h     *certstore.Store
	freq  uint64
	ops   []string
	pid   string
	desc  []string
	viol  func(clause, sig, detail string)
	// subscribers (C09): live subscriptions of the current handle and the event trace handed to Store/Subscribers.v
	subs  []*subRec
	subEv []string
}

type subRec struct {
	ch    <-chan *certs.FinalityCertificate
	close func()
	live  bool
	seen  int64 // instance of the last certificate taken, -1 = none
}

func (s *storeRun) latestInst() int64 {
	if s.h == nil {
		return -1
	}
	if l := s.h.Latest(); l != nil {
		return int64(l.GPBFTInstance)
	}
	return -1
}

func (s *storeRun) subscribe() {
	ch, cl := s.h.Subscribe()
	s.subs = append(s.subs, &subRec{ch: ch, close: cl, live: true, seen: -1})
	s.subEv = append(s.subEv, "SSub")
	s.desc = append(s.desc, fmt.Sprintf("subscribe#%d", len(s.subs)-1))
}

// non-blocking read of subscriber k; whatever it returns must be the latest certificate
func (s *storeRun) subRead(k int) int64 {
	sb := s.subs[k]
	got := int64(-1)
	select {
	case c := <-sb.ch:
		if c != nil {
			got = int64(c.GPBFTInstance)
		}
	default:
	}
	s.subEv = append(s.subEv, fmt.Sprintf("SRead %d%%nat %s", k, cZ(got)))
	s.desc = append(s.desc, fmt.Sprintf("sub#%d reads %d", k, got))
	if got >= 0 {
		if got != s.latestInst() {
			s.viol("subscribers observe the latest certificate", "store-subscriber-stale", fmt.Sprintf("subscriber %d read instance %d while the latest is %d", k, got, s.latestInst()))
		}
		if got <= sb.seen {
			s.viol("subscribers observe each certificate at most once and in order", "store-subscriber-order", fmt.Sprintf("subscriber %d read %d after %d", k, got, sb.seen))
		}
		sb.seen = got
	}
	return got
}

func (s *storeRun) subReset() {
	any := false
	for _, sb := range s.subs {
		if sb.live {
			any = true
		}
		sb.live = false
	}
	if any || len(s.subs) > 0 {
		s.subEv = append(s.subEv, "SReset")
	}
}

// every live subscriber empties its slot: it must then have seen the latest certificate
func (s *storeRun) subFinal() {
	lat := s.latestInst()
	for k, sb := range s.subs {
		if !sb.live {
			continue
		}
		s.subRead(k)
		if sb.seen != lat {
			s.viol("subscribers eventually observe the latest certificate", "store-subscriber-misses-latest",
				fmt.Sprintf("subscriber %d has emptied its channel: last certificate seen %d, latest %d", k, sb.seen, lat))
		}
	}
}

// Put with a watchdog: a subscriber must never block the writer
func (s *storeRun) putGuarded(ctx context.Context, c *certs.FinalityCertificate) (error, bool) {
	if s.pid != "C09" || len(s.subs) == 0 {
		return s.h.Put(ctx, c), true
	}
	done := make(chan error, 1)
	h := s.h
	go func() { done <- h.Put(ctx, c) }()
	select {
	case err := <-done:
		return err, true
	case <-time.After(30 * time.Second):
		return nil, false
	}
}

func (s *storeRun) newDS() {
	s.inner = ds_sync.MutexWrap(datastore.NewMapDatastore())
	s.cds = &crashDS{Batching: s.inner, budget: -1}
}

func (s *storeRun) op(coq, desc string) {
	s.ops = append(s.ops, coq)
	s.desc = append(s.desc, desc)
}

func optTable(t *tok, pt gpbft.PowerEntries, err error) string {
	if err != nil {
		return "None"
	}
	return "(Some " + t.table(pt) + ")"
}

// observe records the observable state of the open handle (property's notion of observational identity)
func (s *storeRun) observe(lo, hi uint64) {
	t := s.x.t
	if s.h == nil {
		return
	}
	l := s.h.Latest()
	if l == nil {
		s.op("OLatest None", "latest")
	} else {
		s.op(fmt.Sprintf("OLatest (Some %s)", cU(l.GPBFTInstance)), "latest")
	}
	for i := lo; i <= hi; i++ {
		c, err := s.h.Get(s.ctx, i)
		if err != nil {
			s.op(fmt.Sprintf("OGet %s None", cU(i)), "get")
		} else {
			s.op(fmt.Sprintf("OGet %s (Some (%s, %s))", cU(i), cU(c.GPBFTInstance), cZ(t.of("commit", c.SupplementalData.Commitments[:]))), "get")
			if c.GPBFTInstance != i {
				s.viol("get returns the certificate of the requested instance", "store-get-wrong", fmt.Sprint(i))
			}
		}
		pt, err := s.h.GetPowerTable(s.ctx, i)
		s.op(fmt.Sprintf("OPower %s %s", cU(i), optTable(t, pt, err)), "power")
	}
}

func (s *storeRun) rangeOp(a, b uint64) {
	cs, err := s.h.GetRange(s.ctx, a, b)
	insts := make([]int64, len(cs))
	for i := range cs {
		insts[i] = int64(cs[i].GPBFTInstance)
		if cs[i].GPBFTInstance != a+uint64(i) {
			s.viol("range reads return exactly the stored certificates in order", "store-range-order", fmt.Sprint(a, b, insts))
		}
	}
	code := storeErrCode(err)
	s.op(fmt.Sprintf("ORange %s %s %s %d", cU(a), cU(b), cListZ(insts), code), fmt.Sprintf("range %d %d", a, b))
}

func runStore(o *out, r *rng, thorough bool, pid string) {
	switch pid {
	case "C09":
		o.Rule = "histories of create/open/open-or-create/put{successor,duplicate,gap,stale,wrong delta,wrong cid,bottom,invalid chain,emptying delta}/get/range/power-table/latest/reopen with the check-point frequency lowered to 2..5 so that check-points are crossed densely, replayed on the real certstore (in-memory datastore) and on the Coq model; non-trivial = >=1 accepted put with a non-empty delta and >=1 rejected put or reopen; subscribers: Subscribe at any time (also on a non-empty store), readers that lag by any number of puts, close, re-open; every channel read compared with Store/Subscribers.v, a writer blocked longer than 30 s is a violation"
	case "C10":
		o.Rule = "for every mutating operation (create, put, wipe) of generated histories EVERY prefix of its datastore write sequence is cut (fault-injecting datastore), then the store is reopened with each open variant and its observables (latest, get, power tables) compared with the model; non-trivial = crash point strictly inside an operation"
	case "C17":
		o.Rule = "stores with first instance > 0, evolving tables and lengths crossing check-point boundaries are exported at every end point and imported into an empty datastore (observables compared with the exporter and the model); block-level corruptions (gap, reorder, surplus, header/manifest mismatch, wrong delta incl. compensating pairs) and byte-level truncations must be rejected; non-trivial = store has >=1 non-empty delta; malformed snapshots include a header whose initial table is the genuine one re-ordered or with a duplicated entry against a manifest committing to the genuine table"
	}
	if pid == "C09" {
		longStoreScenario(o, r, thorough)
	}
	x := &c04ctx{t: newTok(), sigs: map[string]*sigRec{}}
	t := x.t
	ctx := context.Background()
	nh := 90
	if thorough {
		nh = 500
	}
	if pid == "C10" {
		nh = 50
		if thorough {
			nh = 250
		}
	}
	for hi := 0; hi < nh; hi++ {
		s := &storeRun{o: o, r: r, x: x, ctx: ctx, pid: pid}
		nontrivial := false
		var violated bool
		s.viol = func(clause, sig, detail string) {
			violated = true
			o.violate(clause, sig, map[string]any{"history": append([]string{}, s.desc...)}, detail)
		}
		s.newDS()
		s.freq = uint64(2 + r.intn(4))
		first := uint64(r.intn(7))
		if pid == "C17" {
			first = uint64(1 + r.intn(7))
		}
		g := newCertGen(r, 3+r.intn(4), first)
		if hi%7 == 3 {
			g.static = true
		}
		initial := g.table
		var toks []string
		tokSeen := map[string]bool{}
		addTok := func(tb gpbft.PowerEntries) {
			c, _ := certs.MakePowerTableCID(tb)
			k := c.String()
			if !tokSeen[k] {
				tokSeen[k] = true
				toks = append(toks, cPair(t.table(tb), cZ(t.cid(c))))
			}
		}
		addTok(initial)
		addTok(gpbft.PowerEntries{})
		open := func(kind int) {
			var err error
			var h *certstore.Store
			if pid == "C09" && len(s.subs) > 0 {
				s.subReset() // a new handle: the subscriptions of the old one are not served any more
			}
			switch kind {
			case 0:
				h, err = certstore.OpenStore(ctx, s.cds)
				s.op(fmt.Sprintf("OOpen %d", storeErrCode(err)), "open")
			case 1:
				h, err = certstore.OpenOrCreateStore(ctx, s.cds, first, initial)
				s.op(fmt.Sprintf("OOpenOrCreate %s %s %d", cU(first), t.table(initial), storeErrCode(err)), "open-or-create")
			default:
				h, err = certstore.CreateStore(ctx, s.cds, first, initial)
				s.op(fmt.Sprintf("OCreate %s %s %d", cU(first), t.table(initial), storeErrCode(err)), "create")
			}
			if storeErrCode(err) < 0 {
				s.viol("store errors are classified", "store-unknown-error", err.Error())
			}
			if err != nil {
				s.h = nil
				return
			}
			h.VerifSetFrequency(s.freq)
			s.h = h
		}
		// -- create --
		if pid == "C10" && r.chance(40) {
			// crash inside create: every prefix
			k := r.intn(3)
			s.cds.budget = k
			_, err := certstore.CreateStore(ctx, s.cds, first, initial)
			s.cds.budget = -1
			s.op(fmt.Sprintf("OCrashCreate %s %s %d%%nat", cU(first), t.table(initial), k), fmt.Sprintf("crash-create k=%d err=%v", k, err))
			if k > 0 && k < 2 {
				nontrivial = true
			}
			// reopen with OpenStore: must be "not initialized" or fully created
			open(0)
			if s.h == nil {
				// the interrupted create can be repeated
				open(2)
				if s.h == nil {
					s.viol("an interrupted create can be repeated successfully", "crash-create-not-repeatable", fmt.Sprint(k))
				}
			}
		} else if r.chance(50) {
			open(2)
		} else {
			open(1)
		}
		if s.h == nil {
			continue
		}
		s.observe(first, first+1)
		nput := 3 + r.intn(10)
		if pid == "C17" {
			nput = 2 + r.intn(9)
		}
		accepted := 0
		rejected := 0
		nonEmptyDelta := false
		var stored []*certs.FinalityCertificate
		for pi := 0; pi < nput && s.h != nil; pi++ {
			// build the honest successor, then maybe a deviation
			save := *g
			c := g.makeCert()
			c.SupplementalData.Commitments[0] = byte(r.intn(256))
			c.SupplementalData.Commitments[1] = byte(r.intn(256))
			addTok(g.table)
			kind := "successor"
			put := c
			roll := r.intn(100)
			if pid != "C09" {
				roll = 99
			}
			switch {
			case roll < 8 && len(stored) > 0:
				put = stored[r.intn(len(stored))]
				kind = "duplicate/stale"
			case roll < 14:
				cp := *c
				cp.GPBFTInstance += uint64(1 + r.intn(3))
				put = &cp
				kind = "gap"
			case roll < 20:
				cp := *c
				cp.PowerTableDelta, _ = corruptDiff(r, save.table, c.PowerTableDelta)
				put = &cp
				kind = "wrong-delta"
			case roll < 25:
				cp := *c
				cp.SupplementalData.PowerTable = gpbft.MakeCid([]byte("nope"))
				put = &cp
				kind = "wrong-cid"
			case roll < 29:
				cp := *c
				cp.ECChain = &gpbft.ECChain{}
				put = &cp
				kind = "bottom"
			case roll < 33:
				cp := *c
				ts := *c.ECChain.TipSets[len(c.ECChain.TipSets)-1]
				ts.Epoch = -5
				cp.ECChain = &gpbft.ECChain{TipSets: append(append([]*gpbft.TipSet{}, c.ECChain.TipSets[:len(c.ECChain.TipSets)-1]...), &ts)}
				put = &cp
				kind = "invalid-chain"
			case roll < 36:
				cp := *c
				var d certs.PowerTableDiff
				for _, e := range sortByID(save.table) {
					d = append(d, certs.PowerTableDelta{ParticipantID: e.ID, PowerDelta: e.Power.Neg()})
				}
				cp.PowerTableDelta = d
				cp.SupplementalData.PowerTable, _ = certs.MakePowerTableCID(gpbft.PowerEntries{})
				put = &cp
				kind = "emptying-delta"
			case roll < 39 && first > 0:
				cp := *c
				cp.GPBFTInstance = first - 1
				put = &cp
				kind = "before-first"
			}
			advanced := *g
			if kind != "successor" {
				*g = save // the honest successor was not consumed (re-instated below if the store advanced anyway)
			}
			if pid == "C10" && kind == "successor" && r.chance(60) {
				// crash inside put: cut after k writes (k ranges over every prefix across the run)
				k := r.intn(4)
				s.cds.budget = k
				err := s.h.Put(ctx, put)
				s.cds.budget = -1
				s.op(fmt.Sprintf("OCrashPut %s %d%%nat", x.certTerm(put), k), fmt.Sprintf("crash-put inst=%d k=%d err=%v", put.GPBFTInstance, k, err))
				nontrivial = nontrivial || (k > 0 && err != nil)
				variant := r.intn(2)
				open(variant)
				if s.h == nil {
					s.viol("reopening after a crash inside put yields a consistent store", "crash-put-reopen-failed", fmt.Sprint(k))
					break
				}
				var lat uint64
				if l := s.h.Latest(); l != nil {
					lat = l.GPBFTInstance + 1
				} else {
					lat = first
				}
				// before-or-after
				if err != nil && lat != put.GPBFTInstance {
					s.viol("state after a crash equals the state before or after the operation", "crash-put-state", fmt.Sprint(k, lat))
				}
				s.observe(first, lat+1)
				// the interrupted operation can be repeated successfully
				if lat == put.GPBFTInstance {
					err2 := s.h.Put(ctx, put)
					s.op(fmt.Sprintf("OPut %s %d", x.certTerm(put), storeErrCode(err2)), "repeat-put")
					if err2 != nil {
						s.viol("the interrupted operation can be repeated successfully", "crash-put-not-repeatable", err2.Error())
					}
				}
				stored = append(stored, put)
				accepted++
				continue
			}
			if pid == "C09" {
				// subscribers: new ones at any time (also on a non-empty store), readers that lag behind by any number of puts
				if r.chance(25) && len(s.subs) < 4 {
					s.subscribe()
				}
				for k, sb := range s.subs {
					if sb.live && r.chance(30) {
						s.subRead(k)
					}
				}
				for k, sb := range s.subs {
					if sb.live && r.chance(4) {
						sb.close()
						sb.live = false
						s.subEv = append(s.subEv, fmt.Sprintf("SClose %d%%nat", k))
					}
				}
			}
			latBefore := s.latestInst()
			err, returned := s.putGuarded(ctx, put)
			if !returned {
				s.viol("subscribers never block writers", "store-writer-blocked-by-subscriber", fmt.Sprintf("Put of instance %d did not return within 30 s with %d subscriptions open", put.GPBFTInstance, len(s.subs)))
				s.h = nil
				break
			}
			if lat := s.latestInst(); pid == "C09" && lat != latBefore {
				s.subEv = append(s.subEv, fmt.Sprintf("SPut %s", cZ(lat)))
			}
			code := storeErrCode(err)
			if code < 0 {
				s.viol("store errors are classified", "store-unknown-error", err.Error())
			}
			s.op(fmt.Sprintf("OPut %s %d", x.certTerm(put), code), fmt.Sprintf("put(%s) inst=%d -> %d", kind, put.GPBFTInstance, code))
			if kind == "successor" {
				if err != nil {
					s.viol("the immediate successor with a correct delta is admitted", "store-successor-rejected", err.Error())
				} else {
					accepted++
					stored = append(stored, put)
					if len(put.PowerTableDelta) > 0 {
						nonEmptyDelta = true
					}
				}
			} else {
				rejected++
				if l := s.h.Latest(); err == nil && l != nil && l.GPBFTInstance == c.GPBFTInstance && put.GPBFTInstance == c.GPBFTInstance {
					// the deviation was a no-op (e.g. a "corrupted" delta identical to the original): the store advanced
					if !bytes.Equal(certBytes(put), certBytes(c)) {
						s.viol("only the immediate successor reproducing the committed table is admitted", "store-bad-put-accepted", kind)
					}
					*g = advanced
					stored = append(stored, put)
					accepted++
				}
			}
			// latest only advances; observations
			if r.chance(35) {
				var lat uint64 = first
				if l := s.h.Latest(); l != nil {
					lat = l.GPBFTInstance + 1
				}
				lo := first
				if lo > 0 && r.chance(30) {
					lo--
				}
				s.observe(lo, lat+1)
				s.rangeOp(first+uint64(r.intn(3)), lat+uint64(r.intn(3)))
				if r.chance(20) {
					s.rangeOp(lat, first)
				}
			}
			if pid != "C17" && r.chance(15) {
				open(r.intn(2))
				rejected++
				if s.h != nil {
					var lat uint64 = first
					if l := s.h.Latest(); l != nil {
						lat = l.GPBFTInstance + 1
					}
					s.observe(first, lat+1)
				}
			}
		}
		if s.h == nil {
			goto emit
		}
		switch pid {
		case "C10":
			if r.chance(60) {
				// wipe, interrupted after k >= 1 low-level writes
				nkeys := 0
				if res, err := s.inner.Query(ctx, query.Query{KeysOnly: true}); err == nil {
					es, _ := res.Rest()
					nkeys = len(es)
				}
				k := 1 + r.intn(nkeys+1)
				s.cds.budget = k
				err := s.h.DeleteAll(ctx)
				s.cds.budget = -1
				s.op(fmt.Sprintf("OCrashWipe %d%%nat", k), fmt.Sprintf("crash-wipe k=%d of %d err=%v", k, nkeys+2, err))
				nontrivial = nontrivial || err != nil
				variant := r.intn(3)
				open(variant)
				if variant == 0 && s.h != nil {
					s.viol("an interrupted wipe is completed on reopen (store is empty)", "crash-wipe-not-resumed", fmt.Sprint(k))
				}
				if variant != 0 && s.h == nil {
					s.viol("an interrupted wipe is completed on reopen, after which the store can be created afresh", "crash-wipe-not-resumed", fmt.Sprint(k))
				}
				if s.h != nil {
					if s.h.Latest() != nil {
						s.viol("an interrupted wipe never leaves a half-deleted history", "crash-wipe-not-resumed", fmt.Sprint(k))
					}
					s.observe(first, first+1)
				}
				// nothing of the old history may survive
				if res, err := s.inner.Query(ctx, query.Query{KeysOnly: true}); err == nil {
					es, _ := res.Rest()
					for _, e := range es {
						if strings.Contains(e.Key, "/certs/") {
							s.viol("an interrupted wipe never leaves a half-deleted history", "crash-wipe-not-resumed", e.Key)
							break
						}
					}
				}
			} else {
				must(s.h.DeleteAll(ctx))
				s.op("ODeleteAll", "delete-all")
				open(0)
			}
		case "C17":
			if l := s.h.Latest(); l != nil {
				runSnapshots(s, g, first, initial, l.GPBFTInstance, stored, &toks, addTok)
			}
		}
	emit:
		if pid == "C09" && len(s.subs) > 0 {
			if s.h != nil {
				s.subFinal()
			}
			o.coqCase(fmt.Sprintf("subscribers of history %d: %s", hi, strings.Join(s.subEv, "; ")),
				fmt.Sprintf("sub_trace_ok None %s", cList(s.subEv)))
			o.Dist["histories-with-subscribers"]++
		}
		o.coqCase(fmt.Sprintf("history %d: %s", hi, strings.Join(s.desc, " | ")),
			fmt.Sprintf("history_ok %s %s %s", cList(toks), cU(s.freq), cList(s.ops)))
		nt := accepted >= 1 && nonEmptyDelta && rejected >= 1
		if pid == "C10" {
			nt = nontrivial
		}
		if pid == "C17" {
			nt = nonEmptyDelta
		}
		o.count(pid+"-history", strings.Join(s.ops, ";"), nt)
		if hi < 2 {
			o.sample(map[string]any{"history": s.desc, "freq": s.freq, "first": first})
		}
		_ = violated
	}
	o.finish("From F3 Require Import GoInt Table Validate CertStore StoreRun Subscribers.")
}

func sortByID(pe gpbft.PowerEntries) gpbft.PowerEntries {
	out := append(gpbft.PowerEntries{}, pe...)
	for i := 1; i < len(out); i++ {
		for j := i; j > 0 && out[j].ID < out[j-1].ID; j-- {
			out[j], out[j-1] = out[j-1], out[j]
		}
	}
	return out
}

// ---- C17 ----
func snapTerm(x *c04ctx, first, latest uint64, init gpbft.PowerEntries, cs []*certs.FinalityCertificate) string {
	var ct []string
	for _, c := range cs {
		ct = append(ct, x.certTerm(c))
	}
	return fmt.Sprintf("(mkSnap %s %s %s %s)", cU(first), cU(latest), x.t.table(init), cList(ct))
}

func buildSnapshot(first, latest uint64, init gpbft.PowerEntries, cs []*certs.FinalityCertificate) []byte {
	var buf bytes.Buffer
	hdr := certstore.SnapshotHeader{Version: 1, FirstInstance: first, LatestInstance: latest, InitialPowerTable: init}
	_, err := hdr.WriteTo(&buf)
	must(err)
	for _, c := range cs {
		b := certBytes(c)
		var lenb [10]byte
		n := putUvarint(lenb[:], uint64(len(b)))
		buf.Write(lenb[:n])
		buf.Write(b)
	}
	return buf.Bytes()
}

func putUvarint(buf []byte, x uint64) int {
	i := 0
	for x >= 0x80 {
		buf[i] = byte(x) | 0x80
		x >>= 7
		i++
	}
	buf[i] = byte(x)
	return i + 1
}

func runSnapshots(s *storeRun, g *certGen, first uint64, initial gpbft.PowerEntries, latest uint64, stored []*certs.FinalityCertificate, toks *[]string, addTok func(gpbft.PowerEntries)) {
	ctx := s.ctx
	t := s.x.t
	r := s.r
	// 1. export at an end point, import into an empty datastore, compare observables
	upto := first + uint64(r.intn(int(latest-first)+1))
	var buf bytes.Buffer
	digest, hdr, err := s.h.ExportSnapshot(ctx, upto, &buf)
	if err != nil {
		s.viol("export of a consistent store succeeds", "snapshot-export-failed", err.Error())
		return
	}
	_ = digest
	if hdr.FirstInstance != first || hdr.LatestInstance != upto {
		s.viol("snapshot header describes the exported range", "snapshot-header", fmt.Sprint(hdr))
	}
	expect := buildSnapshot(first, upto, initial, stored[:upto-first+1])
	if !bytes.Equal(expect, buf.Bytes()) {
		s.viol("the export is the header followed by the stored certificates byte for byte", "snapshot-bytes", "")
	}
	var mf *manifest.Manifest
	mfTerm := "None"
	if r.chance(50) {
		m := manifest.LocalDevnetManifest()
		m.InitialInstance = first
		if r.chance(50) {
			m.InitialPowerTable, _ = certs.MakePowerTableCID(initial)
			mfTerm = fmt.Sprintf("(Some (%s, Some %s))", cU(first), cZ(t.cid(m.InitialPowerTable)))
		} else {
			mfTerm = fmt.Sprintf("(Some (%s, None))", cU(first))
		}
		mf = &m
	}
	exporter := s.h
	target := ds_sync.MutexWrap(datastore.NewMapDatastore())
	err = certstore.VerifImport(ctx, bufio.NewReader(bytes.NewReader(buf.Bytes())), target, mf, s.freq)
	s.op(fmt.Sprintf("OImport %s %s %d", cU(upto), mfTerm, importErrCode(err)), fmt.Sprintf("export/import upto=%d err=%v", upto, err))
	if err != nil {
		s.viol("importing an exported snapshot into an empty datastore succeeds", "snapshot-import-failed", err.Error())
		return
	}
	// switch to the imported store
	s.inner = target
	s.cds = &crashDS{Batching: target, budget: -1}
	h, err := certstore.OpenStore(ctx, s.cds)
	s.op(fmt.Sprintf("OOpen %d", storeErrCode(err)), "open-imported")
	if err != nil {
		s.viol("the imported store opens", "snapshot-import-unopenable", err.Error())
		s.h = nil
		return
	}
	h.VerifSetFrequency(s.freq)
	s.h = h
	// observational identity with the exporter up to `upto`
	if l := h.Latest(); l == nil || l.GPBFTInstance != upto {
		s.viol("imported store has the snapshot's latest instance", "snapshot-latest", fmt.Sprint(l))
	}
	for i := first; i <= upto+1; i++ {
		a, e1 := exporter.GetPowerTable(ctx, i)
		b, e2 := h.GetPowerTable(ctx, i)
		if (e1 == nil) != (e2 == nil) || (e1 == nil && !a.Equal(b)) {
			s.viol("imported store returns the same power table for every instance", "snapshot-power-table", fmt.Sprint(i))
		}
		if i <= upto {
			ca, e1 := exporter.Get(ctx, i)
			cb, e2 := h.Get(ctx, i)
			if e1 != nil || e2 != nil || !bytes.Equal(certBytes(ca), certBytes(cb)) {
				s.viol("imported store holds the same certificates", "snapshot-certs", fmt.Sprint(i))
			}
		}
	}
	s.observe(first, upto+1)
	// the imported store is a full store: it keeps advancing, and every power table stays derivable across the check-point
	// that follows the snapshot's end (also when the snapshot ends right before a check-point instance)
	adv := 0
	for k := 0; k < 2 && int(upto-first)+1+k < len(stored); k++ {
		nc := stored[int(upto-first)+1+k]
		err := h.Put(ctx, nc)
		code := storeErrCode(err)
		s.op(fmt.Sprintf("OPut %s %d", s.x.certTerm(nc), code), fmt.Sprintf("put-after-import inst=%d -> %d", nc.GPBFTInstance, code))
		if err != nil {
			s.viol("the imported store is observationally identical to the exporter: it admits the exporter's next certificate", "snapshot-imported-store-rejects-successor", err.Error())
			break
		}
		adv++
	}
	if adv > 0 {
		for i := first; i <= upto+uint64(adv)+1; i++ {
			a, e1 := exporter.GetPowerTable(ctx, i)
			b, e2 := h.GetPowerTable(ctx, i)
			if (e1 == nil) != (e2 == nil) || (e1 == nil && !a.Equal(b)) {
				s.viol("imported store returns the same power table for every instance", "snapshot-power-table", fmt.Sprintf("instance %d after advancing the imported store by %d (snapshot ended at %d, check-point frequency %d): exporter err=%v, imported err=%v", i, adv, upto, s.freq, e1, e2))
				break
			}
		}
		s.observe(first, upto+uint64(adv)+1)
	}

	// 2. malformed snapshots must be rejected (block level, compared with the model; byte level, monitor only)
	good := stored[:upto-first+1]
	for v := 0; v < 6; v++ {
		cs := append([]*certs.FinalityCertificate{}, good...)
		hf, hl, hinit := first, upto, initial
		var mf2 *manifest.Manifest
		mf2Term := "None"
		kind := ""
		switch r.intn(10) {
		case 8, 9:
			// the header's initial table is the genuine one re-ordered, or with one entry repeated, while the manifest
			// commits to the genuine table: the header disagrees with the manifest
			if len(initial) < 2 {
				continue
			}
			hinit = append(gpbft.PowerEntries{}, initial...)
			if r.chance(50) {
				i := r.intn(len(hinit) - 1)
				hinit[i], hinit[i+1] = hinit[i+1], hinit[i]
				kind = "header-table-reordered"
			} else {
				hinit = append(hinit, hinit[r.intn(len(hinit))])
				kind = "header-table-duplicate"
			}
			addTok(hinit)
			m := manifest.LocalDevnetManifest()
			m.InitialInstance = first
			m.InitialPowerTable, _ = certs.MakePowerTableCID(initial)
			mf2 = &m
			mf2Term = fmt.Sprintf("(Some (%s, Some %s))", cU(first), cZ(t.cid(m.InitialPowerTable)))
		case 0:
			if len(cs) < 2 {
				continue
			}
			i := r.intn(len(cs) - 1)
			cs = append(cs[:i:i], cs[i+1:]...)
			kind = "gap"
		case 1:
			if len(cs) < 2 {
				continue
			}
			i := r.intn(len(cs) - 1)
			cs[i], cs[i+1] = cs[i+1], cs[i]
			kind = "reorder"
		case 2:
			save := *g
			extra := g.makeCert()
			addTok(g.table)
			*g = save
			if upto == latest {
				cs = append(cs, extra)
			} else {
				cs = append(cs, stored[upto-first+1])
			}
			kind = "surplus"
		case 3:
			hl = upto + 1
			kind = "header-latest"
		case 4:
			hf = first + 1
			kind = "header-first"
		case 5:
			m := manifest.LocalDevnetManifest()
			m.InitialInstance = first + 1
			mf2 = &m
			mf2Term = fmt.Sprintf("(Some (%s, None))", cU(first+1))
			kind = "manifest-first"
		case 6:
			m := manifest.LocalDevnetManifest()
			m.InitialInstance = first
			m.InitialPowerTable = gpbft.MakeCid([]byte("other table"))
			mf2 = &m
			mf2Term = fmt.Sprintf("(Some (%s, Some %s))", cU(first), cZ(t.cid(m.InitialPowerTable)))
			kind = "manifest-table"
		default:
			// deltas that do not reproduce the committed tables: shift power between two consecutive deltas
			// (compensating pair) or corrupt a single delta
			i := r.intn(len(cs))
			cp := *cs[i]
			tb := tableAt(initial, good, i)
			member := tb[r.intn(len(tb))]
			bump := certs.PowerTableDelta{ParticipantID: member.ID, PowerDelta: gpbft.NewStoragePower(7)}
			cp.PowerTableDelta = mergeDelta(cp.PowerTableDelta, bump, tb)
			cs[i] = &cp
			kind = "bad-delta"
			if i+1 < len(cs) && r.chance(60) {
				cq := *cs[i+1]
				tb2 := tableAt(initial, good, i+1)
				unb := certs.PowerTableDelta{ParticipantID: member.ID, PowerDelta: gpbft.NewStoragePower(-7)}
				// the next delta is relative to the (wrong) bumped table
				tb2b := append(gpbft.PowerEntries{}, tb2...)
				cq.PowerTableDelta = mergeDelta(cq.PowerTableDelta, unb, tb2b)
				cs[i+1] = &cq
				kind = "bad-delta-compensated"
			}
		}
		snap := buildSnapshot(hf, hl, hinit, cs)
		tgt := ds_sync.MutexWrap(datastore.NewMapDatastore())
		err := certstore.VerifImport(ctx, bufio.NewReader(bytes.NewReader(snap)), tgt, mf2, s.freq)
		code := importErrCode(err)
		if code < 0 {
			s.viol("import errors are classified", "snapshot-unknown-error", err.Error())
			continue
		}
		if err == nil {
			s.viol("malformed snapshots ("+kind+") are rejected", "snapshot-malformed-accepted:"+kind, kind)
		}
		s.op(fmt.Sprintf("OImportSnap %s %s %d", snapTerm(s.x, hf, hl, hinit, cs), mf2Term, code), fmt.Sprintf("import(%s) -> %d", kind, code))
	}
	// byte-level truncation: every proper prefix (quick: boundaries +-2 and a sample) must be rejected
	full := buf.Bytes()
	cuts := []int{0, 1, 2, len(full) - 1, len(full) - 2}
	for k := 0; k < 12; k++ {
		cuts = append(cuts, r.intn(len(full)))
	}
	for _, c := range cuts {
		if c < 0 || c >= len(full) {
			continue
		}
		tgt := ds_sync.MutexWrap(datastore.NewMapDatastore())
		err := certstore.VerifImport(ctx, bufio.NewReader(bytes.NewReader(full[:c])), tgt, nil, s.freq)
		if err == nil {
			s.viol("truncated snapshots are rejected", "snapshot-truncated-accepted", fmt.Sprintf("cut at %d of %d", c, len(full)))
		}
	}
}

// tableAt returns the power table in force for good[i] (i.e. after applying deltas 0..i-1)
func tableAt(initial gpbft.PowerEntries, good []*certs.FinalityCertificate, i int) gpbft.PowerEntries {
	tb := initial
	for k := 0; k < i; k++ {
		var err error
		tb, err = certs.ApplyPowerTableDiffs(tb, good[k].PowerTableDelta)
		must(err)
	}
	return tb
}

// mergeDelta adds `extra` (a pure power change for an existing member) into a canonical diff
func mergeDelta(d certs.PowerTableDiff, extra certs.PowerTableDelta, tb gpbft.PowerEntries) certs.PowerTableDiff {
	out := certs.PowerTableDiff{}
	done := false
	for _, x := range d {
		if x.ParticipantID == extra.ParticipantID {
			np := gpbft.NewStoragePower(0)
			np.Add(x.PowerDelta.Int, extra.PowerDelta.Int)
			y := x
			y.PowerDelta = np
			if !(np.Sign() == 0 && len(y.SigningKey) == 0) {
				out = append(out, y)
			}
			done = true
		} else {
			out = append(out, x)
		}
	}
	if !done {
		out = replaceOrInsert(out, extra)
	}
	return out
}

// longStoreScenario: a store at the PRODUCTION check-point frequency holding well over a thousand certificates (a day of
// finality), so that range reads, power-table derivations (hundreds of deltas past a check-point, across a check-point) and
// reopening work on long histories: every clause of C09 evaluated directly against the generator's own books.
func longStoreScenario(o *out, r *rng, thorough bool) {
	ctx := context.Background()
	n := 1500 + r.intn(200)
	if thorough {
		n = 3100 + r.intn(300)
	}
	first := uint64(r.intn(5))
	g := newCertGen(r, 3+r.intn(3), first)
	initial := g.table
	ds := ds_sync.MutexWrap(datastore.NewMapDatastore())
	h, err := certstore.CreateStore(ctx, ds, first, initial)
	must(err)
	tables := []gpbft.PowerEntries{initial} // tables[k] = table in force for instance first+k
	var stored []*certs.FinalityCertificate
	changes := 0
	for k := 0; k < n; k++ {
		g.static = !(k%97 == 13 || k%211 == 5) // the table changes now and then
		c := g.makeCert()
		if err := h.Put(ctx, c); err != nil {
			o.violate("a certificate is admitted as the immediate successor of the latest one", "store-long-put-rejected", map[string]any{"instance": c.GPBFTInstance}, err.Error())
			return
		}
		if len(c.PowerTableDelta) > 0 {
			changes++
		}
		stored = append(stored, c)
		tables = append(tables, g.table)
	}
	desc := map[string]any{"scenario": "long store at the production check-point frequency", "first": first, "certificates": n, "table_changes": changes}
	check := func(h *certstore.Store, when string) {
		latest := h.Latest()
		if latest == nil || latest.GPBFTInstance != first+uint64(n)-1 {
			o.violate("the latest pointer is the last admitted certificate", "store-long-latest", desc, when)
			return
		}
		rng := func(a, b uint64) {
			got, err := h.GetRange(ctx, a, b)
			wantN := 0
			if a >= first && a < first+uint64(n) {
				wantN = int(min(b, first+uint64(n)-1) - a + 1)
			}
			complete := a >= first && b < first+uint64(n)
			in := map[string]any{"range": []uint64{a, b}, "stored": []uint64{first, first + uint64(n) - 1}, "when": when}
			if complete && err != nil {
				o.violate("range reads return exactly the stored certificates in order", "store-long-range-error", in, err.Error())
				return
			}
			if !complete && err == nil {
				o.violate("range reads return exactly the stored certificates in order (a range reaching beyond the stored history is reported as incomplete)", "store-long-range-incomplete-unreported", in,
					fmt.Sprintf("%d certificates returned for a range of %d with no error", len(got), b-a+1))
				return
			}
			if len(got) != wantN {
				o.violate("range reads return exactly the stored certificates in order", "store-long-range-count", in, fmt.Sprintf("%d returned, %d stored in the range", len(got), wantN))
				return
			}
			for j := range got {
				if !bytes.Equal(certBytes(&got[j]), certBytes(stored[a-first+uint64(j)])) {
					o.violate("range reads return exactly the stored certificates in order", "store-long-range-content", in, fmt.Sprint("position ", j))
					return
				}
			}
			o.count("C09-long-range", fmt.Sprint(a, b), true)
		}
		last := first + uint64(n) - 1
		rng(first, last)
		rng(first, first+1023)
		rng(first, first+1024)
		rng(last-1023, last)   // exactly 1024 stored
		rng(last-1023, last+5) // 1024 stored, more requested
		rng(last-1024, last+1) // 1025 stored, more requested
		rng(first+3, last+1000)
		for k := 0; k < 6; k++ {
			a := first + uint64(r.intn(n))
			rng(a, a+uint64(r.intn(2*n)))
		}
		for _, i := range []uint64{first, first + 1, first + 1023, first + 1024, first + 1025, first + 1300, first + 1439, first + 1440, first + 1441, last, last + 1,
			first + uint64(r.intn(n)), first + uint64(r.intn(n)), first + uint64(r.intn(n))} {
			if i > last+1 {
				continue
			}
			pt, err := h.GetPowerTable(ctx, i)
			in := map[string]any{"instance": i, "when": when, "first": first, "latest": last}
			if err != nil {
				o.violate("for every instance up to the next one the store returns the power table obtained by applying all earlier deltas to the initial table", "store-long-power-table-error", in, err.Error())
				continue
			}
			want := tables[i-first]
			ca, _ := certs.MakePowerTableCID(pt)
			cb, _ := certs.MakePowerTableCID(want)
			if ca != cb {
				o.violate("for every instance up to the next one the store returns the power table obtained by applying all earlier deltas to the initial table", "store-long-power-table", in, "")
			}
			o.count("C09-long-power-table", fmt.Sprint(i), true)
		}
	}
	check(h, "before reopening")
	h2, err := certstore.OpenStore(ctx, ds)
	if err != nil {
		o.violate("the store returns the same history before and after reopening", "store-long-reopen", desc, err.Error())
		return
	}
	check(h2, "after reopening")
	o.sample(desc)
}
