//go:build verif

package main

import (
	"bufio"
	"bytes"
	"context"
	"fmt"
	"github.com/ipfs/go-datastore"
	"io"
	"math"
	"strings"
	"time"

	"github.com/filecoin-project/go-f3/certexchange"
	"github.com/filecoin-project/go-f3/certexchange/polling"
	"github.com/filecoin-project/go-f3/certs"
	"github.com/filecoin-project/go-f3/gpbft"
	"github.com/filecoin-project/go-f3/internal/clock"
	"github.com/libp2p/go-libp2p/core/host"
	"github.com/libp2p/go-libp2p/core/network"
	"github.com/libp2p/go-libp2p/core/peer"
	mocknetwork "github.com/libp2p/go-libp2p/p2p/net/mock"
)

func init() { runners["C16"] = runC16 }

// rawFetch speaks the wire protocol directly (no client-side limit) and returns everything the server wrote.
func rawFetch(ctx context.Context, h host.Host, srv peer.ID, req *certexchange.Request) (*certexchange.ResponseHeader, []*certs.FinalityCertificate, error) {
	ctx, cancel := context.WithTimeout(ctx, 10*time.Second)
	defer cancel()
	s, err := h.NewStream(ctx, srv, certexchange.FetchProtocolName(verifNet))
	if err != nil {
		return nil, nil, err
	}
	defer s.Reset()
	bw := bufio.NewWriter(s)
	if err := req.MarshalCBOR(bw); err != nil {
		return nil, nil, err
	}
	if err := bw.Flush(); err != nil {
		return nil, nil, err
	}
	_ = s.CloseWrite()
	br := bufio.NewReader(s)
	var hdr certexchange.ResponseHeader
	if err := hdr.UnmarshalCBOR(br); err != nil {
		return nil, nil, err
	}
	var out []*certs.FinalityCertificate
	for {
		c := new(certs.FinalityCertificate)
		err := c.UnmarshalCBOR(br)
		if err == io.EOF {
			break
		}
		if err != nil {
			return &hdr, out, err
		}
		out = append(out, c)
		if len(out) > 2000 {
			break
		}
	}
	return &hdr, out, nil
}

func certBytes(c *certs.FinalityCertificate) []byte {
	var b bytes.Buffer
	must(c.MarshalCBOR(&b))
	return b.Bytes()
}

// scripted responder: answers the k-th request with script[k]
type scriptResp struct {
	pending uint64
	certs   []*certs.FinalityCertificate
	reset   bool
}

// responderHook, when set, runs after a request has arrived and before the scripted response is written
var responderHook func(k int)

func installResponder(h host.Host, script []scriptResp) *int {
	served := 0
	h.SetStreamHandler(certexchange.FetchProtocolName(verifNet), func(s network.Stream) {
		k := served
		served++
		if responderHook != nil {
			responderHook(k)
		}
		var req certexchange.Request
		br := bufio.NewReader(s)
		if err := req.UnmarshalCBOR(br); err != nil || k >= len(script) || script[k].reset {
			_ = s.Reset()
			return
		}
		bw := bufio.NewWriter(s)
		hdr := certexchange.ResponseHeader{PendingInstance: script[k].pending}
		_ = hdr.MarshalCBOR(bw)
		for _, c := range script[k].certs {
			_ = c.MarshalCBOR(bw)
		}
		_ = bw.Flush()
		_ = s.Close()
	})
	return &served
}

// corrupt returns a structurally decodable but invalid variant of c.
func corrupt(r *rng, c *certs.FinalityCertificate) (*certs.FinalityCertificate, string) {
	var d certs.FinalityCertificate
	must(d.UnmarshalCBOR(bytes.NewReader(certBytes(c))))
	switch r.intn(4) {
	case 0:
		d.Signature = append([]byte{}, d.Signature...)
		d.Signature[r.intn(len(d.Signature))] ^= 0x40
		return &d, "signature"
	case 1:
		d.SupplementalData.Commitments[3] ^= 1
		return &d, "supplemental"
	case 2:
		ts := *d.ECChain.TipSets[len(d.ECChain.TipSets)-1]
		ts.Epoch += 1000
		nts := append([]*gpbft.TipSet{}, d.ECChain.TipSets[:len(d.ECChain.TipSets)-1]...)
		d.ECChain = &gpbft.ECChain{TipSets: append(nts, &ts)}
		return &d, "chain"
	default:
		d.PowerTableDelta = append(certs.PowerTableDiff{{ParticipantID: 1 << 40, PowerDelta: gpbft.NewStoragePower(5), SigningKey: []byte("pubkey::ffffffff")}}, d.PowerTableDelta...)
		// keep it sorted: the forged participant has the largest id
		d.PowerTableDelta = append(d.PowerTableDelta[1:], d.PowerTableDelta[0])
		return &d, "delta"
	}
}

func runC16(o *out, r *rng, thorough bool, replay string) {
	o.Rule = "server: real certexchange.Server over libp2p mocknet, raw wire requester, (first,limit,powertable) incl. boundary/overflowing values; client/poller: real Client/Poller against a scripted malicious responder (forged, reordered, duplicated, truncated, mis-advertised pending); non-trivial = store has >=3 certs and request != (0,NoLimit), or responder deviates from honest; plus polls during which the first requested certificate is stored locally while the request is in flight and the honest response carries it and its successors (in a third of them followed by a corrupted certificate of the next instance)"
	ctx, cancel := context.WithCancel(context.Background())
	defer cancel()
	ctx, _ = clock.WithMockClock(ctx)

	// ---------- server ----------
	stores := 5
	if thorough {
		stores = 12
	}
	for si := 0; si < stores; si++ {
		sfirst := uint64(0)
		if si%2 == 1 {
			sfirst = uint64(1 + r.intn(5))
		}
		g := newCertGen(r, 4+r.intn(3), sfirst)
		initial := g.table
		n := 3 + r.intn(8)
		if si == 0 {
			n = 300 // exercise the 256 cap
			g.static = true
		}
		var all []*certs.FinalityCertificate
		for k := 0; k < n; k++ {
			all = append(all, g.makeCert())
		}
		net := newCxNet(ctx, sfirst, initial, all)
		pending := sfirst + uint64(n)
		orphan := false
		if si%2 == 0 {
			// the state a Put leaves behind when it is interrupted after the certificate write and before the latest pointer
			// moves (C10): the certificate of the PENDING instance is in the datastore, the store does not know it yet.
			// The server must keep serving strictly below the pending instance it advertises.
			oc := g.makeCert()
			must(cxLastDS.Put(ctx, datastore.NewKey(fmt.Sprintf("/certstore/certs/%016X", oc.GPBFTInstance)), certBytes(oc)))
			orphan = true
		}
		firsts := []uint64{0, sfirst, sfirst + 1, pending - 2, pending - 1, pending, pending + 1, math.MaxUint64, math.MaxUint64 - 1, math.MaxUint64 - 255}
		if sfirst > 0 {
			firsts = append(firsts, sfirst-1)
		}
		limits := []uint64{0, 1, 2, 3, 255, 256, 257, math.MaxUint64, math.MaxUint64 - 1, 1 << 63}
		nreq := 60
		if thorough {
			nreq = 200
		}
		for q := 0; q < nreq; q++ {
			first := pick(r, firsts)
			if r.chance(30) {
				first = sfirst + uint64(r.intn(n+2))
			}
			limit := pick(r, limits)
			if r.chance(30) {
				limit = uint64(r.intn(n + 3))
			}
			wantPT := r.chance(30)
			req := &certexchange.Request{FirstInstance: first, Limit: limit, IncludePowerTable: wantPT}
			hdr, got, err := rawFetch(ctx, net.client, net.srvHost.ID(), req)
			in := map[string]any{"store_first": sfirst, "pending": pending, "first": first, "limit": limit, "power_table": wantPT, "orphan_certificate_at_pending": orphan}
			if err != nil {
				// requesting a power table below the store's first instance is an internal error of the server (stream reset)
				if wantPT && first < sfirst {
					o.count("server-req-pt-unavailable", fmt.Sprint(in), false)
					continue
				}
				o.violate("server answers every well-formed request", "server-error", in, err.Error())
				continue
			}
			insts := make([]int64, len(got))
			for i, c := range got {
				insts[i] = int64(c.GPBFTInstance)
			}
			// ---- monitors: the property text on the wire ----
			if uint64(len(got)) > limit {
				o.violate("never more certificates than requested", "server-more-than-limit", in, fmt.Sprintf("%d certificates on the wire for limit %d", len(got), limit))
			}
			if hdr.PendingInstance != pending {
				o.violate("advertised pending instance is latest+1", "server-pending", in, fmt.Sprint(hdr.PendingInstance))
			}
			for i, c := range got {
				if c.GPBFTInstance != first+uint64(i) || c.GPBFTInstance >= hdr.PendingInstance {
					o.violate("certificates in order from the requested instance and below the advertised pending instance", "server-order", in, fmt.Sprint(insts))
					break
				}
				stored, err := net.srvStore.Get(ctx, c.GPBFTInstance)
				if err != nil || !bytes.Equal(certBytes(stored), certBytes(c)) {
					o.violate("certificates are byte-for-byte the stored ones", "server-bytes", in, fmt.Sprint(c.GPBFTInstance))
					break
				}
			}
			hasPT := len(hdr.PowerTable) > 0
			if wantPT && pending >= first {
				pt, err := net.srvStore.GetPowerTable(ctx, first)
				if err != nil || !pt.Equal(hdr.PowerTable) {
					o.violate("power table for the first requested instance on request", "server-powertable", in, "")
				}
			} else if hasPT {
				o.violate("power table only on request", "server-powertable-unrequested", in, "")
			}
			// ---- correspondence with the model ----
			o.coqCase(fmt.Sprintf("serve %v", in),
				fmt.Sprintf("andb (if list_eq_dec Z.eq_dec (serve %s %s %s %s) %s then true else false) (Bool.eqb (serves_power_table %s %s %s) %s)",
					cU(sfirst), cU(pending), cU(first), cU(limit), cListZ(insts), cU(pending), cU(first), cBool(wantPT), cBool(hasPT)))
			o.count("server-request", fmt.Sprint(in), !(first == 0 && limit == math.MaxUint64))
			if q < 2 && si == 0 {
				o.sample(map[string]any{"kind": "server", "request": in, "served_instances": len(insts)})
			}
		}
		net.close()
	}

	// ---------- client + poller against a scripted responder ----------
	rounds := 120
	if thorough {
		rounds = 600
	}
	for ri := 0; ri < rounds; ri++ {
		g := newCertGen(r, 4+r.intn(3), 0)
		initial := g.table
		total := 4 + r.intn(6)
		var honest []*certs.FinalityCertificate
		for k := 0; k < total; k++ {
			honest = append(honest, g.makeCert())
		}
		have := r.intn(total)
		mn := mocknetwork.New()
		sh, err := mn.GenPeer()
		must(err)
		ch, err := mn.GenPeer()
		must(err)
		must(mn.LinkAll())
		must(mn.ConnectAllButSelf())
		// build script
		nresp := 1 + r.intn(3)
		var script []scriptResp
		var coqResp []string
		var descResp []string
		deviates := false
		cursor := have
		for k := 0; k < nresp; k++ {
			if r.chance(8) {
				script = append(script, scriptResp{reset: true})
				coqResp = append(coqResp, "None")
				descResp = append(descResp, "reset")
				deviates = true
				continue
			}
			var cs []*certs.FinalityCertificate
			var ds []string
			cnt := r.intn(5)
			mode := r.intn(7)
			for j := 0; j < cnt; j++ {
				idx := cursor + j
				switch mode {
				case 1: // reordered
					idx = cursor + cnt - 1 - j
				case 2: // duplicated
					idx = cursor + j/2
				case 3: // gap
					idx = cursor + j + (j+1)/2
				}
				if idx < 0 || idx >= total {
					break
				}
				c := honest[idx]
				ok := true
				if mode == 4 && j == cnt/2 || mode == 5 && r.chance(50) {
					c, _ = corrupt(r, c)
					ok = false
				}
				cs = append(cs, c)
				ds = append(ds, cPair(cU(c.GPBFTInstance), cBool(ok)))
			}
			if mode != 0 && mode != 6 {
				deviates = true
			}
			pending := uint64(total)
			switch r.intn(6) {
			case 0:
				pending = uint64(r.intn(total + 3))
				deviates = true
			case 1:
				pending = uint64(cursor + len(cs))
			case 2:
				pending = math.MaxUint64
				deviates = true
			}
			script = append(script, scriptResp{pending: pending, certs: cs})
			coqResp = append(coqResp, fmt.Sprintf("Some (%s, %s)", cU(pending), cList(ds)))
			descResp = append(descResp, fmt.Sprintf("pending=%d certs=%v", pending, ds))
			cursor += len(cs)
		}
		installResponder(sh, script)

		cstore, _ := newMemStore(ctx, 0, initial)
		// the node's own store may advance (GPBFT decisions) between the creation of the poller and the poll: the poller
		// must then catch up to the store's head AND its power table (tables change from certificate to certificate)
		h0 := have
		if ri%3 != 0 && r.chance(50) {
			h0 = r.intn(have + 1)
		}
		for _, c := range honest[:h0] {
			must(cstore.Put(ctx, c))
		}
		client := &certexchange.Client{Host: ch, NetworkName: verifNet, RequestTimeout: 5 * time.Second}
		if ri%3 == 0 {
			// plain client request (first script entry only)
			limit := uint64(r.intn(6))
			if r.chance(20) {
				limit = certexchange.NoLimit
			}
			first := uint64(have)
			if r.chance(20) {
				first = uint64(r.intn(total))
			}
			hdr, chn, err := client.Request(ctx, sh.ID(), &certexchange.Request{FirstInstance: first, Limit: limit})
			var got []int64
			if err == nil {
				for c := range chn {
					got = append(got, int64(c.GPBFTInstance))
				}
			}
			in := map[string]any{"first": first, "limit": limit, "response": descResp[0]}
			for i, x := range got {
				if uint64(x) != first+uint64(i) || uint64(i) >= limit {
					o.violate("client delivers only sequential certificates, at most limit", "client-sequence", in, fmt.Sprint(got))
					break
				}
			}
			if script[0].reset {
				o.coqCase(fmt.Sprintf("client(reset) %v", in), cBool(err != nil || len(got) == 0))
			} else {
				lim := limit
				if lim > 300 {
					lim = 300
				}
				_ = hdr
				raw := coqResp[0][len("Some ("):]
				// raw = "<pending>, [..])"
				listStart := bytes.IndexByte([]byte(raw), '[')
				lst := raw[listStart : len(raw)-1]
				o.coqCase(fmt.Sprintf("client %v", in),
					fmt.Sprintf("if list_eq_dec Z.eq_dec (map fst (client_recv (fst : dcert -> Z) %s %d%%nat 0 %s)) %s then true else false",
						cU(first), lim, lst, cListZ(got)))
			}
			o.count("client-request", fmt.Sprint(in), deviates)
		} else {
			p, err := polling.NewPoller(ctx, client, cstore, g.backend)
			must(err)
			for _, c := range honest[h0:have] {
				must(cstore.Put(ctx, c)) // local progress after the poller was created
			}
			if h0 < have {
				o.Dist["poll-after-local-progress"]++
			}
			before := uint64(have)
			res, err := p.Poll(ctx, sh.ID())
			in := map[string]any{"client_had": have, "honest_chain": total, "responses": descResp}
			if err != nil {
				o.violate("poll never fails internally on peer misbehaviour", "poller-internal-error", in, err.Error())
			} else {
				// monitors: store holds only honest certificates, contiguous; NextInstance = stored prefix
				var stored []int64
				latest := cstore.Latest()
				if latest != nil {
					for i := uint64(have); i <= latest.GPBFTInstance; i++ {
						c, err := cstore.Get(ctx, i)
						if err != nil || !bytes.Equal(certBytes(c), certBytes(honest[i])) {
							o.violate("poller stores only certificates that validate against its own table", "poller-stored-invalid", in, fmt.Sprint(i))
							break
						}
						stored = append(stored, int64(i))
					}
				}
				var storeNext uint64
				if latest != nil {
					storeNext = latest.GPBFTInstance + 1
				}
				if p.NextInstance != storeNext || p.NextInstance < before {
					o.violate("poller advances exactly by the stored prefix", "poller-advance", in, fmt.Sprint(before, p.NextInstance, storeNext))
				}
				// the first response's valid prefix (the honest certificates have, have+1, ... in order) must be stored
				if len(script) > 0 && !script[0].reset {
					want := uint64(have)
					for _, c := range script[0].certs {
						if int(want) < len(honest) && c.GPBFTInstance == want && bytes.Equal(certBytes(c), certBytes(honest[want])) {
							want++
						} else {
							break
						}
					}
					if p.NextInstance < want {
						o.violate("the poller stores the certificates that validate against its own current power table and advances exactly by that valid prefix", "poller-valid-prefix-not-stored", in,
							fmt.Sprintf("valid prefix reaches instance %d, poller stopped at %d (status %s)", want, p.NextInstance, res.Status))
					}
				}
				o.coqCase(fmt.Sprintf("poll %v", in),
					fmt.Sprintf("match dpoll_c 8 %s %s PollMiss 0 [] with (nx, st, rc, stored) => andb (andb (Z.eqb nx %s) (Z.eqb (pstatus_code st) %d)) (andb (Nat.eqb rc %d) (if list_eq_dec Z.eq_dec stored %s then true else false)) end",
						cU(before), cList(coqResp), cU(p.NextInstance), int(res.Status), res.ReceivedCertificates, cListZ(stored)))
				if ri < 6 {
					o.sample(map[string]any{"kind": "poll", "input": in, "status": res.Status.String(), "received": res.ReceivedCertificates, "next": p.NextInstance})
				}
			}
			o.count("poll", fmt.Sprint(in), deviates)
		}
		_ = mn.Close()
	}
	// ---- the node's own GPBFT stores the certificate that is being requested while the request is in flight, and the
	// (honest) response carries that certificate and its successors: the poller advances by the whole valid prefix and
	// the peer is not branded
	scen := 6
	if thorough {
		scen = 40
	}
	for si := 0; si < scen; si++ {
		g := newCertGen(r, 3+r.intn(3), 0)
		initial := g.table
		total := 5 + r.intn(4)
		var honest []*certs.FinalityCertificate
		for i := 0; i < total; i++ {
			honest = append(honest, g.makeCert())
		}
		have := r.intn(total - 3)
		extra := 2 + r.intn(2)
		mn := mocknetwork.New()
		sh, err := mn.GenPeer()
		must(err)
		ch, err := mn.GenPeer()
		must(err)
		must(mn.LinkAll())
		must(mn.ConnectAllButSelf())
		cstore, _ := newMemStore(ctx, 0, initial)
		for _, c := range honest[:have] {
			must(cstore.Put(ctx, c))
		}
		// in a third of the scenarios the response continues, after its honest prefix, with a corrupted variant of the next
		// certificate (right instance, does not validate): the prefix is still stored, the cursor stops at its end and
		// the verdict is illegal.  (An out-of-sequence certificate never reaches the poller: the client ends the stream.)
		tamper := si%3 == 2 && have+extra < total
		respCerts := append([]*certs.FinalityCertificate{}, honest[have:have+extra]...)
		respPending := uint64(have + extra)
		if tamper {
			bad, _ := corrupt(r, honest[have+extra])
			respCerts = append(respCerts, bad)
			respPending = uint64(have + extra + 1)
		}
		installResponder(sh, []scriptResp{{pending: respPending, certs: respCerts}})
		localPuts := 1 + r.intn(2) // 1 or 2 local instances finish meanwhile (extra >= 2)
		if si%5 == 4 {
			localPuts = 0
		}
		responderHook = func(k int) {
			if k == 0 {
				for j := 0; j < localPuts; j++ {
					_ = cstore.Put(ctx, honest[have+j]) // the local instance `have+j` finished meanwhile
				}
			}
		}
		client := &certexchange.Client{Host: ch, NetworkName: verifNet, RequestTimeout: 5 * time.Second}
		p, err := polling.NewPoller(ctx, client, cstore, g.backend)
		must(err)
		res, err := p.Poll(ctx, sh.ID())
		responderHook = nil
		in := map[string]any{"client_had": have, "response_certs": extra, "local_puts_in_flight": localPuts, "response_then_invalid_certificate": tamper, "scenario": "certificate stored locally while the request for it was in flight"}
		if err != nil {
			o.violate("poll never fails internally", "poller-internal-error", in, err.Error())
		} else {
			if tamper && res.Status != polling.PollIllegal {
				o.violate("the poller classifies the peer according to what it sent", "poller-invalid-certificate-not-illegal", in, fmt.Sprintf("a response continuing with an invalid certificate was classified %s", res.Status))
			}
			if !tamper && res.Status == polling.PollIllegal {
				o.violate("the poller classifies the peer according to what it sent", "poller-honest-peer-branded", in, fmt.Sprintf("an honest response was classified %s: %v", res.Status, res.Error))
			}
			if p.NextInstance != uint64(have+extra) {
				o.violate("the poller stores the certificates that validate against its own current power table and advances exactly by that valid prefix", "poller-valid-prefix-not-stored", in,
					fmt.Sprintf("valid prefix reaches instance %d, poller is at %d (status %s)", have+extra, p.NextInstance, res.Status))
			}
			if l := cstore.Latest(); l == nil || l.GPBFTInstance != uint64(have+extra-1) {
				o.violate("the poller stores the valid prefix", "poller-valid-prefix-not-stored", in, "store head differs from the end of the valid prefix")
			}
		}
		if err == nil {
			// the same run through the model of the per-certificate loop with local progress (Cx/PollLocal.v)
			var items []string
			for j := 0; j < localPuts; j++ {
				items = append(items, "PollLocal.PLocal")
			}
			for j := 0; j < extra; j++ {
				items = append(items, fmt.Sprintf("PollLocal.PCert %s true", cZ(int64(have+j))))
			}
			if tamper {
				items = append(items, fmt.Sprintf("PollLocal.PCert %s false", cZ(int64(have+extra)))) // right instance, does not validate
			}
			latest := int64(-1)
			if l := cstore.Latest(); l != nil {
				latest = int64(l.GPBFTInstance)
			}
			o.coqCase(fmt.Sprintf("poll-local %v", in),
				fmt.Sprintf("PollLocal.local_poll_ok %s %s [%s] %s %s %s %s %s", cZ(int64(have)), cZ(int64(have)-1), strings.Join(items, "; "),
					cZ(int64(p.NextInstance)), cZ(latest), cZ(int64(res.ReceivedCertificates)), cZ(int64(res.NewCertificates)), cBool(res.Status == polling.PollIllegal)))
		}
		o.count("poll-local-put-in-flight", fmt.Sprint(in), true)
		_ = mn.Close()
	}
	o.finish("From F3 Require Import GoInt ServerGen Exchange PollLocal.")
}
