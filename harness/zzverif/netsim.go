//go:build verif

package main

import (
	"context"
	"errors"
	"fmt"
	"sort"
	"time"

	"github.com/filecoin-project/go-f3/certs"
	"github.com/filecoin-project/go-f3/gpbft"
	"github.com/filecoin-project/go-f3/pmsg"
	"github.com/filecoin-project/go-f3/sim/signing"
)

// netsim: n REAL gpbft.Participants over a harness Host, an adversarial scheduler and Byzantine senders.
// It is a search / monitoring tool (replays, trace export); it never "proves" anything.

type slotKey struct {
	inst  uint64
	round uint64
	phase gpbft.Phase
}

type sentVote struct {
	sender int
	msg    *gpbft.GMessage
	honest bool
	seq    int
}

type pendingMsg struct {
	to    int
	msg   *gpbft.GMessage
	from  int
	ready time.Time // earliest delivery time
}

type gnode struct {
	net      *gnet
	idx      int
	id       gpbft.ActorID
	honest   bool
	p        *gpbft.Participant
	input    *gpbft.ECChain
	alarm    time.Time
	hasAlarm bool
	decided  *gpbft.Justification
	sentBy   map[slotKey][]*gpbft.GMessage
	lastProg gpbft.Instant
	qualityDelivered map[gpbft.ActorID]*gpbft.ECChain
	started  bool
	crashed  bool
	maxRound uint64
	bcasts   []*gpbft.GMessage // every first transmission of this node, in order
	reported     []*gpbft.Justification // every decision handed to Host.ReceiveDecision, accepted by the host or not
	failDecision int                    // the host fails to accept the next so many decisions (e.g. a storage error)
	begun    bool              // its start alarm has fired (the instance exists)
}

type gnet struct {
	r        *rng
	ctx      context.Context
	backend  *signing.FakeBackend
	pt       *gpbft.PowerTable
	supp     gpbft.SupplementalData
	instance uint64
	base     *gpbft.TipSet
	now      time.Time
	nodes    []*gnode
	pool     []*pendingMsg
	votes    []*sentVote // every vote handed to the network, in order
	viol     func(clause, sig, detail string)
	delta    time.Duration
	observer *gpbft.Participant // started at round 0 and never fed: validates every message of the instance
	obsHost  *gnode
	steps    int
	maxDelay time.Duration
	dropP    int
	stabilised bool
	log      []string
	partition bool                             // before stabilisation honest<->honest links are (very) slow
	slow      func(from, to int, msg *gpbft.GMessage) bool // finer-grained: which honest<->honest transmissions are slow
	onSend    func(from int, msg *gpbft.GMessage) // adversary hook: sees every first transmission of an honest node
	delay     func(from, to int, msg *gpbft.GMessage) (time.Duration, bool) // before stabilisation: explicit delay of one transmission
	stopAt    time.Time                                                      // run() returns once the clock reaches this time
	twoStage  bool                                                           // messages travel in partial form: partial validation, completion with the announced chain, full validation
	primed    map[string]bool                                                // (receiver, message) pairs whose completion was postponed once
	// network-level trace for the Layer-N network model (RefineRun.net_trace_ok)
	rec     bool
	acts    []string
	nct     *chainTok
	byzSeen map[string]bool
	t0      time.Time
}

var _ gpbft.Host = (*gnode)(nil)

func (n *gnode) GetProposal(_ context.Context, instance uint64) (*gpbft.SupplementalData, *gpbft.ECChain, error) {
	if instance != n.net.instance {
		return nil, nil, fmt.Errorf("no proposal for instance %d", instance)
	}
	s := n.net.supp
	return &s, n.input, nil
}
func (n *gnode) GetCommittee(_ context.Context, instance uint64) (*gpbft.Committee, error) {
	agg, err := n.net.backend.Aggregate(n.net.pt.Entries.PublicKeys())
	if err != nil {
		return nil, err
	}
	return &gpbft.Committee{PowerTable: n.net.pt, Beacon: []byte("beacon"), AggregateVerifier: agg}, nil
}
func (n *gnode) NetworkName() gpbft.NetworkName { return verifNet }
func (n *gnode) Time() time.Time               { return n.net.now }
func (n *gnode) SetAlarm(at time.Time) {
	n.alarm = at
	n.hasAlarm = !at.IsZero()
}
func (n *gnode) Verify(k gpbft.PubKey, msg, sig []byte) error { return n.net.backend.Verify(k, msg, sig) }
func (n *gnode) Aggregate(keys []gpbft.PubKey) (gpbft.Aggregate, error) {
	return n.net.backend.Aggregate(keys)
}
func (n *gnode) ReceiveDecision(_ context.Context, d *gpbft.Justification) (time.Time, error) {
	n.reported = append(n.reported, d)
	if n.failDecision > 0 {
		n.failDecision--
		return time.Time{}, errors.New("host could not persist the decision")
	}
	n.decided = d
	return n.net.now.Add(1000 * time.Hour), nil
}

// addShadow adds a second personality of member `of` (same identity and key, its own participant): how a Byzantine member
// that behaves "honestly" in two partitions at once is played.  Returns the index of the new node.
func (g *gnet) addShadow(of int, in *gpbft.ECChain) int {
	nd := &gnode{net: g, idx: len(g.nodes), id: g.nodes[of].id, honest: true, input: in, sentBy: map[slotKey][]*gpbft.GMessage{}, qualityDelivered: map[gpbft.ActorID]*gpbft.ECChain{}}
	p, err := gpbft.NewParticipant(nd, gpbft.WithDelta(g.delta), gpbft.WithRebroadcastBackoff(1.3, 0, g.delta, 8*g.delta))
	must(err)
	nd.p = p
	g.nodes = append(g.nodes, nd)
	return nd.idx
}
func (n *gnode) RequestBroadcast(mb *gpbft.MessageBuilder) error {
	msg, err := mb.Build(n.net.ctx, n.net.backend, n.id)
	if err != nil {
		if errors.Is(err, gpbft.ErrNoPower) {
			return nil
		}
		return err
	}
	k := slotKey{msg.Vote.Instance, msg.Vote.Round, msg.Vote.Phase}
	if n.honest && n != n.net.obsHost {
		if len(n.sentBy[k]) > 0 {
			n.net.viol("an honest participant emits at most one message per instance, round and step", "c07-two-messages-per-slot",
				fmt.Sprintf("node %d slot %+v", n.idx, k))
		}
		n.net.checkEmission(n, msg)
	}
	n.sentBy[k] = append(n.sentBy[k], msg)
	if n != n.net.obsHost {
		n.bcasts = append(n.bcasts, msg)
		n.net.send(n.idx, msg, true)
	}
	return nil
}
func (n *gnode) RequestRebroadcast(in gpbft.Instant) error {
	for _, m := range n.sentBy[slotKey{in.ID, in.Round, in.Phase}] {
		if n != n.net.obsHost {
			n.net.send(n.idx, m, false)
		}
	}
	return nil
}

func (g *gnet) send(from int, msg *gpbft.GMessage, first bool) {
	if first {
		g.votes = append(g.votes, &sentVote{sender: from, msg: msg, honest: g.nodes[from].honest, seq: len(g.votes)})
	}
	if first && g.onSend != nil && g.nodes[from].honest && !g.stabilised {
		g.onSend(from, msg)
	}
	for _, to := range g.nodes {
		if to.crashed {
			continue
		}
		d := time.Duration(0)
		if !g.stabilised && g.delay != nil && to.idx != from {
			if dd, ok := g.delay(from, to.idx, msg); ok {
				g.pool = append(g.pool, &pendingMsg{to: to.idx, msg: msg, from: from, ready: g.now.Add(dd)})
				continue
			}
		}
		if !g.stabilised && to.idx != from && g.nodes[from].honest && to.honest && (g.partition || (g.slow != nil && g.slow(from, to.idx, msg))) {
			g.pool = append(g.pool, &pendingMsg{to: to.idx, msg: msg, from: from, ready: g.now.Add(100000 * time.Second)})
			continue
		}
		if !g.stabilised && g.maxDelay > 0 {
			d = time.Duration(g.r.i64n(int64(g.maxDelay)))
			if g.dropP > 0 && to.idx != from && g.r.chance(g.dropP) && !first {
				continue // only re-broadcasts may be dropped: "no message between honest participants is lost"
			}
		} else if g.delta > 0 {
			d = time.Duration(g.r.i64n(int64(g.delta)/2 + 1))
		}
		g.pool = append(g.pool, &pendingMsg{to: to.idx, msg: msg, from: from, ready: g.now.Add(d)})
	}
}

type gnetCfg struct {
	n          int
	powers     []int64
	byz        []bool
	inputs     []*gpbft.ECChain
	delta      time.Duration
	maxDelay   time.Duration
	dropP      int
	opts       []gpbft.Option
}

func newGnet(r *rng, cfg gnetCfg, viol func(clause, sig, detail string)) *gnet {
	g := &gnet{r: r, ctx: context.Background(), backend: signing.NewFakeBackend(), viol: viol, delta: cfg.delta, maxDelay: cfg.maxDelay, dropP: cfg.dropP,
		now: time.Unix(1_700_000_000, 0), instance: 0}
	var entries gpbft.PowerEntries
	for i := 0; i < cfg.n; i++ {
		k, _ := g.backend.GenerateKey()
		entries = append(entries, gpbft.PowerEntry{ID: gpbft.ActorID(1 + i), Power: gpbft.NewStoragePower(cfg.powers[i]), PubKey: k})
	}
	g.pt = gpbft.NewPowerTable()
	must(g.pt.Add(entries...))
	g.nct = &chainTok{m: map[string]int64{}}
	g.byzSeen = map[string]bool{}
	g.t0 = g.now
	g.supp = gpbft.SupplementalData{PowerTable: ptCid}
	g.base = cfg.inputs[0].Base()
	mk := func(i int, honest bool, in *gpbft.ECChain) *gnode {
		nd := &gnode{net: g, idx: i, id: gpbft.ActorID(1 + i), honest: honest, input: in, sentBy: map[slotKey][]*gpbft.GMessage{}, qualityDelivered: map[gpbft.ActorID]*gpbft.ECChain{}}
		opts := append([]gpbft.Option{gpbft.WithDelta(cfg.delta), gpbft.WithRebroadcastBackoff(1.3, 0, cfg.delta, 8*cfg.delta)}, cfg.opts...)
		p, err := gpbft.NewParticipant(nd, opts...)
		must(err)
		nd.p = p
		return nd
	}
	for i := 0; i < cfg.n; i++ {
		g.nodes = append(g.nodes, mk(i, !cfg.byz[i], cfg.inputs[i]))
	}
	// observer: identity of node 0, started and frozen at round 0
	g.obsHost = mk(0, true, cfg.inputs[0])
	g.observer = g.obsHost.p
	must(g.observer.StartInstanceAt(0, g.now))
	must(g.observer.ReceiveAlarm(g.ctx))
	return g
}

func (g *gnet) start(i int) {
	n := g.nodes[i]
	if n.started || !n.honest {
		return
	}
	n.started = true
	if err := n.p.StartInstanceAt(g.instance, g.now); err != nil {
		g.viol("starting an instance never fails", "c07-start-error", err.Error())
	}
}

// power-table index of a node
func (g *gnet) ptIndex(id gpbft.ActorID) int { return g.pt.Lookup[id] }

func (g *gnet) progressCheck(n *gnode) {
	pr := n.p.Progress().Instant
	if pr.ID == n.lastProg.ID {
		if pr.Round < n.lastProg.Round || (pr.Round == n.lastProg.Round && pr.Phase < n.lastProg.Phase) {
			g.viol("(round, step) progress never moves backwards", "c07-progress-backwards", fmt.Sprintf("node %d: %+v -> %+v", n.idx, n.lastProg, pr))
		}
	}
	n.lastProg = pr
	if pr.ID == g.instance && pr.Round > n.maxRound {
		n.maxRound = pr.Round
	}
}

// checkEmission: monitors on what an honest node emits (C07)
func (g *gnet) checkEmission(n *gnode, msg *gpbft.GMessage) {
	// every emitted message is valid and acceptable to peers: a peer frozen at round 0 of the same instance validates it
	if _, err := g.observer.ValidateMessage(g.ctx, msg); err != nil {
		g.viol("every message an honest participant emits is valid and acceptable to its peers", "c07-emitted-invalid",
			fmt.Sprintf("node %d %s round %d: %v", n.idx, msg.Vote.Phase, msg.Vote.Round, err))
	}
	v := msg.Vote.Value
	switch msg.Vote.Phase {
	case gpbft.PREPARE_PHASE:
		if msg.Vote.Round == 0 {
			// longest prefix of the input backed by a strong quorum of the QUALITY votes delivered so far (base if none)
			want := n.input.BaseChain()
			for l := n.input.Len(); l >= 1; l-- {
				pre := n.input.Prefix(l - 1)
				var pw int64
				for id, c := range n.qualityDelivered {
					if c.HasPrefix(pre) {
						sp, _ := g.pt.Get(id)
						pw += sp
					}
				}
				if indepStrong(pw, g.pt.ScaledTotal) {
					want = pre
					break
				}
			}
			if !v.Eq(want) {
				g.viol("round-0 PREPARE value is the longest prefix of the input backed by a strong quorum of the QUALITY votes delivered so far", "c07-prepare0",
					fmt.Sprintf("node %d prepared %s, expected %s", n.idx, v, want))
			}
		}
		fallthrough
	case gpbft.CONVERGE_PHASE, gpbft.COMMIT_PHASE, gpbft.DECIDE_PHASE:
		// only ever votes for a prefix of its own input or a value with proof of a strong quorum
		if !v.IsZero() && !n.input.HasPrefix(v) && msg.Justification == nil {
			g.viol("an honest participant only votes for a prefix of its input or a value for which it holds proof of a strong quorum", "c07-vote-no-evidence",
				fmt.Sprintf("node %d %s %s", n.idx, msg.Vote.Phase, v))
		}
		// Layer S (SpecProofs.prepare_valid / commit_valid): with faulty power < 1/3, every value an honest participant
		// PREPAREs, COMMITs or DECIDEs is a non-empty prefix of the input of SOME honest participant -- the induction behind
		// validity (C02) breaks at the first honest vote for anything else
		if msg.Vote.Phase != gpbft.CONVERGE_PHASE && !v.IsZero() {
			ok := false
			for _, h := range g.nodes {
				if h.honest && h.input.HasPrefix(v) {
					ok = true
				}
			}
			if !ok {
				g.viol("decided values stem from an honest input: no honest participant ever prepares, commits or decides a value that is not a prefix of an honest input", "c02-honest-vote-foreign-value",
					fmt.Sprintf("node %d %s round %d for %s (justification attached: %v)", n.idx, msg.Vote.Phase, msg.Vote.Round, v, msg.Justification != nil))
			}
		}
	}
}

// deliver one pending message (validation first, as the real host does)
func (g *gnet) deliver(pm *pendingMsg) {
	n := g.nodes[pm.to]
	if !n.honest || n.crashed {
		return
	}
	var vm gpbft.ValidatedMessage
	var err error
	if g.twoStage {
		// the message arrives without its chain (pmsg): partial validation against the announced key; the chain may be
		// known only later (the message waits in partial form meanwhile); then completion and full validation
		pg, serr := pmsg.VerifStrip(cloneMsg(pm.msg))
		if serr != nil {
			return
		}
		pvm, perr := n.p.PartiallyValidateMessage(g.ctx, pg)
		err = perr
		if perr == nil {
			key := fmt.Sprintf("%d/%p", pm.to, pm.msg)
			if !g.stabilised && !g.primed[key] && g.r.chance(35) {
				if g.primed == nil {
					g.primed = map[string]bool{}
				}
				g.primed[key] = true
				g.pool = append(g.pool, &pendingMsg{to: pm.to, msg: pm.msg, from: pm.from, ready: g.now.Add(g.delta)})
				return // chain not known yet: validated in partial form, delivered later
			}
			pmsg.VerifComplete(pg, pm.msg.Vote.Value)
			vm, err = n.p.FullyValidateMessage(g.ctx, pvm)
		}
	} else {
		vm, err = n.p.ValidateMessage(g.ctx, pm.msg)
	}
	if err != nil {
		if g.nodes[pm.from].honest && errors.Is(err, gpbft.ErrValidationInvalid) {
			g.viol("no valid message is ever branded invalid", "c05-honest-message-invalid", fmt.Sprintf("from %d to %d %s r%d: %v", pm.from, pm.to, pm.msg.Vote.Phase, pm.msg.Vote.Round, err))
		}
		return
	}
	if pm.msg.Vote.Phase == gpbft.QUALITY_PHASE {
		if _, ok := n.qualityDelivered[pm.msg.Sender]; !ok && n.p.Progress().Phase != gpbft.INITIAL_PHASE {
			n.qualityDelivered[pm.msg.Sender] = pm.msg.Vote.Value
		} else if !ok {
			// queued before the instance began: delivered at start
			n.qualityDelivered[pm.msg.Sender] = pm.msg.Vote.Value
		}
	}
	nb := len(n.bcasts)
	if g.rec && !g.nodes[pm.from].honest {
		key := fmt.Sprintf("%d/%d/%d/%s", pm.from, pm.msg.Vote.Round, pm.msg.Vote.Phase, ckey(pm.msg.Vote.Value))
		if !g.byzSeen[key] {
			g.byzSeen[key] = true
			val, _ := g.nct.chain(pm.msg.Vote.Value)
			g.acts = append(g.acts, fmt.Sprintf("AByz (Spec.V %d %d Spec.%s %s)", g.ptIndex(pm.msg.Sender), pm.msg.Vote.Round, phaseCoq(pm.msg.Vote.Phase), val))
		}
	}
	if err := n.p.ReceiveMessage(g.ctx, vm); err != nil {
		g.viol("delivering a validated message never yields an internal error or panic", "c07-receive-error",
			fmt.Sprintf("node %d %s r%d from %d: %v", n.idx, pm.msg.Vote.Phase, pm.msg.Vote.Round, pm.from, err))
	}
	if g.rec {
		g.acts = append(g.acts, fmt.Sprintf("ADeliver %d %d %s %s", g.ptIndex(n.id), int64(g.now.Sub(g.t0)), g.msgTerm(pm.msg), g.swayHint(n, nb)))
	}
	g.progressCheck(n)
}

// Coq term of a message for the Layer-N network model (senders and signers are power-table indices)
func (g *gnet) msgTerm(msg *gpbft.GMessage) string {
	rank := "0"
	if msg.Vote.Phase == gpbft.CONVERGE_PHASE {
		sp, _ := g.pt.Get(msg.Sender)
		rank = rankKey(gpbft.ComputeTicketRank(msg.Ticket, sp))
	}
	j := "None"
	if just := msg.Justification; just != nil {
		var sl []int64
		_ = just.Signers.ForEach(func(b uint64) error { sl = append(sl, int64(b)); return nil })
		j = fmt.Sprintf("(Some (mkJ %d %s %s %s))", just.Vote.Round, phaseCoqN(just.Vote.Phase), g.nct.raw(just.Vote.Value), cListZ(sl))
	}
	return fmt.Sprintf("(mkM %d %d %s %s %s %s)", g.ptIndex(msg.Sender), msg.Vote.Round, phaseCoqN(msg.Vote.Phase), g.nct.raw(msg.Vote.Value), rank, j)
}

// the value of the last CONVERGE broadcast made during the current event (the model's hint for Go's map order in tryCommit)
func (g *gnet) swayHint(n *gnode, nb int) string {
	for i := len(n.bcasts) - 1; i >= nb; i-- {
		if m := n.bcasts[i]; m.Vote.Phase == gpbft.CONVERGE_PHASE {
			return "(Some " + g.nct.raw(m.Vote.Value) + ")"
		}
	}
	return "None"
}

// terms for RefineRun.net_trace_ok: config, honest flags and inputs by table index, actions, final observations
func (g *gnet) netTrace() (cfg, honest, inputs, acts, finals string) {
	var p0 *gpbft.Participant
	for _, nd := range g.nodes {
		if nd.honest {
			p0 = nd.p
			break
		}
	}
	var tos, ras []int64
	for r := 0; r < 12; r++ {
		tos = append(tos, p0.VerifPhaseTimeout(uint64(r), false))
	}
	for a := 0; a < 40; a++ {
		ras = append(ras, p0.VerifRebroadcastAfter(a))
	}
	cfg = fmt.Sprintf("(mkCfg %s %s %d %d %d %s %s)", cListZ(g.pt.ScaledPower), cZ(g.pt.ScaledTotal), p0.VerifMaxLookahead(),
		p0.VerifRebroadcastImmediatelyAfter(), p0.VerifPhaseTimeout(0, true), cListZ(tos), cListZ(ras))
	hs := make([]string, len(g.nodes))
	ins := make([]string, len(g.nodes))
	var fs []string
	for _, nd := range g.nodes {
		k := g.ptIndex(nd.id)
		hs[k] = cBool(nd.honest)
		ins[k] = g.nct.raw(nd.input)
		if !nd.honest || !nd.begun {
			continue
		}
		if nd.decided != nil {
			fs = append(fs, fmt.Sprintf("(%d, Some %s, 0, 0)", k, g.nct.raw(nd.decided.Vote.Value)))
		} else {
			pr := nd.p.Progress()
			fs = append(fs, fmt.Sprintf("(%d, None, %d, %d)", k, pr.Round, int(pr.Phase)))
		}
	}
	return cfg, cList(hs), cList(ins), cList(g.acts), cList(fs)
}

func (g *gnet) fireAlarm(n *gnode) {
	n.hasAlarm = false
	nb := len(n.bcasts)
	if err := n.p.ReceiveAlarm(g.ctx); err != nil {
		g.viol("delivering a timer never yields an internal error or panic", "c07-alarm-error", fmt.Sprintf("node %d: %v", n.idx, err))
	}
	if g.rec {
		if !n.begun {
			g.acts = append(g.acts, fmt.Sprintf("AStart %d %d", g.ptIndex(n.id), int64(g.now.Sub(g.t0))))
		} else {
			g.acts = append(g.acts, fmt.Sprintf("AAlarm %d %d %s", g.ptIndex(n.id), int64(g.now.Sub(g.t0)), g.swayHint(n, nb)))
		}
	}
	n.begun = true
	g.progressCheck(n)
}

// run until every started honest node decided or the step budget is exhausted. Returns true if all decided.
func (g *gnet) run(maxSteps int, byzAct func(g *gnet)) bool {
	for g.steps = 0; g.steps < maxSteps; g.steps++ {
		if !g.stopAt.IsZero() && !g.now.Before(g.stopAt) {
			return g.allDecided()
		}
		if byzAct != nil && g.r.chance(25) {
			byzAct(g)
		}
		// candidates: ready messages, due alarms
		var ready []int
		for i, pm := range g.pool {
			if !pm.ready.After(g.now) {
				ready = append(ready, i)
			}
		}
		var due []*gnode
		for _, n := range g.nodes {
			if n.honest && n.started && !n.crashed && n.decided == nil && n.hasAlarm && !n.alarm.After(g.now) {
				due = append(due, n)
			}
		}
		switch {
		case len(ready) > 0 && (len(due) == 0 || g.r.chance(70)):
			k := ready[g.r.intn(len(ready))]
			pm := g.pool[k]
			g.pool = append(g.pool[:k], g.pool[k+1:]...)
			g.deliver(pm)
		case len(due) > 0:
			g.fireAlarm(due[g.r.intn(len(due))])
		default:
			// advance time to the next event
			next := time.Time{}
			for _, pm := range g.pool {
				if next.IsZero() || pm.ready.Before(next) {
					next = pm.ready
				}
			}
			for _, n := range g.nodes {
				if n.honest && n.started && !n.crashed && n.decided == nil && n.hasAlarm && (next.IsZero() || n.alarm.Before(next)) {
					next = n.alarm
				}
			}
			if next.IsZero() {
				if !g.allDecided() {
					g.log = append(g.log, "deadlock: no pending message and no pending alarm")
				}
				return g.allDecided() // nothing can ever happen again
			}
			if next.After(g.now) {
				g.now = next
			}
		}
		if g.allDecided() {
			return true
		}
	}
	return g.allDecided()
}

func (g *gnet) allDecided() bool {
	for _, n := range g.nodes {
		if n.honest && n.started && !n.crashed && n.decided == nil {
			return false
		}
	}
	return true
}

func (g *gnet) maxRound() uint64 {
	var m uint64
	for _, n := range g.nodes {
		if n.honest && n.started && n.maxRound > m {
			m = n.maxRound
		}
	}
	return m
}

// ---- global monitors (C01, C02, C03) ----
func (g *gnet) checkDecisions() {
	var first *gpbft.ECChain
	for _, n := range g.nodes {
		if !n.honest {
			continue
		}
		// everything an honest participant REPORTED counts, whether or not its host managed to accept it
		for _, rd := range n.reported {
			if first == nil {
				first = rd.Vote.Value
			} else if !first.Eq(rd.Vote.Value) {
				g.viol("any two honest participants that report a decision report the same chain", "c01-disagreement", fmt.Sprintf("%s vs %s (node %d, %d decisions reported)", first, rd.Vote.Value, n.idx, len(n.reported)))
			}
		}
		if n.decided == nil {
			continue
		}
		d := n.decided
		v := d.Vote.Value
		if first == nil {
			first = v
		} else if !first.Eq(v) {
			g.viol("any two honest participants that report a decision report the same chain", "c01-disagreement", fmt.Sprintf("%s vs %s", first, v))
		}
		// C02
		if v.IsZero() || !v.HasBase(n.input.Base()) {
			g.viol("every decided value is non-empty and starts at the base the participant entered the instance with", "c02-base", v.String())
		}
		ok := false
		for _, q := range g.nodes {
			if q.honest && q.input.HasPrefix(v) {
				ok = true
			}
		}
		if !ok {
			g.viol("every decided value is a prefix of the chain proposed by at least one honest participant", "c02-not-honest-prefix", v.String())
		}
		// C03
		g.checkDecisionProof(n, d)
	}
}

func (g *gnet) checkDecisionProof(n *gnode, d *gpbft.Justification) {
	bad := func(what string) {
		g.viol("every reported decision is a self-contained, verifiable finality proof: "+what, "c03-"+what, fmt.Sprintf("node %d", n.idx))
	}
	if d.Vote.Instance != g.instance || d.Vote.Round != 0 || d.Vote.Phase != gpbft.DECIDE_PHASE || !d.Vote.SupplementalData.Eq(&g.supp) {
		bad("header")
	}
	var pw int64
	var mask []int
	last := -1
	_ = d.Signers.ForEach(func(b uint64) error {
		if int(b) >= len(g.pt.Entries) {
			bad("signer-range")
			return nil
		}
		if int(b) <= last {
			bad("signers-not-distinct")
		}
		last = int(b)
		if g.pt.ScaledPower[b] == 0 {
			bad("zero-power-signer")
		}
		pw += g.pt.ScaledPower[b]
		mask = append(mask, int(b))
		return nil
	})
	if !indepStrong(pw, g.pt.ScaledTotal) {
		bad("no-strong-quorum")
	}
	agg, _ := g.backend.Aggregate(g.pt.Entries.PublicKeys())
	if err := agg.VerifyAggregate(mask, d.Vote.MarshalForSigning(verifNet), d.Signature); err != nil {
		bad("aggregate")
	}
	// turned into a certificate with the correct delta it is accepted by certificate validation
	cert, err := certs.NewFinalityCertificate(certs.MakePowerTableDiff(g.pt.Entries, g.pt.Entries), d)
	if err != nil {
		bad("certificate-construction")
		return
	}
	// supplemental data commits to the next table: in the harness the committed CID is ptCid, so validate the signature part and the chain part
	if _, _, _, err := certs.ValidateFinalityCertificates(g.backend, verifNet, g.pt.Entries, g.instance, nil, cert); err != nil {
		// the only acceptable failure is the power-table CID commitment of the harness' fixed supplemental data
		if !containsStr(err.Error(), "incorrect power diff") {
			bad("certificate-validation:" + err.Error())
		}
	}
}

func containsStr(s, sub string) bool {
	return len(sub) == 0 || (len(s) >= len(sub) && (func() bool {
		for i := 0; i+len(sub) <= len(s); i++ {
			if s[i:i+len(sub)] == sub {
				return true
			}
		}
		return false
	})())
}

// ---- trace export for the Coq conformance monitor ----
type chainTok struct {
	m map[string]int64
}

func (c *chainTok) chain(ch *gpbft.ECChain) (string, bool) {
	if ch.IsZero() {
		return "None", false
	}
	out := make([]int64, ch.Len())
	for i, ts := range ch.TipSets {
		k := string(ts.Key) + fmt.Sprint(ts.Epoch)
		v, ok := c.m[k]
		if !ok {
			v = int64(len(c.m) + 1)
			c.m[k] = v
		}
		out[i] = v
	}
	return "(Some " + cListZ(out) + ")", true
}
func (c *chainTok) raw(ch *gpbft.ECChain) string {
	s, ok := c.chain(ch)
	if !ok {
		return "[]"
	}
	return s[len("(Some ") : len(s)-1]
}

func phaseCoq(p gpbft.Phase) string {
	switch p {
	case gpbft.QUALITY_PHASE:
		return "QUALITY"
	case gpbft.CONVERGE_PHASE:
		return "CONVERGE"
	case gpbft.PREPARE_PHASE:
		return "PREPARE"
	case gpbft.COMMIT_PHASE:
		return "COMMIT"
	case gpbft.DECIDE_PHASE:
		return "DECIDE"
	}
	return "QUALITY"
}

// specTrace returns Coq terms: powers (table order = node index), honest flags, inputs, votes oldest-first
func (g *gnet) specTrace() (powers, honest, inputs, votes string, n int) {
	ct := &chainTok{m: map[string]int64{}}
	ps := make([]int64, len(g.nodes))
	hs := make([]string, len(g.nodes))
	ins := make([]string, len(g.nodes))
	for i, nd := range g.nodes {
		sp, _ := g.pt.Get(nd.id)
		ps[i] = sp
		hs[i] = cBool(nd.honest)
		ins[i] = ct.raw(nd.input)
	}
	vs := make([]string, 0, len(g.votes))
	sorted := append([]*sentVote{}, g.votes...)
	sort.SliceStable(sorted, func(a, b int) bool { return sorted[a].seq < sorted[b].seq })
	for _, v := range sorted {
		val, _ := ct.chain(v.msg.Vote.Value)
		vs = append(vs, fmt.Sprintf("Spec.V %d %d Spec.%s %s", v.sender, v.msg.Vote.Round, phaseCoq(v.msg.Vote.Phase), val))
	}
	return cListZ(ps), cList(hs), cList(ins), "[" + joinStr(vs, "; ") + "]", len(vs)
}

func joinStr(xs []string, sep string) string {
	out := ""
	for i, x := range xs {
		if i > 0 {
			out += sep
		}
		out += x
	}
	return out
}
