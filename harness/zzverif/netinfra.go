//go:build verif

package main

import (
	"context"

	"github.com/filecoin-project/go-f3/certexchange"
	"github.com/filecoin-project/go-f3/certs"
	"github.com/filecoin-project/go-f3/certstore"
	"github.com/filecoin-project/go-f3/gpbft"
	"github.com/ipfs/go-datastore"
	ds_sync "github.com/ipfs/go-datastore/sync"
	"github.com/libp2p/go-libp2p/core/host"
	mocknetwork "github.com/libp2p/go-libp2p/p2p/net/mock"
)

// cxNet: an in-process libp2p mocknet with one certificate-exchange server and one client host.
type cxNet struct {
	mn       mocknetwork.Mocknet
	server   *certexchange.Server
	srvStore *certstore.Store
	client   host.Host
	srvHost  host.Host
}

func newMemStore(ctx context.Context, first uint64, table gpbft.PowerEntries) (*certstore.Store, datastore.Datastore) {
	ds := ds_sync.MutexWrap(datastore.NewMapDatastore())
	cs, err := certstore.CreateStore(ctx, ds, first, table)
	must(err)
	return cs, ds
}

// datastore under the store of the most recently built exchange network (for injecting crash states)
var cxLastDS datastore.Datastore

func newCxNet(ctx context.Context, first uint64, table gpbft.PowerEntries, stored []*certs.FinalityCertificate) *cxNet {
	mn := mocknetwork.New()
	sh, err := mn.GenPeer()
	must(err)
	ch, err := mn.GenPeer()
	must(err)
	cs, ds := newMemStore(ctx, first, table)
	for _, c := range stored {
		must(cs.Put(ctx, c))
	}
	cxLastDS = ds
	srv := &certexchange.Server{NetworkName: verifNet, Host: sh, Store: cs}
	must(mn.LinkAll())
	must(srv.Start(ctx))
	must(mn.ConnectAllButSelf())
	return &cxNet{mn: mn, server: srv, srvStore: cs, client: ch, srvHost: sh}
}

func (n *cxNet) close() {
	_ = n.server.Stop(context.Background())
	_ = n.mn.Close()
}
