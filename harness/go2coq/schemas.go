package main

// Schema extractor (C14): reads the cbor-gen generated codecs (*/cbor_gen.go) and the two hand-written wrappers
// (gpbft.ECChain, f3.walEntry) of /repo's CURRENT sources and emits one Coq `schema` term per wire/storage type
// (Gen/SchemasGen.v).  Every field block of every MarshalCBOR / UnmarshalCBOR is normalised (field accessor -> F,
// integer literals -> N, capitalised type names -> T, string literals -> "S") and must be IDENTICAL to one of the
// templates below -- the templates are what Enc/Codec.v gives a semantics to.  Anything else (a dropped major-type check,
// a guard moved behind the allocation, a changed loop) is "outside the supported subset": exit 3.  The integer literals
// (length limits, field counts, the bool codes) are carried into the schema, and the limits of the writer and of the
// reader of a field must agree.

import (
	"fmt"
	"go/ast"
	"go/parser"
	"go/token"
	"os"
	"path/filepath"
	"regexp"
	"sort"
	"strconv"
	"strings"
)

var (
	scFieldRe = regexp.MustCompile(`^// (t\.\w+|\(\*t\)) \((.+)\) \((\w+)\)$`)
	scNumRe   = regexp.MustCompile(`\b\d+\b`)
	scStrRe   = regexp.MustCompile(`"[^"]*"`)
	scTyRes   = []struct {
		re  *regexp.Regexp
		rep string
	}{
		{regexp.MustCompile(`\b[A-Z]\w*\{\}`), "T{}"},
		{regexp.MustCompile(`lengthBuf\w+`), "lengthBufT"},
		{regexp.MustCompile(`make\(\[\](?:\w+\.)?[A-Z]\w*,`), "make([]T,"},
		{regexp.MustCompile(`= (?:\w+\.)?[A-Z]\w*\(extra\)`), "= T(extra)"},
		{regexp.MustCompile(`new\((?:\w+\.)?[A-Z]\w*\)`), "new(T)"},
	}
)

const (
	mPreStruct = `if t == nil {
_, err := w.Write(cbg.CborNull)
return err
}
cw := cbg.NewCborWriter(w)
if _, err := cw.Write(lengthBufT); err != nil {
return err
}`
	mPreSlice  = `cw := cbg.NewCborWriter(w)`
	uPreStruct = `*t = T{}
cr := cbg.NewCborReader(r)
maj, extra, err := cr.ReadHeader()
if err != nil {
return err
}
defer func() {
if err == io.EOF {
err = io.ErrUnexpectedEOF
}
}()
if maj != cbg.MajArray {
return fmt.Errorf("S")
}
if extra != N {
return fmt.Errorf("S")
}`
	uPreSlice = `*t = T{}
cr := cbg.NewCborReader(r)
var maj byte
var extra uint64
_ = maj
_ = extra`

	mFixed = `if len(F) > N {
return xerrors.Errorf("S")
}
if err := cw.WriteMajorTypeHeader(cbg.MajByteString, uint64(len(F))); err != nil {
return err
}
if _, err := cw.Write(F[:]); err != nil {
return err
}`
	uFixed = `maj, extra, err = cr.ReadHeader()
if err != nil {
return err
}
if extra > N {
return fmt.Errorf("S", extra)
}
if maj != cbg.MajByteString {
return fmt.Errorf("S")
}
if extra != N {
return fmt.Errorf("S")
}
F = [N]uint8{}
if _, err := io.ReadFull(cr, F[:]); err != nil {
return err
}`
	mBool = `if err := cbg.WriteBool(w, F); err != nil {
return err
}`
	uBool = `maj, extra, err = cr.ReadHeader()
if err != nil {
return err
}
if maj != cbg.MajOther {
return fmt.Errorf("S")
}
switch extra {
case N:
F = false
case N:
F = true
default:
return fmt.Errorf("S", extra)
}`
	mInt64 = `if F >= N {
if err := cw.WriteMajorTypeHeader(cbg.MajUnsignedInt, uint64(F)); err != nil {
return err
}
} else {
if err := cw.WriteMajorTypeHeader(cbg.MajNegativeInt, uint64(-F-N)); err != nil {
return err
}
}`
	uInt64 = `{
maj, extra, err := cr.ReadHeader()
if err != nil {
return err
}
var extraI int64
switch maj {
case cbg.MajUnsignedInt:
extraI = int64(extra)
if extraI < N {
return fmt.Errorf("S")
}
case cbg.MajNegativeInt:
extraI = int64(extra)
if extraI < N {
return fmt.Errorf("S")
}
extraI = -N - extraI
default:
return fmt.Errorf("S", maj)
}
F = int64(extraI)
}`
	mListTop = `if len(F) > N {
return xerrors.Errorf("S")
}
if err := cw.WriteMajorTypeHeader(cbg.MajArray, uint64(len(F))); err != nil {
return err
}
for _, v := range *t {
if err := v.MarshalCBOR(cw); err != nil {
return err
}
}`
	mList = `if len(F) > N {
return xerrors.Errorf("S")
}
if err := cw.WriteMajorTypeHeader(cbg.MajArray, uint64(len(F))); err != nil {
return err
}
for _, v := range F {
if err := v.MarshalCBOR(cw); err != nil {
return err
}
}`
	uList = `maj, extra, err = cr.ReadHeader()
if err != nil {
return err
}
if extra > N {
return fmt.Errorf("S", extra)
}
if maj != cbg.MajArray {
return fmt.Errorf("S")
}
if extra > N {
F = make([]T, extra)
}
for i := N; i < int(extra); i++ {
{
var maj byte
var extra uint64
var err error
_ = maj
_ = extra
_ = err
{
if err := F[i].UnmarshalCBOR(cr); err != nil {
return xerrors.Errorf("S", err)
}
}
}
}`
	mBytes = `if len(F) > N {
return xerrors.Errorf("S")
}
if err := cw.WriteMajorTypeHeader(cbg.MajByteString, uint64(len(F))); err != nil {
return err
}
if _, err := cw.Write(F); err != nil {
return err
}`
	uBytes = `maj, extra, err = cr.ReadHeader()
if err != nil {
return err
}
if extra > N {
return fmt.Errorf("S", extra)
}
if maj != cbg.MajByteString {
return fmt.Errorf("S")
}
if extra > N {
F = make([]uint8, extra)
}
if _, err := io.ReadFull(cr, F); err != nil {
return err
}`
	mStruct = `if err := F.MarshalCBOR(cw); err != nil {
return err
}`
	uStruct = `{
if err := F.UnmarshalCBOR(cr); err != nil {
return xerrors.Errorf("S", err)
}
}`
	uNullable = `{
b, err := cr.ReadByte()
if err != nil {
return err
}
if b != cbg.CborNull[N] {
if err := cr.UnreadByte(); err != nil {
return err
}
F = new(T)
if err := F.UnmarshalCBOR(cr); err != nil {
return xerrors.Errorf("S", err)
}
}
}`
	mCid = `if err := cbg.WriteCid(cw, F); err != nil {
return xerrors.Errorf("S", err)
}`
	uCid = `{
c, err := cbg.ReadCid(cr)
if err != nil {
return xerrors.Errorf("S", err)
}
F = c
}`
	mUint = `if err := cw.WriteMajorTypeHeader(cbg.MajUnsignedInt, uint64(F)); err != nil {
return err
}`
	uUint64 = `{
maj, extra, err = cr.ReadHeader()
if err != nil {
return err
}
if maj != cbg.MajUnsignedInt {
return fmt.Errorf("S")
}
F = T(extra)
}`
	uUint64b = `{
maj, extra, err = cr.ReadHeader()
if err != nil {
return err
}
if maj != cbg.MajUnsignedInt {
return fmt.Errorf("S")
}
F = uint64(extra)
}`
	uUint8 = `maj, extra, err = cr.ReadHeader()
if err != nil {
return err
}
if maj != cbg.MajUnsignedInt {
return fmt.Errorf("S")
}
if extra > math.MaxUint8 {
return fmt.Errorf("S")
}
F = T(extra)`

	// hand-written wrappers (whole bodies, whitespace-normalised)
	wECChainUnmarshal = `chain := LegacyECChain{}
if err := chain.UnmarshalCBOR(r); err != nil {
return err
}
*c = ECChain{}
if length := len(chain); length > 0 {
c.TipSets = make([]*TipSet, length)
for i := range length {
c.TipSets[i] = &chain[i]
}
}
return nil`
	wECChainMarshal = `chain := LegacyECChain{}
if length := c.Len(); length > 0 {
chain = make([]TipSet, length)
for i := range length {
chain[i] = *c.TipSets[i]
}
}
return chain.MarshalCBOR(w)`
	wECChainLen = `if c == nil {
return 0
}
return len(c.TipSets)`
	wECChainIsZero = `return c == nil || len(c.TipSets) == 0`
	wWalMarshal    = `return we.Message.MarshalCBOR(w)`
	wWalUnmarshal  = `we.Message = &gpbft.GMessage{}
return we.Message.UnmarshalCBOR(r)`
)

type scSeg struct {
	field, gotype, kind string
	text                string
	nums                []string
	elem                string // element / pointee type named inside the block (make([]X, / new(X))
}

type scType struct {
	pkg, name string
	m, u      []scSeg
	mPre      scSeg
	uPre      scSeg
	lenBuf    int64
}

func scFail(format string, a ...any) {
	fmt.Fprintf(os.Stderr, "go2coq: unsupported (schema extractor): "+format+"\n", a...)
	os.Exit(3)
}

var scElemRe = regexp.MustCompile(`(?:make\(\[\]|new\()((?:\w+\.)?[A-Z]\w*)`)

func scNormLine(l, field string) (string, []string, string) {
	elem := ""
	if m := scElemRe.FindStringSubmatch(l); m != nil {
		elem = m[1]
	}
	if field != "" {
		tail := `\b`
		if strings.HasSuffix(field, ")") {
			tail = ""
		}
		re := regexp.MustCompile(`(^|[^\w.])` + regexp.QuoteMeta(field) + tail)
		l = re.ReplaceAllString(l, "${1}F")
	}
	l = scStrRe.ReplaceAllString(l, `"S"`)
	for _, r := range scTyRes {
		l = r.re.ReplaceAllString(l, r.rep)
	}
	nums := scNumRe.FindAllString(l, -1)
	// "uint64", "int64", "uint8" contain digits glued to letters: \b\d+\b does not match them
	l = scNumRe.ReplaceAllString(l, "N")
	return l, nums, elem
}

func scSplit(body string) (pre scSeg, segs []scSeg) {
	cur := &pre
	var lines []string
	flush := func() {
		// a trailing `return nil` belongs to the function, not to the field block
		if n := len(lines); n > 0 && lines[n-1] == "return nil" {
			lines = lines[:n-1]
		}
		cur.text = strings.Join(lines, "\n")
		lines = nil
	}
	for _, l := range strings.Split(body, "\n") {
		l = strings.TrimSpace(l)
		if l == "" {
			continue
		}
		if m := scFieldRe.FindStringSubmatch(l); m != nil {
			flush()
			segs = append(segs, scSeg{field: m[1], gotype: m[2], kind: m[3]})
			cur = &segs[len(segs)-1]
			continue
		}
		if strings.HasPrefix(l, "//") {
			continue
		}
		nl, nums, elem := scNormLine(l, cur.field)
		cur.nums = append(cur.nums, nums...)
		if elem != "" {
			cur.elem = elem
		}
		lines = append(lines, nl)
	}
	flush()
	if len(segs) > 0 {
		pre2 := pre
		_ = pre2
	}
	return
}

func scBodyText(src []byte, fset *token.FileSet, fd *ast.FuncDecl) string {
	return string(src[fset.Position(fd.Body.Lbrace).Offset+1 : fset.Position(fd.Body.Rbrace).Offset])
}

func scPlain(body string) string {
	var out []string
	for _, l := range strings.Split(body, "\n") {
		l = strings.TrimSpace(l)
		if l == "" || strings.HasPrefix(l, "//") {
			continue
		}
		out = append(out, l)
	}
	return strings.Join(out, "\n")
}

func scAtoi(s string) int64 {
	v, err := strconv.ParseInt(s, 10, 64)
	if err != nil {
		scFail("bad integer literal %q", s)
	}
	return v
}

func scLocal(goType string) string {
	if i := strings.LastIndex(goType, "."); i >= 0 {
		return goType[i+1:]
	}
	return goType
}

// field schema from the writer block and the reader block of one field
func scField(owner string, m, u scSeg, known map[string]string) string {
	where := owner + "." + m.field
	if m.field != u.field || m.kind != u.kind || m.gotype != u.gotype {
		scFail("%s: writer and reader disagree on the field (%s %s / %s %s)", where, m.field, m.kind, u.field, u.kind)
	}
	need := func(seg scSeg, n int) {
		if len(seg.nums) != n {
			scFail("%s: expected %d integer literals, found %v", where, n, seg.nums)
		}
	}
	ref := func(t string) string {
		l := scLocal(t)
		if s, ok := known[l]; ok {
			return s
		}
		scFail("%s: reference to type %s which has no extracted schema (yet)", where, t)
		return ""
	}
	switch {
	case m.kind == "uint64" && m.text == mUint && (u.text == uUint64 || u.text == uUint64b):
		return "SUint64"
	case m.kind == "uint8" && m.text == mUint && u.text == uUint8:
		return "SUint8"
	case m.kind == "int64" && m.text == mInt64 && u.text == uInt64:
		need(m, 2)
		need(u, 3)
		if m.nums[0] != "0" || m.nums[1] != "1" || u.nums[0] != "0" || u.nums[1] != "0" || u.nums[2] != "1" {
			scFail("%s: int64 codec constants changed: %v %v", where, m.nums, u.nums)
		}
		return "SInt64"
	case m.kind == "bool" && m.text == mBool && u.text == uBool:
		need(u, 2)
		if u.nums[0] != "20" || u.nums[1] != "21" {
			scFail("%s: bool codes changed: %v", where, u.nums)
		}
		return "SBool"
	case m.kind == "array" && m.text == mFixed && u.text == uFixed:
		need(m, 1)
		need(u, 3)
		if !(m.nums[0] == u.nums[0] && u.nums[0] == u.nums[1] && u.nums[1] == u.nums[2]) {
			scFail("%s: fixed array lengths disagree: writer %v reader %v", where, m.nums, u.nums)
		}
		return fmt.Sprintf("SFixed %d", scAtoi(u.nums[0]))
	case m.kind == "slice" && m.text == mBytes && u.text == uBytes:
		need(m, 1)
		need(u, 2)
		if m.nums[0] != u.nums[0] || u.nums[1] != "0" {
			scFail("%s: byte-slice limits disagree: writer %v reader %v", where, m.nums, u.nums)
		}
		return fmt.Sprintf("SBytes %d", scAtoi(u.nums[0]))
	case m.kind == "slice" && (m.text == mList || m.text == mListTop) && u.text == uList:
		need(m, 1)
		need(u, 3)
		if m.nums[0] != u.nums[0] || u.nums[1] != "0" || u.nums[2] != "0" {
			scFail("%s: list limits disagree: writer %v reader %v", where, m.nums, u.nums)
		}
		if u.elem == "" {
			scFail("%s: element type of the list not found", where)
		}
		return fmt.Sprintf("SList %d %s", scAtoi(u.nums[0]), ref(u.elem))
	case m.kind == "struct" && m.gotype == "cid.Cid" && m.text == mCid && u.text == uCid:
		return "SCid"
	case m.kind == "struct" && m.gotype == "big.Int" && m.text == mStruct && u.text == uStruct:
		return "SBigInt"
	case m.kind == "struct" && m.gotype == "bitfield.BitField" && m.text == mStruct && u.text == uStruct:
		return "SBits"
	case m.kind == "struct" && m.text == mStruct && u.text == uStruct:
		return ref(m.gotype)
	case m.kind == "struct" && m.text == mStruct && u.text == uNullable:
		need(u, 1)
		if u.nums[0] != "0" || scLocal(u.elem) != scLocal(m.gotype) {
			scFail("%s: nullable pointer block changed (%v, %s vs %s)", where, u.nums, u.elem, m.gotype)
		}
		if scLocal(m.gotype) == "ECChain" {
			// (*ECChain).MarshalCBOR is the hand-written wrapper: a nil chain is written as the EMPTY list (never as
			// null), and a null read leaves the pointer nil, which every accessor (Len, IsZero, Eq) treats as empty
			return "SNullDef " + ref(m.gotype)
		}
		return "SNull " + ref(m.gotype)
	}
	scFail("%s (%s, %s): field codec does not match any known cbor-gen template\n--- writer block:\n%s\n--- reader block:\n%s", where, m.gotype, m.kind, m.text, u.text)
	return ""
}

func genSchemas(repo string, files []string, wrappers map[string]string, outdir, outName string) {
	types := map[string]*scType{}
	var order []string
	lenBufs := map[string]int64{}
	for _, p := range files {
		full := filepath.Join(repo, p)
		src, err := os.ReadFile(full)
		if err != nil {
			scFail("read %s: %v", p, err)
		}
		fset := token.NewFileSet()
		f, err := parser.ParseFile(fset, full, src, parser.ParseComments)
		if err != nil {
			scFail("parse %s: %v", p, err)
		}
		pkg := f.Name.Name
		for _, d := range f.Decls {
			if gd, ok := d.(*ast.GenDecl); ok && gd.Tok == token.VAR {
				for _, s := range gd.Specs {
					vs := s.(*ast.ValueSpec)
					if len(vs.Names) == 1 && strings.HasPrefix(vs.Names[0].Name, "lengthBuf") && len(vs.Values) == 1 {
						cl, ok := vs.Values[0].(*ast.CompositeLit)
						if !ok || len(cl.Elts) != 1 {
							scFail("%s: %s is not a one-byte literal", p, vs.Names[0].Name)
						}
						lit, ok := cl.Elts[0].(*ast.BasicLit)
						if !ok {
							scFail("%s: %s is not a one-byte literal", p, vs.Names[0].Name)
						}
						lenBufs[strings.TrimPrefix(vs.Names[0].Name, "lengthBuf")] = scAtoi(lit.Value)
					}
				}
			}
			fd, ok := d.(*ast.FuncDecl)
			if !ok || fd.Recv == nil || (fd.Name.Name != "MarshalCBOR" && fd.Name.Name != "UnmarshalCBOR") {
				continue
			}
			se, ok := fd.Recv.List[0].Type.(*ast.StarExpr)
			if !ok {
				scFail("%s: %s with a non-pointer receiver", p, fd.Name.Name)
			}
			name := se.X.(*ast.Ident).Name
			t := types[name]
			if t == nil {
				t = &scType{pkg: pkg, name: name}
				types[name] = t
				order = append(order, name)
			}
			pre, segs := scSplit(scBodyText(src, fset, fd))
			if fd.Name.Name == "MarshalCBOR" {
				t.mPre, t.m = pre, segs
			} else {
				t.uPre, t.u = pre, segs
			}
		}
	}
	known := map[string]string{}
	defs := map[string]string{}
	remaining := append([]string{}, order...)
	var emitted []string
	// wrappers: type -> (file, recv var) checked below; ECChain is LegacyECChain on the wire
	tryType := func(name string) (string, bool) {
		t := types[name]
		if len(t.m) != len(t.u) || len(t.m) == 0 {
			scFail("%s: %d fields written, %d fields read", name, len(t.m), len(t.u))
		}
		// dependencies known?
		for _, s := range t.u {
			dep := ""
			if s.kind == "struct" && s.gotype != "cid.Cid" && s.gotype != "big.Int" && s.gotype != "bitfield.BitField" {
				dep = scLocal(s.gotype)
			}
			if s.kind == "slice" && s.elem != "" {
				dep = scLocal(s.elem)
			}
			if dep != "" {
				if _, ok := known[dep]; !ok {
					return "", false
				}
			}
		}
		if t.m[0].field == "(*t)" {
			if len(t.m) != 1 || t.mPre.text != mPreSlice || t.uPre.text != uPreSlice {
				scFail("%s: top-level slice codec has an unexpected preamble", name)
			}
			return scField(name, t.m[0], t.u[0], known), true
		}
		if t.mPre.text != mPreStruct || t.uPre.text != uPreStruct {
			scFail("%s: struct codec preamble does not match the cbor-gen template\n--- writer:\n%s\n--- reader:\n%s", name, t.mPre.text, t.uPre.text)
		}
		n := int64(len(t.m))
		lb, ok := lenBufs[name]
		if !ok || lb != 128+n || n > 23 {
			scFail("%s: lengthBuf%s = %d does not announce %d fields", name, name, lb, n)
		}
		if len(t.uPre.nums) != 1 || scAtoi(t.uPre.nums[0]) != n {
			scFail("%s: reader expects %v fields, %d are read", name, t.uPre.nums, n)
		}
		var fs []string
		for i := range t.m {
			fs = append(fs, scField(name, t.m[i], t.u[i], known))
		}
		return "STuple [" + strings.Join(fs, "; ") + "]", true
	}
	wrapDone := map[string]bool{}
	for len(remaining) > 0 {
		progress := false
		var next []string
		for _, name := range remaining {
			if body, ok := tryType(name); ok {
				cn := "s_" + name
				known[name] = cn
				defs[cn] = body
				emitted = append(emitted, cn)
				progress = true
				// wrappers that become available once their target is known
				if name == "LegacyECChain" && !wrapDone["ECChain"] {
					scCheckWrapper(repo, wrappers["ECChain"], "ECChain", "UnmarshalCBOR", wECChainUnmarshal)
					scCheckWrapper(repo, wrappers["ECChain"], "ECChain", "MarshalCBOR", wECChainMarshal)
					scCheckWrapper(repo, wrappers["ECChain"], "ECChain", "Len", wECChainLen)
					scCheckWrapper(repo, wrappers["ECChain"], "ECChain", "IsZero", wECChainIsZero)
					known["ECChain"] = "s_ECChain"
					defs["s_ECChain"] = "s_LegacyECChain"
					emitted = append(emitted, "s_ECChain")
					wrapDone["ECChain"] = true
				}
			} else {
				next = append(next, name)
			}
		}
		if !progress {
			sort.Strings(next)
			scFail("cyclic or unresolved type references among %v", next)
		}
		remaining = next
	}
	if _, ok := known["GMessage"]; ok && wrappers["walEntry"] != "" {
		scCheckWrapper(repo, wrappers["walEntry"], "walEntry", "MarshalCBOR", wWalMarshal)
		scCheckWrapper(repo, wrappers["walEntry"], "walEntry", "UnmarshalCBOR", wWalUnmarshal)
		defs["s_walEntry"] = "s_GMessage"
		emitted = append(emitted, "s_walEntry")
	}
	var out strings.Builder
	out.WriteString("(* GENERATED by /verif/harness/go2coq (schema extractor) from /repo's cbor_gen.go files and codec wrappers — do not edit. *)\n")
	out.WriteString("From Coq Require Import ZArith List.\nFrom F3 Require Import Codec.\nImport ListNotations.\nOpen Scope Z_scope.\n\n")
	for _, cn := range emitted {
		out.WriteString("Definition " + cn + " : schema := " + defs[cn] + ".\n")
	}
	out.WriteString("\nDefinition all_schemas : list schema := [" + strings.Join(emitted, "; ") + "].\n")
	if err := os.WriteFile(filepath.Join(outdir, outName), []byte(out.String()), 0o644); err != nil {
		panic(err)
	}
}

func scCheckWrapper(repo, file, recv, fn, want string) {
	full := filepath.Join(repo, file)
	src, err := os.ReadFile(full)
	if err != nil {
		scFail("read %s: %v", file, err)
	}
	fset := token.NewFileSet()
	f, err := parser.ParseFile(fset, full, src, parser.ParseComments)
	if err != nil {
		scFail("parse %s: %v", file, err)
	}
	for _, d := range f.Decls {
		fd, ok := d.(*ast.FuncDecl)
		if !ok || fd.Recv == nil || fd.Name.Name != fn {
			continue
		}
		se, ok := fd.Recv.List[0].Type.(*ast.StarExpr)
		if !ok || se.X.(*ast.Ident).Name != recv {
			continue
		}
		got := scPlain(scBodyText(src, fset, fd))
		if got != want {
			scFail("%s.%s in %s no longer matches the modelled wrapper:\n%s", recv, fn, file, got)
		}
		return
	}
	scFail("%s.%s not found in %s", recv, fn, file)
}
