// go2coq: translate a small, loop-free subset of Go (integer / boolean decision
// functions) from /repo's current sources into Gallina definitions over
// Base/GoInt.v.  Stand-alone program: only the Go standard library (go/ast).
//
// usage: go2coq <repo> <spec.json> <outdir>
//
// Exit status 3 = a construct outside the supported subset was met (the driver
// treats that as a broken obligation, never as a pass).
package main

import (
	"encoding/json"
	"fmt"
	"go/ast"
	"go/parser"
	"go/token"
	"os"
	"path/filepath"
	"sort"
	"strconv"
	"strings"
)

type Target struct {
	File      string            `json:"file"`
	Func      string            `json:"func"`        // function or method name
	Recv      string            `json:"recv"`        // receiver type name (optional)
	Name      string            `json:"name"`        // Coq name
	Env       map[string]string `json:"env"`         // types of free selector paths / idents
	Opaque    []string          `json:"opaque"`      // identifiers that denote opaque structs (selectors on them are free variables)
	Fragment  []string          `json:"fragment"`    // if set: translate only statements assigning these variables (in order), result = last one
	Params    []string          `json:"params"`      // explicit order of free parameters (optional)
	Skip      []string          `json:"skip"`        // call prefixes whose expression statements are ignored (log., metrics.)
	GuardOf   string            `json:"guard_of"`    // translate the conjunction of the if-conditions enclosing the first assignment to this variable
	CondOfErr string            `json:"cond_of_err"` // translate the condition of the if-statement whose body returns an error containing this text
	CallArg   *CallArgSpec      `json:"call_arg"`    // translate one argument of the n-th call to a callee
	Calls     map[string]string `json:"calls"`       // aliases for calls to functions translated elsewhere: Go callee -> Coq name (bool result)
	ReturnOf  string            `json:"return_of"`   // fragment mode alternative: translate the n-th result expression of the LAST return statement: "0"
}

type CallArgSpec struct {
	Callee     string `json:"callee"`
	Index      int    `json:"index"`
	Occurrence int    `json:"occurrence"`
	Type       string `json:"type"`
}

type Spec struct {
	Out     string   `json:"out"`
	Header  []string `json:"header"`
	Consts  []string `json:"consts"` // files whose const blocks are imported
	Targets []Target `json:"targets"`
	// schema extraction (C14): cbor_gen.go files and hand-written codec wrappers (type -> file)
	Tables   []TableSpec       `json:"tables"`
	Schemas  []string          `json:"schemas"`
	Wrappers map[string]string `json:"wrappers"`
}

type typ string

const (
	tI64     typ = "int64"
	tU64     typ = "uint64"
	tBool    typ = "bool"
	tBig     typ = "big"
	tErr     typ = "error"
	tUntyped typ = "untyped"
	tOpaque  typ = "opaque"
)

func normType(s string) typ {
	switch s {
	case "int64", "int", "time.Duration", "Duration":
		return tI64
	case "uint64", "uint8", "Phase", "uint32", "uint16":
		return tU64
	case "bool":
		return tBool
	case "StoragePower", "big.Int", "*big.Int":
		return tBig
	case "error":
		return tErr
	}
	return typ(s)
}

func fail(format string, a ...any) {
	fmt.Fprintf(os.Stderr, "go2coq: unsupported: "+format+"\n", a...)
	os.Exit(3)
}

type constVal struct {
	val string
	t   typ
}

type tr struct {
	fset     *token.FileSet
	file     *ast.File
	consts   map[string]constVal
	structs  map[string]*ast.StructType
	funcs    map[string]bool // names of already translated functions (callable)
	funcRet  map[string][]typ
	coqName  map[string]string
	tgt      Target
	vars     map[string]typ // local + flattened names -> type
	free     []string       // free parameter names, first-occurrence order
	freeSet  map[string]bool
	opaque   map[string]bool
	recvName string
	recvType string
	fields   []string // receiver fields (names) in declaration order
	retTypes []typ
	mutRecv  bool
	errs     map[string]bool
	needRec  map[string]bool
}

func exprStr(e ast.Expr) string {
	switch x := e.(type) {
	case *ast.Ident:
		return x.Name
	case *ast.SelectorExpr:
		return exprStr(x.X) + "." + x.Sel.Name
	case *ast.StarExpr:
		return "*" + exprStr(x.X)
	case *ast.ParenExpr:
		return exprStr(x.X)
	case *ast.CallExpr:
		var as []string
		for _, a := range x.Args {
			as = append(as, exprStr(a))
		}
		return exprStr(x.Fun) + "(" + strings.Join(as, ",") + ")"
	}
	return fmt.Sprintf("<%T>", e)
}

var coqKeywords = map[string]bool{"end": true, "at": true, "in": true, "as": true, "fun": true, "match": true, "with": true,
	"return": true, "then": true, "else": true, "if": true, "let": true, "fix": true, "cofix": true, "forall": true, "exists": true,
	"Type": true, "Prop": true, "Set": true, "using": true, "where": true, "for": true, "mod": true, "until": true}

func mg(name string) string {
	if coqKeywords[name] {
		return name + "_"
	}
	return name
}

func flat(path string) string {
	r := strings.NewReplacer(".", "_", "(", "_", ")", "", ",", "_")
	return mg(r.Replace(path))
}

func (t *tr) declareFree(path string, ty typ) string {
	n := flat(path)
	if !t.freeSet[n] {
		t.freeSet[n] = true
		t.free = append(t.free, n)
		t.vars[n] = ty
	}
	return n
}

func (t *tr) lookupEnv(path string) (typ, bool) {
	if s, ok := t.tgt.Env[path]; ok {
		return normType(s), true
	}
	return "", false
}

// unify numeric types of a binary operation
func unify(a, b typ, what string) typ {
	if a == tUntyped {
		return b
	}
	if b == tUntyped {
		return a
	}
	if a != b {
		fail("type mismatch %s vs %s in %s", a, b, what)
	}
	return a
}

func arith(op string, ty typ) string {
	suffix := ""
	switch ty {
	case tI64:
		suffix = "i64"
	case tU64:
		suffix = "u64"
	case tBig, tUntyped:
		switch op {
		case "add":
			return "Z.add"
		case "sub":
			return "Z.sub"
		case "mul":
			return "Z.mul"
		case "quo":
			return "Z.quot"
		case "rem":
			return "Z.rem"
		}
	default:
		fail("arithmetic on type %s", ty)
	}
	return op + "_" + suffix
}

func (t *tr) expr(e ast.Expr) (string, typ) {
	switch x := e.(type) {
	case *ast.ParenExpr:
		s, ty := t.expr(x.X)
		return "(" + s + ")", ty
	case *ast.BasicLit:
		if x.Kind != token.INT {
			fail("literal %s", x.Value)
		}
		v, err := strconv.ParseInt(x.Value, 0, 64)
		if err != nil {
			fail("literal %s", x.Value)
		}
		return fmt.Sprintf("%d", v), tUntyped
	case *ast.Ident:
		switch x.Name {
		case "true":
			return "true", tBool
		case "false":
			return "false", tBool
		case "nil":
			return "None", tErr
		}
		if ty, ok := t.vars[mg(x.Name)]; ok {
			return mg(x.Name), ty
		}
		if c, ok := t.consts[x.Name]; ok {
			return "(" + c.val + ")", c.t
		}
		if strings.HasPrefix(x.Name, "Err") {
			t.errs[x.Name] = true
			return "(Some " + x.Name + ")", tErr
		}
		if ty, ok := t.lookupEnv(x.Name); ok {
			return t.declareFree(x.Name, ty), ty
		}
		fail("unknown identifier %s in %s", x.Name, t.tgt.Func)
	case *ast.SelectorExpr:
		path := exprStr(x)
		// receiver field
		if id, ok := x.X.(*ast.Ident); ok && id.Name == t.recvName && t.recvName != "" {
			n := t.recvName + "_" + x.Sel.Name
			if ty, ok := t.vars[n]; ok {
				return n, ty
			}
		}
		if ty, ok := t.vars[flat(path)]; ok {
			return flat(path), ty
		}
		if ty, ok := t.lookupEnv(path); ok {
			return t.declareFree(path, ty), ty
		}
		fail("unknown selector %s in %s (add it to env)", path, t.tgt.Func)
	case *ast.CompositeLit:
		return t.composite(x)
	case *ast.UnaryExpr:
		if cl, ok := x.X.(*ast.CompositeLit); ok && x.Op == token.AND {
			return t.composite(cl)
		}
		s, ty := t.expr(x.X)
		switch x.Op {
		case token.NOT:
			return "(negb " + s + ")", tBool
		case token.SUB:
			if ty == tUntyped {
				return "(- " + s + ")", ty
			}
			return "(" + arith("sub", ty) + " 0 " + s + ")", ty
		}
		fail("unary %s", x.Op)
	case *ast.BinaryExpr:
		a, ta := t.expr(x.X)
		b, tb := t.expr(x.Y)
		switch x.Op {
		case token.LAND:
			return "(andb " + a + " " + b + ")", tBool
		case token.LOR:
			return "(orb " + a + " " + b + ")", tBool
		case token.ADD, token.SUB, token.MUL, token.QUO, token.REM:
			ty := unify(ta, tb, exprStr(x.X)+" op "+exprStr(x.Y))
			op := map[token.Token]string{token.ADD: "add", token.SUB: "sub", token.MUL: "mul", token.QUO: "quo", token.REM: "rem"}[x.Op]
			return "(" + arith(op, ty) + " " + a + " " + b + ")", ty
		case token.EQL, token.NEQ, token.LSS, token.LEQ, token.GTR, token.GEQ:
			if ta == tBool || tb == tBool {
				r := "(Bool.eqb " + a + " " + b + ")"
				if x.Op == token.NEQ {
					r = "(negb " + r + ")"
				} else if x.Op != token.EQL {
					fail("ordering on bool")
				}
				return r, tBool
			}
			if ta == tErr || tb == tErr {
				fail("comparison on error values")
			}
			unify(ta, tb, "comparison")
			switch x.Op {
			case token.EQL:
				return "(Z.eqb " + a + " " + b + ")", tBool
			case token.NEQ:
				return "(negb (Z.eqb " + a + " " + b + "))", tBool
			case token.LSS:
				return "(Z.ltb " + a + " " + b + ")", tBool
			case token.LEQ:
				return "(Z.leb " + a + " " + b + ")", tBool
			case token.GTR:
				return "(Z.gtb " + a + " " + b + ")", tBool
			case token.GEQ:
				return "(Z.geb " + a + " " + b + ")", tBool
			}
		}
		fail("binary operator %s", x.Op)
	case *ast.CallExpr:
		return t.call(x)
	}
	fail("expression %T in %s", e, t.tgt.Func)
	return "", ""
}

func findStruct(f *ast.File, name string) *ast.StructType {
	for _, d := range f.Decls {
		if gd, ok := d.(*ast.GenDecl); ok && gd.Tok == token.TYPE {
			for _, s := range gd.Specs {
				ts := s.(*ast.TypeSpec)
				if ts.Name.Name == name {
					st, _ := ts.Type.(*ast.StructType)
					return st
				}
			}
		}
	}
	return nil
}

func (t *tr) composite(x *ast.CompositeLit) (string, typ) {
	name := exprStr(x.Type)
	st := findStruct(t.file, name)
	if st == nil {
		fail("composite literal of %s", name)
	}
	vals := map[string]string{}
	for _, el := range x.Elts {
		kv, ok := el.(*ast.KeyValueExpr)
		if !ok {
			fail("positional composite literal")
		}
		s, _ := t.expr(kv.Value)
		vals[exprStr(kv.Key)] = s
	}
	var parts []string
	for _, fl := range st.Fields.List {
		ty := normType(exprStr(fl.Type))
		for _, n := range fl.Names {
			if v, ok := vals[n.Name]; ok {
				parts = append(parts, v)
			} else {
				parts = append(parts, t.zero(ty))
			}
		}
	}
	t.needRec[name] = true
	return "(mk_" + name + " " + strings.Join(parts, " ") + ")", typ("struct:" + name)
}

func (t *tr) call(x *ast.CallExpr) (string, typ) {
	fn := exprStr(x.Fun)
	if ty, ok := t.lookupEnv(exprStr(x)); ok {
		return t.declareFree(exprStr(x), ty), ty
	}
	args := func() ([]string, []typ) {
		var ss []string
		var ts []typ
		for _, a := range x.Args {
			s, ty := t.expr(a)
			ss = append(ss, s)
			ts = append(ts, ty)
		}
		return ss, ts
	}
	switch fn {
	case "min", "max":
		ss, ts := args()
		ty := ts[0]
		for _, u := range ts[1:] {
			ty = unify(ty, u, fn)
		}
		r := ss[0]
		for _, s := range ss[1:] {
			r = "(Z." + fn + " " + r + " " + s + ")"
		}
		return r, ty
	case "time.Duration", "int64", "int":
		ss, ts := args()
		switch ts[0] {
		case tU64:
			return "(u64_to_i64 " + ss[0] + ")", tI64
		case tI64, tUntyped:
			return ss[0], tI64
		}
		fail("conversion %s of %s", fn, ts[0])
	case "uint64":
		ss, ts := args()
		switch ts[0] {
		case tI64:
			return "(i64_to_u64 " + ss[0] + ")", tU64
		case tU64, tUntyped:
			return ss[0], tU64
		}
		fail("conversion %s of %s", fn, ts[0])
	case "big.NewInt", "NewStoragePower":
		ss, _ := args()
		return ss[0], tBig
	case "big.Mul", "big.Add", "big.Sub":
		ss, _ := args()
		op := map[string]string{"big.Mul": "Z.mul", "big.Add": "Z.add", "big.Sub": "Z.sub"}[fn]
		return "(" + op + " " + ss[0] + " " + ss[1] + ")", tBig
	case "big.Div":
		ss, _ := args()
		return "(big_div " + ss[0] + " " + ss[1] + ")", tBig
	case "big.Cmp":
		ss, _ := args()
		return "(match Z.compare " + ss[0] + " " + ss[1] + " with Lt => -1 | Eq => 0 | Gt => 1 end)", tUntyped
	case "fmt.Errorf", "errors.New":
		t.errs["ErrOther"] = true
		return "(Some ErrOther)", tErr
	}
	// method calls on values
	if sel, ok := x.Fun.(*ast.SelectorExpr); ok {
		switch sel.Sel.Name {
		case "LessThan", "GreaterThan", "Equals", "GreaterThanEqual", "LessThanEqual":
			r, tr_ := t.expr(sel.X)
			ss, _ := args()
			if tr_ != tBig {
				fail("method %s on %s", sel.Sel.Name, tr_)
			}
			op := map[string]string{"LessThan": "Z.ltb", "GreaterThan": "Z.gtb", "Equals": "Z.eqb", "GreaterThanEqual": "Z.geb", "LessThanEqual": "Z.leb"}[sel.Sel.Name]
			return "(" + op + " " + r + " " + ss[0] + ")", tBool
		case "Int64":
			r, tr_ := t.expr(sel.X)
			if tr_ != tBig {
				fail("Int64 on %s", tr_)
			}
			return "(big_int64 " + r + ")", tI64
		case "Sign":
			r, _ := t.expr(sel.X)
			return "(Z.sgn " + r + ")", tUntyped
		}
	}
	if alias, ok := t.tgt.Calls[fn]; ok {
		ss, _ := args()
		return "(" + alias + " " + strings.Join(ss, " ") + ")", tBool
	}
	// previously translated function
	if t.funcs[fn] {
		ss, _ := args()
		rt := t.funcRet[fn]
		if len(rt) != 1 {
			fail("call to multi-result function %s inside expression", fn)
		}
		return "(" + t.coqName[fn] + " " + strings.Join(ss, " ") + ")", rt[0]
	}
	fail("call to %s in %s", fn, t.tgt.Func)
	return "", ""
}

// ---- statements (continuation style) ----

// assigned collects names assigned in stmts (flattened), and whether a return occurs.
func (t *tr) assigned(stmts []ast.Stmt, set map[string]bool) (hasReturn bool) {
	for _, s := range stmts {
		switch x := s.(type) {
		case *ast.AssignStmt:
			for _, l := range x.Lhs {
				set[t.lhsName(l)] = true
			}
		case *ast.IncDecStmt:
			set[t.lhsName(x.X)] = true
		case *ast.DeclStmt:
			// declared inside: local, does not escape
		case *ast.ReturnStmt:
			hasReturn = true
		case *ast.IfStmt:
			if x.Init != nil {
				t.assigned([]ast.Stmt{x.Init}, map[string]bool{})
			}
			if t.assigned(x.Body.List, set) {
				hasReturn = true
			}
			if x.Else != nil {
				if t.assigned([]ast.Stmt{x.Else}, set) {
					hasReturn = true
				}
			}
		case *ast.BlockStmt:
			if t.assigned(x.List, set) {
				hasReturn = true
			}
		case *ast.SwitchStmt:
			for _, c := range x.Body.List {
				if t.assigned(c.(*ast.CaseClause).Body, set) {
					hasReturn = true
				}
			}
		case *ast.ExprStmt:
		default:
			fail("statement %T in %s", s, t.tgt.Func)
		}
	}
	return
}

func (t *tr) lhsName(l ast.Expr) string {
	switch x := l.(type) {
	case *ast.Ident:
		return mg(x.Name)
	case *ast.SelectorExpr:
		if id, ok := x.X.(*ast.Ident); ok && id.Name == t.recvName {
			return t.recvName + "_" + x.Sel.Name
		}
		return flat(exprStr(x))
	}
	fail("assignment target %T", l)
	return ""
}

func (t *tr) zero(ty typ) string {
	switch ty {
	case tBool:
		return "false"
	case tErr:
		return "None"
	}
	return "0"
}

func (t *tr) skipCall(s *ast.ExprStmt) bool {
	c, ok := s.X.(*ast.CallExpr)
	if !ok {
		return false
	}
	fn := exprStr(c.Fun)
	for _, p := range append(t.tgt.Skip, "log.", "metrics.") {
		if strings.HasPrefix(fn, p) {
			return true
		}
	}
	return false
}

// stmts translates a statement list followed by continuation k (a function producing
// the Coq text of "the rest").  k is called possibly several times.
func (t *tr) stmts(list []ast.Stmt, k func() string) string {
	if len(list) == 0 {
		return k()
	}
	s, rest := list[0], list[1:]
	next := func() string { return t.stmts(rest, k) }
	switch x := s.(type) {
	case *ast.ExprStmt:
		if t.skipCall(x) {
			return next()
		}
		fail("expression statement %s", exprStr(x.X))
	case *ast.DeclStmt:
		gd := x.Decl.(*ast.GenDecl)
		out := ""
		for _, sp := range gd.Specs {
			vs := sp.(*ast.ValueSpec)
			for i, n := range vs.Names {
				var val string
				var ty typ
				if len(vs.Values) > i {
					val, ty = t.expr(vs.Values[i])
					if vs.Type != nil {
						ty = normType(exprStr(vs.Type))
					}
				} else {
					ty = normType(exprStr(vs.Type))
					val = t.zero(ty)
				}
				t.vars[mg(n.Name)] = ty
				out += "let " + mg(n.Name) + " := " + val + " in\n"
			}
		}
		return out + next()
	case *ast.AssignStmt:
		if len(x.Lhs) != len(x.Rhs) {
			fail("tuple assignment in %s", t.tgt.Func)
		}
		out := ""
		for i := range x.Lhs {
			name := t.lhsName(x.Lhs[i])
			rhs, ty := t.expr(x.Rhs[i])
			switch x.Tok {
			case token.DEFINE:
				if ty == tUntyped {
					ty = tI64
				}
				t.vars[name] = ty
			case token.ASSIGN:
				if _, ok := t.vars[name]; !ok {
					fail("assignment to unknown %s", name)
				}
				unify(t.vars[name], ty, "assignment to "+name)
			default:
				vt, ok := t.vars[name]
				if !ok {
					fail("op-assignment to unknown %s", name)
				}
				ty = unify(vt, ty, "op-assign "+name)
				op := map[token.Token]string{token.ADD_ASSIGN: "add", token.SUB_ASSIGN: "sub", token.MUL_ASSIGN: "mul", token.QUO_ASSIGN: "quo", token.REM_ASSIGN: "rem"}[x.Tok]
				if op == "" {
					fail("assignment operator %s", x.Tok)
				}
				rhs = "(" + arith(op, vt) + " " + name + " " + rhs + ")"
			}
			out += "let " + name + " := " + rhs + " in\n"
		}
		return out + next()
	case *ast.ReturnStmt:
		return t.ret(x)
	case *ast.BlockStmt:
		return t.stmts(append(append([]ast.Stmt{}, x.List...), rest...), k)
	case *ast.IfStmt:
		return t.ifStmt(x, rest, k)
	case *ast.SwitchStmt:
		return t.stmts(append([]ast.Stmt{t.switchToIf(x)}, rest...), k)
	}
	fail("statement %T in %s", s, t.tgt.Func)
	return ""
}

func (t *tr) switchToIf(x *ast.SwitchStmt) ast.Stmt {
	var initStmts []ast.Stmt
	if x.Init != nil {
		as, ok := x.Init.(*ast.AssignStmt)
		if !ok {
			fail("switch init")
		}
		if id, ok := as.Lhs[0].(*ast.Ident); ok && t.opaque[id.Name] {
			// opaque struct binding: nothing to emit
		} else {
			initStmts = append(initStmts, as)
		}
	}
	var clauses []*ast.CaseClause
	var def *ast.CaseClause
	for _, c := range x.Body.List {
		cc := c.(*ast.CaseClause)
		for _, b := range cc.Body {
			if br, ok := b.(*ast.BranchStmt); ok {
				fail("branch statement %s in switch", br.Tok)
			}
		}
		if cc.List == nil {
			def = cc
		} else {
			clauses = append(clauses, cc)
		}
	}
	var build func(i int) ast.Stmt
	build = func(i int) ast.Stmt {
		if i == len(clauses) {
			if def == nil {
				return &ast.BlockStmt{}
			}
			return &ast.BlockStmt{List: def.Body}
		}
		cc := clauses[i]
		var cond ast.Expr
		for _, e := range cc.List {
			var c ast.Expr = e
			if x.Tag != nil {
				c = &ast.BinaryExpr{X: x.Tag, Op: token.EQL, Y: e}
			}
			if cond == nil {
				cond = c
			} else {
				cond = &ast.BinaryExpr{X: cond, Op: token.LOR, Y: c}
			}
		}
		return &ast.IfStmt{Cond: cond, Body: &ast.BlockStmt{List: cc.Body}, Else: build(i + 1)}
	}
	body := build(0)
	if len(initStmts) > 0 {
		return &ast.BlockStmt{List: append(initStmts, body)}
	}
	return body
}

func (t *tr) ifStmt(x *ast.IfStmt, rest []ast.Stmt, k func() string) string {
	pre := ""
	if x.Init != nil {
		as, ok := x.Init.(*ast.AssignStmt)
		if !ok || as.Tok != token.DEFINE {
			fail("if-init in %s", t.tgt.Func)
		}
		if _, isIdx := as.Rhs[0].(*ast.IndexExpr); isIdx && len(as.Lhs) == 2 {
			// v, ok := m[k]   — v is an opaque struct, ok a free boolean
			v := as.Lhs[0].(*ast.Ident).Name
			okn := as.Lhs[1].(*ast.Ident).Name
			t.opaque[v] = true
			t.declareFree(okn, tBool)
		} else {
			return t.stmts(append([]ast.Stmt{as, &ast.IfStmt{Cond: x.Cond, Body: x.Body, Else: x.Else}}, rest...), k)
		}
	}
	cond, ct := t.expr(x.Cond)
	if ct != tBool {
		fail("non-boolean condition")
	}
	var elseList []ast.Stmt
	if x.Else != nil {
		elseList = []ast.Stmt{x.Else}
	}
	set := map[string]bool{}
	hasRet := t.assigned(x.Body.List, set)
	if t.assigned(elseList, set) {
		hasRet = true
	}
	saved := t.snapshot()
	if hasRet {
		// duplicate the continuation in both branches
		kk := func() string { return t.stmts(rest, k) }
		th := t.stmts(x.Body.List, kk)
		t.restore(saved)
		el := t.stmts(elseList, kk)
		t.restore(saved)
		return pre + "if " + cond + " then (\n" + th + ") else (\n" + el + ")"
	}
	// only variables that exist before the if survive it
	var ws []string
	for n := range set {
		if _, ok := saved[n]; ok {
			ws = append(ws, n)
		}
	}
	sort.Strings(ws)
	if len(ws) == 0 {
		return pre + t.stmts(rest, k)
	}
	tuple := "(" + strings.Join(ws, ", ") + ")"
	pat := "'" + tuple
	if len(ws) == 1 {
		tuple = ws[0]
		pat = ws[0]
	}
	th := t.stmts(x.Body.List, func() string { return tuple })
	t.restore(saved)
	el := t.stmts(elseList, func() string { return tuple })
	t.restore(saved)
	return pre + "let " + pat + " := (if " + cond + " then (\n" + th + ") else (\n" + el + ")) in\n" + t.stmts(rest, k)
}

func (t *tr) snapshot() map[string]typ {
	m := map[string]typ{}
	for k, v := range t.vars {
		m[k] = v
	}
	return m
}
func (t *tr) restore(m map[string]typ) {
	// keep free parameters declared meanwhile
	for k := range t.vars {
		if _, ok := m[k]; !ok && !t.freeSet[k] {
			delete(t.vars, k)
		}
	}
}

func (t *tr) recvState() string {
	if len(t.fields) == 0 {
		return ""
	}
	var fs []string
	for _, f := range t.fields {
		fs = append(fs, t.recvName+"_"+f)
	}
	return "(mk_" + t.recvType + " " + strings.Join(fs, " ") + ")"
}

func (t *tr) ret(x *ast.ReturnStmt) string {
	var parts []string
	for i, r := range x.Results {
		s, ty := t.expr(r)
		if i < len(t.retTypes) && t.retTypes[i] == tErr && ty != tErr {
			fail("non-error returned as error")
		}
		parts = append(parts, s)
	}
	res := strings.Join(parts, ", ")
	if len(parts) > 1 {
		res = "(" + res + ")"
	}
	if t.mutRecv {
		if res == "" {
			return t.recvState()
		}
		return "(" + t.recvState() + ", " + res + ")"
	}
	return res
}

func coqType(ty typ) string {
	switch ty {
	case tBool:
		return "bool"
	case tErr:
		return "option gerr"
	}
	if strings.HasPrefix(string(ty), "struct:") {
		return strings.TrimPrefix(string(ty), "struct:")
	}
	if strings.HasPrefix(string(ty), "*") {
		return strings.TrimPrefix(string(ty), "*")
	}
	return "Z"
}

func collectConsts(f *ast.File, consts map[string]constVal) {
	for _, d := range f.Decls {
		gd, ok := d.(*ast.GenDecl)
		if !ok || gd.Tok != token.CONST {
			continue
		}
		var curType typ = tUntyped
		iotaMode := false
		for i, sp := range gd.Specs {
			vs := sp.(*ast.ValueSpec)
			if vs.Type != nil {
				curType = normType(exprStr(vs.Type))
			}
			if len(vs.Values) == 1 {
				switch v := vs.Values[0].(type) {
				case *ast.Ident:
					iotaMode = v.Name == "iota"
					if iotaMode {
						consts[vs.Names[0].Name] = constVal{fmt.Sprint(i), curType}
					}
				case *ast.BasicLit:
					iotaMode = false
					if v.Kind == token.INT {
						n, err := strconv.ParseInt(v.Value, 0, 64)
						if err == nil {
							ty := tUntyped
							if vs.Type != nil {
								ty = curType
							}
							consts[vs.Names[0].Name] = constVal{fmt.Sprint(n), ty}
						}
					}
				default:
					iotaMode = false
				}
			} else if len(vs.Values) == 0 && iotaMode {
				consts[vs.Names[0].Name] = constVal{fmt.Sprint(i), curType}
			}
		}
	}
}

func main() {
	if len(os.Args) != 4 {
		fmt.Fprintln(os.Stderr, "usage: go2coq <repo> <spec.json> <outdir>")
		os.Exit(2)
	}
	repo, specPath, outdir := os.Args[1], os.Args[2], os.Args[3]
	raw, err := os.ReadFile(specPath)
	if err != nil {
		panic(err)
	}
	var specs []Spec
	if err := json.Unmarshal(raw, &specs); err != nil {
		panic(err)
	}
	for _, sp := range specs {
		if len(sp.Tables) > 0 {
			genTables(repo, sp.Consts, sp.Tables, outdir, sp.Out)
			continue
		}
		if len(sp.Schemas) > 0 {
			genSchemas(repo, sp.Schemas, sp.Wrappers, outdir, sp.Out)
			continue
		}
		var out strings.Builder
		out.WriteString("(* GENERATED by /verif/harness/go2coq from /repo sources — do not edit. *)\n")
		out.WriteString("From Coq Require Import ZArith Bool.\nFrom F3 Require Import GoInt.\nOpen Scope Z_scope.\n")
		for _, h := range sp.Header {
			out.WriteString(h + "\n")
		}
		fset := token.NewFileSet()
		files := map[string]*ast.File{}
		load := func(p string) *ast.File {
			if f, ok := files[p]; ok {
				return f
			}
			f, err := parser.ParseFile(fset, filepath.Join(repo, p), nil, parser.SkipObjectResolution)
			if err != nil {
				fmt.Fprintf(os.Stderr, "go2coq: parse %s: %v\n", p, err)
				os.Exit(3)
			}
			files[p] = f
			return f
		}
		consts := map[string]constVal{}
		for _, c := range sp.Consts {
			collectConsts(load(c), consts)
		}
		funcs := map[string]bool{}
		funcRet := map[string][]typ{}
		coqName := map[string]string{}
		var body strings.Builder
		errs := map[string]bool{}
		emittedRec := map[string]bool{}
		needRec := map[string]bool{}
		emitRec := func(f *ast.File, name string) {
			if emittedRec[name] {
				return
			}
			st := findStruct(f, name)
			if st == nil {
				fail("struct %s not found", name)
			}
			emittedRec[name] = true
			body.WriteString("Record " + name + " := mk_" + name + " {\n")
			for _, fl := range st.Fields.List {
				for _, n := range fl.Names {
					body.WriteString("  " + name + "_" + n.Name + " : " + coqType(normType(exprStr(fl.Type))) + ";\n")
				}
			}
			body.WriteString("}.\n\n")
		}
		for _, tg := range sp.Targets {
			f := load(tg.File)
			collectConsts(f, consts)
			var fd *ast.FuncDecl
			for _, d := range f.Decls {
				if x, ok := d.(*ast.FuncDecl); ok && x.Name.Name == tg.Func {
					rt := ""
					if x.Recv != nil && len(x.Recv.List) > 0 {
						rt = strings.TrimPrefix(exprStr(x.Recv.List[0].Type), "*")
					}
					if tg.Recv == "" || tg.Recv == rt {
						fd = x
					}
				}
			}
			if fd == nil {
				fail("function %s not found in %s", tg.Func, tg.File)
			}
			t := &tr{fset: fset, file: f, consts: consts, funcs: funcs, funcRet: funcRet, coqName: coqName, tgt: tg,
				vars: map[string]typ{}, freeSet: map[string]bool{}, opaque: map[string]bool{}, errs: errs, needRec: needRec}
			for _, o := range tg.Opaque {
				t.opaque[o] = true
			}
			name := tg.Name
			if name == "" {
				name = tg.Func
			}
			// receiver
			var params []string
			if fd.Recv != nil && len(fd.Recv.List) > 0 && len(fd.Recv.List[0].Names) > 0 {
				t.recvName = fd.Recv.List[0].Names[0].Name
				t.recvType = strings.TrimPrefix(exprStr(fd.Recv.List[0].Type), "*")
				// find struct
				var st *ast.StructType
				for _, d := range f.Decls {
					if gd, ok := d.(*ast.GenDecl); ok && gd.Tok == token.TYPE {
						for _, s := range gd.Specs {
							ts := s.(*ast.TypeSpec)
							if ts.Name.Name == t.recvType {
								st, _ = ts.Type.(*ast.StructType)
							}
						}
					}
				}
				translatable := st != nil && !t.opaque[t.recvName]
				if translatable {
					for _, fl := range st.Fields.List {
						ty := normType(exprStr(fl.Type))
						if ty != tI64 && ty != tU64 && ty != tBool && ty != tBig {
							translatable = false
						}
					}
				}
				if translatable {
					for _, fl := range st.Fields.List {
						ty := normType(exprStr(fl.Type))
						for _, n := range fl.Names {
							t.fields = append(t.fields, n.Name)
							t.vars[t.recvName+"_"+n.Name] = ty
						}
					}
					emitRec(f, t.recvType)
					t.mutRecv = true
					params = append(params, "("+t.recvName+" : "+t.recvType+")")
				} else {
					t.opaque[t.recvName] = true
					t.recvName = ""
				}
			}
			if tg.Fragment == nil && tg.ReturnOf == "" && tg.GuardOf == "" && tg.CondOfErr == "" && tg.CallArg == nil {
				for _, p := range fd.Type.Params.List {
					ty := normType(exprStr(p.Type))
					for _, n := range p.Names {
						if ty == tI64 || ty == tU64 || ty == tBool || ty == tBig {
							t.vars[mg(n.Name)] = ty
							params = append(params, "("+mg(n.Name)+" : "+coqType(ty)+")")
						} else {
							t.opaque[n.Name] = true
						}
					}
				}
			}
			if fd.Type.Results != nil {
				for _, r := range fd.Type.Results.List {
					n := len(r.Names)
					if n == 0 {
						n = 1
					}
					for i := 0; i < n; i++ {
						ty := normType(exprStr(r.Type))
						if strings.HasPrefix(string(ty), "*") && t.mutRecv {
							ty = tOpaque
						}
						t.retTypes = append(t.retTypes, ty)
					}
				}
			}
			var code string
			var resultType string
			var multi [][2]string
			multiCount := 0
			switch {
			case tg.GuardOf != "":
				var conds []ast.Expr
				found := false
				var walk func(list []ast.Stmt, stack []ast.Expr)
				walk = func(list []ast.Stmt, stack []ast.Expr) {
					for _, st := range list {
						if found {
							return
						}
						switch x := st.(type) {
						case *ast.AssignStmt:
							for _, l := range x.Lhs {
								if id, ok := l.(*ast.Ident); ok && id.Name == tg.GuardOf {
									found = true
									conds = append([]ast.Expr{}, stack...)
									return
								}
							}
						case *ast.BlockStmt:
							walk(x.List, stack)
						case *ast.IfStmt:
							walk(x.Body.List, append(append([]ast.Expr{}, stack...), x.Cond))
							if x.Else != nil && !found {
								walk([]ast.Stmt{x.Else}, append(append([]ast.Expr{}, stack...), &ast.UnaryExpr{Op: token.NOT, X: x.Cond}))
							}
						case *ast.ForStmt:
							walk(x.Body.List, stack)
						case *ast.RangeStmt:
							walk(x.Body.List, stack)
						}
					}
				}
				walk(fd.Body.List, nil)
				if !found {
					fail("guard_of: no assignment to %s in %s", tg.GuardOf, tg.Func)
				}
				code = "true"
				for _, c := range conds {
					cs, ct := t.expr(c)
					if ct != tBool {
						fail("guard_of: non-boolean condition")
					}
					code = "(andb " + code + " " + cs + ")"
				}
				resultType = "bool"
			case tg.CondOfErr != "":
				var cond ast.Expr
				ast.Inspect(fd.Body, func(n ast.Node) bool {
					ifs, ok := n.(*ast.IfStmt)
					if !ok || cond != nil {
						return true
					}
					for _, st := range ifs.Body.List {
						r, ok := st.(*ast.ReturnStmt)
						if !ok {
							continue
						}
						for _, res := range r.Results {
							hit := false
							ast.Inspect(res, func(m ast.Node) bool {
								if bl, ok := m.(*ast.BasicLit); ok && bl.Kind == token.STRING && strings.Contains(bl.Value, tg.CondOfErr) {
									hit = true
								}
								return true
							})
							if hit {
								cond = ifs.Cond
							}
						}
					}
					return true
				})
				if cond == nil {
					fail("cond_of_err: no if-statement returning an error containing %q in %s", tg.CondOfErr, tg.Func)
				}
				cs, ct := t.expr(cond)
				if ct != tBool {
					fail("cond_of_err: non-boolean condition")
				}
				code = cs
				resultType = "bool"
			case tg.CallArg != nil:
				var hits []*ast.CallExpr
				ast.Inspect(fd.Body, func(n ast.Node) bool {
					if c, ok := n.(*ast.CallExpr); ok && exprStr(c.Fun) == tg.CallArg.Callee {
						hits = append(hits, c)
					}
					return true
				})
				if tg.CallArg.Occurrence >= len(hits) || tg.CallArg.Index >= len(hits[tg.CallArg.Occurrence].Args) {
					fail("call_arg: call %d to %s with %d args not found in %s", tg.CallArg.Occurrence, tg.CallArg.Callee, tg.CallArg.Index+1, tg.Func)
				}
				cs, ct := t.expr(hits[tg.CallArg.Occurrence].Args[tg.CallArg.Index])
				code = cs
				resultType = coqType(ct)
			case tg.ReturnOf != "":
				idx, _ := strconv.Atoi(tg.ReturnOf)
				var rets []*ast.ReturnStmt
				ast.Inspect(fd.Body, func(n ast.Node) bool {
					if _, ok := n.(*ast.FuncLit); ok {
						return false
					}
					if r, ok := n.(*ast.ReturnStmt); ok && len(r.Results) > idx {
						rets = append(rets, r)
					}
					return true
				})
				if len(rets) == 0 {
					fail("no return with %d results in %s", idx+1, tg.Func)
				}
				for k, r := range rets {
					s, ty := t.expr(r.Results[idx])
					multi = append(multi, [2]string{fmt.Sprintf("%s_%d", name, k+1), s})
					resultType = coqType(ty)
				}
				multiCount = len(rets)
			case tg.Fragment != nil:
				want := map[string]bool{}
				for _, v := range tg.Fragment {
					want[v] = true
				}
				var sel []ast.Stmt
				// pure(st): st consists only of assignments to wanted variables (and ifs made of such)
				var pure func(st ast.Stmt) bool
				pure = func(st ast.Stmt) bool {
					switch x := st.(type) {
					case *ast.AssignStmt:
						if len(x.Lhs) != 1 {
							return false
						}
						id, ok := x.Lhs[0].(*ast.Ident)
						return ok && want[id.Name]
					case *ast.BlockStmt:
						if len(x.List) == 0 {
							return false
						}
						for _, y := range x.List {
							if !pure(y) {
								return false
							}
						}
						return true
					case *ast.IfStmt:
						if x.Init != nil || !pure(x.Body) {
							return false
						}
						return x.Else == nil || pure(x.Else)
					}
					return false
				}
				var walk func(list []ast.Stmt)
				walk = func(list []ast.Stmt) {
					for _, st := range list {
						if pure(st) {
							sel = append(sel, st)
							continue
						}
						switch x := st.(type) {
						case *ast.BlockStmt:
							walk(x.List)
						case *ast.IfStmt:
							walk(x.Body.List)
							if x.Else != nil {
								walk([]ast.Stmt{x.Else})
							}
						case *ast.ForStmt:
							walk(x.Body.List)
						case *ast.RangeStmt:
							walk(x.Body.List)
						case *ast.SelectStmt:
							for _, c := range x.Body.List {
								walk(c.(*ast.CommClause).Body)
							}
						case *ast.SwitchStmt:
							for _, c := range x.Body.List {
								walk(c.(*ast.CaseClause).Body)
							}
						}
					}
				}
				walk(fd.Body.List)
				if len(sel) == 0 {
					fail("fragment variables %v not assigned in %s", tg.Fragment, tg.Func)
				}
				lastVar := mg(tg.Fragment[len(tg.Fragment)-1])
				code = t.stmts(sel, func() string { return lastVar })
				resultType = coqType(t.vars[lastVar])
			default:
				t.mutRecv = t.mutRecv && len(t.fields) > 0
				code = t.stmts(fd.Body.List, func() string {
					if t.mutRecv && len(t.retTypes) == 0 {
						return t.recvState()
					}
					fail("function %s may fall off its end", tg.Func)
					return ""
				})
				var rts []string
				for _, r := range t.retTypes {
					rts = append(rts, coqType(r))
				}
				resultType = strings.Join(rts, " * ")
				if len(rts) > 1 {
					resultType = "(" + resultType + ")"
				}
				if t.mutRecv {
					if resultType == "" {
						resultType = t.recvType
					} else {
						resultType = "(" + t.recvType + " * " + resultType + ")"
					}
				}
			}
			// constructor-style functions returning &T{...}: not supported generically
			// free parameters
			free := t.free
			if tg.Params != nil {
				seen := map[string]bool{}
				var ordered []string
				for _, p := range tg.Params {
					n := flat(p)
					seen[n] = true
					ordered = append(ordered, n)
					if !t.freeSet[n] {
						// declared but unused parameter: type from env
						ty, ok := t.lookupEnv(p)
						if !ok {
							fail("param %s has no env type", p)
						}
						t.vars[n] = ty
					}
				}
				for _, n := range free {
					if !seen[n] {
						fail("free variable %s of %s not listed in params", n, tg.Func)
					}
				}
				free = ordered
			}
			for _, n := range free {
				params = append(params, "("+n+" : "+coqType(t.vars[n])+")")
			}
			prelude := ""
			if t.mutRecv {
				for _, fl := range t.fields {
					prelude += "let " + t.recvName + "_" + fl + " := " + t.recvType + "_" + fl + " " + t.recvName + " in\n"
				}
			}
			for n := range needRec {
				emitRec(f, n)
			}
			body.WriteString(fmt.Sprintf("(* %s:%d  %s *)\n", tg.File, fset.Position(fd.Pos()).Line, tg.Func))
			if multi != nil {
				for _, m := range multi {
					body.WriteString("Definition " + m[0] + " " + strings.Join(params, " ") + " : " + resultType + " :=\n" + m[1] + ".\n")
				}
				body.WriteString(fmt.Sprintf("Definition %s_sites : nat := %d.\n\n", name, multiCount))
			} else {
				body.WriteString("Definition " + name + " " + strings.Join(params, " ") + " : " + resultType + " :=\n" + prelude + code + ".\n\n")
			}
			funcs[tg.Func] = true
			funcs[name] = true
			coqName[tg.Func] = name
			coqName[name] = name
			funcRet[tg.Func] = t.retTypes
			funcRet[name] = t.retTypes
		}
		if len(errs) > 0 {
			var es []string
			for e := range errs {
				es = append(es, e)
			}
			sort.Strings(es)
			out.WriteString("Inductive gerr := " + strings.Join(es, " | ") + ".\n\n")
		}
		out.WriteString(body.String())
		if err := os.WriteFile(filepath.Join(outdir, sp.Out), []byte(out.String()), 0o644); err != nil {
			panic(err)
		}
	}
}
