//go:build verif

package certstore

import (
	"context"

	"github.com/filecoin-project/go-f3/manifest"
	"github.com/ipfs/go-datastore"
)

// Accessors injected at build time by /verif (never committed to /repo).

func (cs *Store) VerifSetFrequency(f uint64) { cs.powerTableFrequency = f }
func (cs *Store) VerifFirst() uint64           { return cs.firstInstance }

func VerifImport(ctx context.Context, snapshot SnapshotReader, ds datastore.Batching, m *manifest.Manifest, freq uint64) error {
	return importSnapshotToDatastoreWithTestingPowerTableFrequency(ctx, snapshot, ds, m, freq)
}
