//go:build verif

package pmsg

import "github.com/filecoin-project/go-f3/gpbft"

// Accessors injected at build time by /verif (never committed to /repo).

// VerifStrip is ToPartialGMessage (the method does not use its receiver).
func VerifStrip(m *gpbft.GMessage) (*gpbft.PartialGMessage, error) {
	return (*PartialMessageManager)(nil).ToPartialGMessage(m)
}

// VerifComplete is CompleteMessage with the chain-exchange lookup replaced by the given chain: zero key -> as is,
// otherwise fill in the chain and run the production inferJustificationVoteValue.
func VerifComplete(pg *gpbft.PartialGMessage, chain *gpbft.ECChain) *gpbft.GMessage {
	if pg.VoteValueKey.IsZero() {
		return pg.GMessage
	}
	pg.Vote.Value = chain
	inferJustificationVoteValue(pg)
	return pg.GMessage
}
