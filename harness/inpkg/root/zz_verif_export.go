//go:build verif

package f3

import (
	"github.com/filecoin-project/go-f3/gpbft"
	"github.com/filecoin-project/go-f3/internal/writeaheadlog"
)

// Accessors injected at build time by /verif (never committed to /repo).

type VerifWalEntry = walEntry

func VerifNewWalEntry(m *gpbft.GMessage) walEntry { return walEntry{Message: m} }

type VerifWAL = writeaheadlog.WriteAheadLog[walEntry, *walEntry]

func VerifOpenWAL(dir string) (*VerifWAL, error) { return writeaheadlog.Open[walEntry](dir) }
