//go:build verif

package f3

import (
	"context"
	"errors"

	pubsub "github.com/libp2p/go-libp2p-pubsub"
	"go.uber.org/multierr"

	"github.com/filecoin-project/go-f3/certstore"
	"github.com/filecoin-project/go-f3/ec"
	"github.com/filecoin-project/go-f3/internal/clock"
	"github.com/filecoin-project/go-f3/manifest"
	"github.com/filecoin-project/go-f3/gpbft"
	"github.com/filecoin-project/go-f3/internal/writeaheadlog"
	"github.com/libp2p/go-libp2p/core/peer"
)

func peerID(s string) peer.ID { return peer.ID(s) }

// Accessors injected at build time by /verif (never committed to /repo).

type VerifWalEntry = walEntry

func VerifNewWalEntry(m *gpbft.GMessage) walEntry { return walEntry{Message: m} }

type VerifWAL = writeaheadlog.WriteAheadLog[walEntry, *walEntry]

func VerifOpenWAL(dir string) (*VerifWAL, error) { return writeaheadlog.Open[walEntry](dir) }

// equivocation filter
type VerifFilter struct{ f equivocationFilter }

func VerifNewFilter(local string) *VerifFilter {
	return &VerifFilter{f: newEquivocationFilter(peerID(local))}
}
func (v *VerifFilter) ProcessBroadcast(m *gpbft.GMessage) bool { return v.f.ProcessBroadcast(m) }
func (v *VerifFilter) ProcessReceive(p string, m *gpbft.GMessage) { v.f.ProcessReceive(peerID(p), m) }

// consensus inputs
type VerifInputs struct{ in gpbftInputs }

func VerifNewInputs(m manifest.Manifest, cs *certstore.Store, backend ec.Backend, v gpbft.Verifier, clk clock.Clock) *VerifInputs {
	return &VerifInputs{in: newInputs(m, cs, backend, v, clk)}
}
func (v *VerifInputs) GetProposal(ctx context.Context, instance uint64) (*gpbft.SupplementalData, *gpbft.ECChain, error) {
	return v.in.GetProposal(ctx, instance)
}
func (v *VerifInputs) GetCommittee(ctx context.Context, instance uint64) (*gpbft.Committee, error) {
	return v.in.GetCommittee(ctx, instance)
}

// the real gpbftRunner (not started: no topic is joined, so a message that reaches the publication point yields
// pubsub.ErrTopicClosed); used to drive the real BroadcastMessage / rebroadcastMessage / WAL replay at construction
type VerifRunner struct{ r *gpbftRunner }

func VerifNewRunner(ctx context.Context, cs *certstore.Store, backend ec.Backend, ps *pubsub.PubSub, v gpbft.Verifier, m manifest.Manifest, wal *VerifWAL, local string) (*VerifRunner, error) {
	out := make(chan *gpbft.MessageBuilder, 64)
	r, err := newRunner(ctx, cs, backend, ps, v, out, m, wal, peerID(local))
	if err != nil {
		return nil, err
	}
	return &VerifRunner{r: r}, nil
}

// returns (reached the publication point, error other than the closed topic)
func (v *VerifRunner) Broadcast(ctx context.Context, msg *gpbft.GMessage) (bool, error) {
	err := v.r.BroadcastMessage(ctx, msg)
	if errors.Is(err, pubsub.ErrTopicClosed) {
		return true, nil
	}
	return false, err
}
func (v *VerifRunner) Rebroadcast(msg *gpbft.GMessage) (bool, error) {
	err := v.r.rebroadcastMessage(msg)
	if errors.Is(err, pubsub.ErrTopicClosed) {
		return true, nil
	}
	return false, err
}

// the real RequestRebroadcast: number of messages that reached the publication point
func (v *VerifRunner) RequestRebroadcast(in gpbft.Instant) int {
	err := (*gpbftHost)(v.r).RequestRebroadcast(in)
	n := 0
	for _, e := range multierr.Errors(err) {
		if errors.Is(e, pubsub.ErrTopicClosed) {
			n++
		}
	}
	return n
}
func (v *VerifRunner) SelfMessages(in gpbft.Instant) []*gpbft.GMessage {
	v.r.msgsMutex.Lock()
	defer v.r.msgsMutex.Unlock()
	return append([]*gpbft.GMessage{}, v.r.selfMessages[in.ID][roundPhase{round: in.Round, phase: in.Phase}]...)
}
func (v *VerifRunner) Cancel() { v.r.ctxCancel() }
