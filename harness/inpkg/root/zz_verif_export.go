//go:build verif

package f3

import (
	"context"

	"github.com/filecoin-project/go-f3/certstore"
	"github.com/filecoin-project/go-f3/ec"
	"github.com/filecoin-project/go-f3/internal/clock"
	"github.com/filecoin-project/go-f3/manifest"
	"github.com/filecoin-project/go-f3/gpbft"
	"github.com/filecoin-project/go-f3/internal/writeaheadlog"
	"github.com/libp2p/go-libp2p/core/peer"
)

func peerID(s string) peer.ID { return peer.ID(s) }

// Accessors injected at build time by /verif (never committed to /repo).

type VerifWalEntry = walEntry

func VerifNewWalEntry(m *gpbft.GMessage) walEntry { return walEntry{Message: m} }

type VerifWAL = writeaheadlog.WriteAheadLog[walEntry, *walEntry]

func VerifOpenWAL(dir string) (*VerifWAL, error) { return writeaheadlog.Open[walEntry](dir) }

// equivocation filter
type VerifFilter struct{ f equivocationFilter }

func VerifNewFilter(local string) *VerifFilter {
	return &VerifFilter{f: newEquivocationFilter(peerID(local))}
}
func (v *VerifFilter) ProcessBroadcast(m *gpbft.GMessage) bool { return v.f.ProcessBroadcast(m) }
func (v *VerifFilter) ProcessReceive(p string, m *gpbft.GMessage) { v.f.ProcessReceive(peerID(p), m) }

// consensus inputs
type VerifInputs struct{ in gpbftInputs }

func VerifNewInputs(m manifest.Manifest, cs *certstore.Store, backend ec.Backend, v gpbft.Verifier, clk clock.Clock) *VerifInputs {
	return &VerifInputs{in: newInputs(m, cs, backend, v, clk)}
}
func (v *VerifInputs) GetProposal(ctx context.Context, instance uint64) (*gpbft.SupplementalData, *gpbft.ECChain, error) {
	return v.in.GetProposal(ctx, instance)
}
func (v *VerifInputs) GetCommittee(ctx context.Context, instance uint64) (*gpbft.Committee, error) {
	return v.in.GetCommittee(ctx, instance)
}
