//go:build verif

package f3

import (
	"github.com/filecoin-project/go-f3/gpbft"
	"github.com/filecoin-project/go-f3/internal/writeaheadlog"
	"github.com/libp2p/go-libp2p/core/peer"
)

func peerID(s string) peer.ID { return peer.ID(s) }

// Accessors injected at build time by /verif (never committed to /repo).

type VerifWalEntry = walEntry

func VerifNewWalEntry(m *gpbft.GMessage) walEntry { return walEntry{Message: m} }

type VerifWAL = writeaheadlog.WriteAheadLog[walEntry, *walEntry]

func VerifOpenWAL(dir string) (*VerifWAL, error) { return writeaheadlog.Open[walEntry](dir) }

// equivocation filter
type VerifFilter struct{ f equivocationFilter }

func VerifNewFilter(local string) *VerifFilter {
	return &VerifFilter{f: newEquivocationFilter(peerID(local))}
}
func (v *VerifFilter) ProcessBroadcast(m *gpbft.GMessage) bool { return v.f.ProcessBroadcast(m) }
func (v *VerifFilter) ProcessReceive(p string, m *gpbft.GMessage) { v.f.ProcessReceive(peerID(p), m) }
