//go:build verif

package sim

import (
	"github.com/filecoin-project/go-f3/gpbft"
	"github.com/filecoin-project/go-f3/sim/signing"
)

// Accessors injected at build time by /verif (never committed to /repo).

// VerifOracle is the simulator's decision oracle (simEC + one ECInstance) without a network.
type VerifOracle struct {
	ec   *simEC
	Inst *ECInstance
}

func VerifNewOracle(nn gpbft.NetworkName, backend signing.Backend, priorInstances int, base *gpbft.ECChain, pt *gpbft.PowerTable) *VerifOracle {
	ec := &simEC{networkName: nn, verifier: backend}
	for i := 0; i < priorInstances; i++ {
		ec.BeginInstance(base, pt)
	}
	return &VerifOracle{ec: ec, Inst: ec.BeginInstance(base, pt)}
}
func (o *VerifOracle) Validate(d *gpbft.Justification) error { return o.Inst.validateDecision(d) }
func (o *VerifOracle) Notify(id gpbft.ActorID, d *gpbft.Justification) { o.ec.NotifyDecision(id, d) }
func (o *VerifOracle) Err() error                                       { return o.ec.Err() }

// the consensus check Simulation.Run applies to a completed instance
func (o *VerifOracle) ReachedConsensus(exclude ...gpbft.ActorID) (*gpbft.ECChain, bool) {
	return o.Inst.HasReachedConsensus(exclude...)
}
func (o *VerifOracle) Completed(exclude ...gpbft.ActorID) bool { return o.Inst.HasCompleted(exclude...) }
