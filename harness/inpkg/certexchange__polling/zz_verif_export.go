//go:build verif

package polling

import (
	"context"
	"time"

	"github.com/filecoin-project/go-f3/internal/clock"
	"github.com/libp2p/go-libp2p/core/peer"
)

// Accessors injected at build time by /verif (never committed to /repo).

type VerifPredictor struct{ p *predictor }

func VerifNewPredictor(mn, df, mx time.Duration) *VerifPredictor {
	return &VerifPredictor{p: newPredictor(mn, df, mx)}
}
func (v *VerifPredictor) Update(progress uint64) time.Duration { return v.p.update(progress) }
func (v *VerifPredictor) State() (mn, mx, iv time.Duration, inc bool, ed, bo time.Duration) {
	return v.p.minInterval, v.p.maxInterval, v.p.interval, v.p.wasIncreasing, v.p.exploreDistance, v.p.backoff
}
func VerifSetPredictor(mn, mx, iv time.Duration, inc bool, ed, bo time.Duration) *VerifPredictor {
	return &VerifPredictor{p: &predictor{minInterval: mn, maxInterval: mx, interval: iv, wasIncreasing: inc, exploreDistance: ed, backoff: bo}}
}

// VerifPollOnce runs one network polling round of the subscriber (the body of run()'s
// `progress == 0` branch) and returns the progress value handed to the predictor.
func (s *Subscriber) VerifPollOnce(ctx context.Context) (uint64, bool, error) { return s.poll(ctx) }

// VerifInit prepares the unexported parts of a Subscriber without starting its goroutines.
func (s *Subscriber) VerifInit(ctx context.Context) error {
	var err error
	s.clock = clock.GetClock(ctx)
	s.peerTracker = newPeerTracker(s.clock)
	s.poller, err = NewPoller(ctx, &s.Client, s.Store, s.SignatureVerifier)
	return err
}
func (s *Subscriber) VerifPeerSeen(p peer.ID) { s.peerTracker.peerSeen(p) }
func (s *Subscriber) VerifPoller() *Poller    { return s.poller }

// VerifRun runs the subscriber's polling loop (blocking until ctx is cancelled).
func (s *Subscriber) VerifRun(ctx context.Context) error { return s.run(ctx) }

// VerifDiscoveries gives the subscriber a peer-discovery channel the harness can feed (Start() wires this channel to libp2p
// identify events)
func (s *Subscriber) VerifDiscoveries(n int) chan<- peer.ID {
	ch := make(chan peer.ID, n)
	s.discoverCh = ch
	return ch
}
