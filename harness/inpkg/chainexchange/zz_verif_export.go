//go:build verif

package chainexchange

import (
	"context"
	"time"

	"github.com/filecoin-project/go-f3/gpbft"
	"github.com/filecoin-project/go-f3/internal/clock"
	"github.com/filecoin-project/go-f3/internal/encoding"
	lru "github.com/hashicorp/golang-lru/v2"
	pubsub "github.com/libp2p/go-libp2p-pubsub"
	pubsub_pb "github.com/libp2p/go-libp2p-pubsub/pb"
)

// Accessors injected at build time by /verif (never committed to /repo): a PubSubChainExchange without pubsub,
// whose caches are fed synchronously.
func VerifNew(progress gpbft.Progress, capWanted, capDiscovered int, lookahead uint64, maxAge time.Duration, clk clock.Clock, compression bool) *PubSubChainExchange {
	opts := &options{
		topicName: "verif", progress: progress, maxChainLength: gpbft.ChainMaxLen, maxInstanceLookahead: lookahead,
		maxDiscoveredChainsPerInstance: capDiscovered, maxWantedChainsPerInstance: capWanted, maxTimestampAge: maxAge, clk: clk, compression: compression,
	}
	var enc encoding.EncodeDecoder[*Message]
	if compression {
		z, err := encoding.NewZSTD[*Message]()
		if err != nil {
			panic(err)
		}
		enc = z
	} else {
		enc = encoding.NewCBOR[*Message]()
	}
	return &PubSubChainExchange{
		options:              opts,
		chainsWanted:         map[uint64]*lru.Cache[gpbft.ECChainKey, *chainPortion]{},
		chainsDiscovered:     map[uint64]*lru.Cache[gpbft.ECChainKey, *chainPortion]{},
		pendingCacheAsWanted: make(chan Message, 100),
		encoding:             enc,
	}
}
func (p *PubSubChainExchange) VerifCacheAsWanted(ctx context.Context, m Message)     { p.cacheAsWantedChain(ctx, m) }
func (p *PubSubChainExchange) VerifCacheAsDiscovered(ctx context.Context, m Message) { p.cacheAsDiscoveredChain(ctx, m) }
func (p *PubSubChainExchange) VerifEncode(m *Message) ([]byte, error)               { return p.encoding.Encode(m) }
func (p *PubSubChainExchange) VerifValidate(ctx context.Context, data []byte) (pubsub.ValidationResult, any) {
	msg := &pubsub.Message{Message: &pubsub_pb.Message{Data: data}}
	r := p.validatePubSubMessage(ctx, "", msg)
	return r, msg.ValidatorData
}
