//go:build verif

package gpbft

import (
	"context"
	"math"
	"time"

	"github.com/filecoin-project/go-f3/internal/caching"
)

// Accessors injected at build time (go build -overlay) by /verif; never committed to /repo.

func VerifDivCeil(a, b int64) int64          { return divCeil(a, b) }
func VerifHasWeakQuorum(p, w int64) bool      { return hasWeakQuorum(p, w) }
func VerifScalePower(p, t StoragePower) (int64, error) { return scalePower(p, t) }

// VerifQuorum wraps the unexported incremental tally.
type VerifQuorum struct{ q *quorumState }

func VerifNewQuorum(pt *PowerTable) *VerifQuorum { return &VerifQuorum{q: newQuorumState(pt)} }
func (v *VerifQuorum) Receive(sender ActorID, value *ECChain, sig []byte) {
	v.q.Receive(sender, value, sig)
}
func (v *VerifQuorum) ReceiveEachPrefix(sender ActorID, value *ECChain) {
	v.q.ReceiveEachPrefix(sender, value)
}
func (v *VerifQuorum) CouldReach(key ECChainKey, adv bool) bool {
	return v.q.CouldReachStrongQuorumFor(key, adv)
}
func (v *VerifQuorum) HasStrongQuorumFor(key ECChainKey) bool { return v.q.HasStrongQuorumFor(key) }
func (v *VerifQuorum) ReceivedFromStrongQuorum() bool          { return v.q.ReceivedFromStrongQuorum() }
func (v *VerifQuorum) ReceivedFromWeakQuorum() bool            { return v.q.ReceivedFromWeakQuorum() }
func (v *VerifQuorum) SendersTotalPower() int64               { return v.q.sendersTotalPower }
func (v *VerifQuorum) Support(key ECChainKey) (int64, bool) {
	s, ok := v.q.chainSupport[key]
	return s.power, ok
}
func (v *VerifQuorum) FindStrongQuorumFor(key ECChainKey) (QuorumResult, bool) {
	return v.q.FindStrongQuorumFor(key)
}

// timing configuration as the instance computes it
func (p *Participant) VerifPhaseTimeout(round uint64, quality bool) int64 {
	multi := 1.0
	if quality {
		multi = p.qualityDeltaMulti
	}
	delta := time.Duration(float64(p.delta) * multi * math.Pow(p.deltaBackOffExponent, float64(round)))
	return int64(2 * delta)
}
func (p *Participant) VerifRebroadcastAfter(attempt int) int64 { return int64(p.rebroadcastAfter(attempt)) }
func (p *Participant) VerifMaxLookahead() uint64               { return p.maxLookaheadRounds }
func (p *Participant) VerifRebroadcastImmediatelyAfter() uint64 { return p.rebroadcastImmediatelyAfterRound }

// the real cachingValidator with a caller-supplied progress function and cache dimensions
type VerifValidator struct{ v *cachingValidator }

func VerifNewValidator(nn NetworkName, verifier Verifier, cp CommitteeProvider, progress func() InstanceProgress, cache *caching.GroupedSet, lookback uint64) *VerifValidator {
	return &VerifValidator{v: newValidator(nn, verifier, cp, progress, cache, lookback)}
}
func (x *VerifValidator) Validate(ctx context.Context, m *GMessage) (ValidatedMessage, error) {
	return x.v.ValidateMessage(ctx, m)
}
func (x *VerifValidator) PartiallyValidate(ctx context.Context, m *PartialGMessage) (PartiallyValidatedMessage, error) {
	return x.v.PartiallyValidateMessage(ctx, m)
}
func (x *VerifValidator) FullyValidate(ctx context.Context, m PartiallyValidatedMessage) (ValidatedMessage, error) {
	return x.v.FullyValidateMessage(ctx, m)
}

func VerifVrfInput(beacon []byte, instance, round uint64, nn NetworkName) []byte {
	return vrfSerializeSigInput(beacon, instance, round, nn)
}

// the participant's queue of messages for instances that have not started yet
func (p *Participant) VerifQueueAdd(m *GMessage)                { p.mqueue.Add(m) }
func (p *Participant) VerifQueueDrain(inst uint64) []*GMessage { return p.mqueue.Drain(inst) }
func (p *Participant) VerifRunning() bool                       { return p.gpbft != nil }
